#!/bin/sh
# offline set-up: nothing is installed; verify interpreter + repo import
here="$(cd "$(dirname "$0")" && pwd)"
cd "$here" || exit 1
mkdir -p evidence replay
PYTHONPATH="${VERIF_REPO:-/repo}:$here" /venv/bin/python -B -c "import pcbasic.basic, vf.run; print('setup ok')"
