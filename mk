#!/bin/sh
here="$(cd "$(dirname "$0")" && pwd)"
cd "$here" && PYTHONPATH="${VERIF_REPO:-/repo}:$here" /venv/bin/python -B -m vf.mkmanifest && python3-vt -c "
import json,jsonschema
m=json.load(open('MANIFEST.json'))
jsonschema.validate(m, json.load(open('/root/.vp/MANIFEST.schema.json')))
sch=json.load(open('/root/.vp/EVIDENCE.schema.json'))
import os
for c in m['checks']:
    f=c['evidence_file']
    if os.path.exists(f):
        jsonschema.validate(json.load(open(f)), sch)
    else:
        print('missing evidence', f)
print('manifest + evidence of claimed checks validate')"
