#!/bin/sh
here="$(cd "$(dirname "$0")" && pwd)"
cd "$here" && PYTHONPATH="${VERIF_REPO:-/repo}:$here" /venv/bin/python -B -m vf.mkmanifest && python3-vt -c "
import json,jsonschema
jsonschema.validate(json.load(open('MANIFEST.json')), json.load(open('/root/.vp/MANIFEST.schema.json')))
import glob
sch=json.load(open('/root/.vp/EVIDENCE.schema.json'))
for f in sorted(glob.glob('evidence/*.json')):
    jsonschema.validate(json.load(open(f)), sch)
print('manifest + evidence validate')"
