"""Shard worker: python -m vf.worker <ID> <spec.json> <outprefix>"""
import importlib
import json
import sys
import traceback

from .result import Result, unjson


def main(argv):
    prop, specf, outp = argv
    with open(specf) as f:
        spec = json.load(f)
    mod = importlib.import_module('vf.checks.%s' % prop.lower())
    res = Result()
    if 'replay' in spec:
        rdata = spec['replay']
        if hasattr(mod, 'replay'):
            mod.replay(unjson(rdata), res)
        else:
            # default: re-run the shard that produced the witness
            sspec = dict(rdata['shard_spec'])
            mod.run_shard(sspec, res)
    else:
        mod.run_shard(spec, res)
    res.dump(outp + '.json', outp + '.hashes')
    return 0


if __name__ == '__main__':
    try:
        sys.exit(main(sys.argv[1:]))
    except SystemExit:
        raise
    except BaseException:
        traceback.print_exc()
        sys.exit(4)
