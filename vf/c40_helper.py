"""
C40 helper process: resumes suspended sessions in a process that never saw the original
session object.  Protocol: one JSON request per line on stdin, one JSON reply per line on stdout.
  {"op":"resume","state":path,"budget":n,"names":[...]}  -> observation dict
  {"op":"load","state":path}                              -> {"loaded": bool, "error": str}
"""
import io
import json
import sys
import hashlib

from . import harness
from .harness import error


def observe(s, names):
    """Variables, screen characters and pixels of a session, JSON-able."""
    obs = {'vars': {}}
    for n in names:
        try:
            v = s.get_variable(n)
        except BaseException as e:  # noqa
            v = 'ERR:%s' % type(e).__name__
        if isinstance(v, bytes):
            v = 'b:' + v.hex()
        elif isinstance(v, list):
            v = json.dumps(v, default=lambda x: 'b:' + x.hex() if isinstance(x, bytes) else repr(x))
        obs['vars'][n] = v
    chars = s.get_chars()
    obs['chars'] = [b''.join(row).hex() for row in chars]
    px = s._impl.display.vpage.pixels[:, :].to_bytes()
    obs['pixels'] = hashlib.sha1(bytes(px)).hexdigest()
    obs['cursor'] = [s._impl.text_screen.current_row, s._impl.text_screen.current_col]
    return obs


def all_names(s):
    """Names of all scalars and arrays that exist in the session (arrays as NAME( )."""
    impl = s._impl
    names = sorted(n.decode('latin-1') for n in impl.scalars)
    names += sorted(n.decode('latin-1') + '(' for n in impl.arrays._buffers)
    return names


def continue_run(s, budget):
    """Continue a resumed (or fresh) session until control returns; returns (output, exit?)."""
    st = harness.attach_stepper(s, harness.Stepper(budget=budget, wait_budget=50, clock=harness.shared_clock()))
    buf = io.BytesIO()
    s.add_pipes(output_streams=buf)
    exited = False
    with s._impl.io_streams.activate():
        try:
            s._impl.execute(b' ')
        except error.Exit:
            exited = True
    s.remove_pipes(output_streams=buf)
    return buf.getvalue(), exited, st.break_hit


def main():
    harness.shared_clock()
    for line in sys.stdin:
        req = json.loads(line)
        try:
            if req['op'] == 'resume':
                s = harness.Session.resume(req['state'])
                out, exited, brk = continue_run(s, req['budget'])
                rep = observe(s, req['names'])
                rep.update({'out': out.hex(), 'exited': exited, 'break': brk})
                try:
                    s.close()
                except BaseException:  # noqa
                    pass
            elif req['op'] == 'load':
                try:
                    harness.Session.resume(req['state'])
                    rep = {'loaded': True}
                except BaseException as e:  # noqa
                    rep = {'loaded': False, 'error': type(e).__name__}
            else:
                rep = {'error': 'bad op'}
        except BaseException as e:  # noqa
            import traceback
            rep = {'internal': harness.internal_key(e), 'tb': traceback.format_exc()[-1500:]}
        sys.stdout.write(json.dumps(rep) + '\n')
        sys.stdout.flush()


if __name__ == '__main__':
    main()
