"""
C20: generator of DEF FN programs + a small reference evaluator for the generated bodies.

A case is a JSON-able dict:
  deftypes : [('DEFINT', 'I-N'), ...]           (only BEFORE the definitions; never changed afterwards)
  fns      : [{'name': 'FNA#', 'params': ['X%', 'S$'], 'body': <ast>}]
  globals  : [['X%', 5], ['S$', 'glob'], ...]    every parameter name also exists as a global with a distinctive value
  arrays   : [['X%', [1, 2, 3]], ...]            arrays named like parameters (separate name space; must stay untouched)
  calls    : [{'fn': 'FNA#', 'args': [<arg>], ...}]
Body ast (lists):  ['V', name] variable/parameter, ['K', text, value] literal, ['+'|'-'|'*', a, b], ['CAT', a, b],
  ['LEN', s], ['LEFT', s, n], ['MID', s, n], ['SPACE', n], ['FN', name, [args]], ['PAREN', a], ['UPLUS', a],
  error sources: ['DIV0', a] a/0, ['OVF', a] a*1E30*1E30, ['MIS', a] a+"q", ['IFC', a] a+ASC("")
All names carry an explicit sigil unless the case has deftypes (then some are bare and resolved by first letter).
"""
from fractions import Fraction

NUM = '%!#'


class Unknown(Exception):
    """The statement + exact arithmetic do not pin the value (inexact conversion, soft float error...)."""


class ModelError(Exception):
    def __init__(self, code):
        Exception.__init__(self, 'error %d' % code)
        self.code = code


class Soft(Exception):
    """Division by zero / overflow in floating point: message-and-continue or hard error 11 / 6."""
    def __init__(self, code):
        Exception.__init__(self, 'soft %d' % code)
        self.code = code


# ---------------------------------------------------------------------------------------------------
# names and types

def sigil_of(name, deftype):
    """Type of a (possibly bare) name under the DEFtype map {letter: sigil}."""
    if name[-1] in '%!#$':
        return name[-1]
    base = name[2:] if name.startswith('FN') else name
    return deftype.get(base[0], '!')


def full_name(name, deftype):
    return name if name[-1] in '%!#$' else name + sigil_of(name, deftype)


def deftype_map(deftypes):
    m = {}
    for kw, rng in deftypes:
        sig = {'DEFINT': '%', 'DEFSNG': '!', 'DEFDBL': '#', 'DEFSTR': '$'}[kw]
        for part in rng.split(','):
            if '-' in part:
                a, b = part.split('-')
            else:
                a = b = part
            for c in range(ord(a), ord(b) + 1):
                m[chr(c)] = sig
    return m


def convert(value, ty):
    """Value (Fraction or bytes) converted to type ty as an assignment would; Unknown if rounding is involved."""
    if ty == '$':
        if not isinstance(value, bytes):
            raise ModelError(13)
        return value
    if isinstance(value, bytes):
        raise ModelError(13)
    if ty == '%':
        if value.denominator != 1:
            if not (-32700 < value < 32700):
                raise Unknown('rounding at the edge of the integer range')
            raise Unknown('rounding to integer')
        if not (-32768 <= value <= 32767):
            raise ModelError(6)
        return value
    bits = 24 if ty == '!' else 53
    n, d = abs(value.numerator), value.denominator
    if d & (d - 1):
        raise Unknown('not a binary fraction')
    if n and n.bit_length() - _trailing_zeros(n) > bits:
        raise Unknown('mantissa does not fit')
    if value != 0 and not (Fraction(1, 2 ** 100) < abs(value) < Fraction(2) ** 100):
        raise Unknown('near the exponent limits')
    return value


def _trailing_zeros(n):
    if n == 0:
        return 0
    return (n & -n).bit_length() - 1


# ---------------------------------------------------------------------------------------------------
# body printing and evaluation

def body_text(a):
    k = a[0]
    if k == 'V':
        return a[1]
    if k == 'K':
        return a[1]
    if k in ('+', '-', '*'):
        return '%s%s%s' % (_atom(a[1]), k, _atom(a[2]))
    if k == 'CAT':
        return '%s+%s' % (_atom(a[1]), _atom(a[2]))
    if k == 'LEN':
        return 'LEN(%s)' % body_text(a[1])
    if k == 'LEFT':
        return 'LEFT$(%s,%s)' % (body_text(a[1]), body_text(a[2]))
    if k == 'MID':
        return 'MID$(%s,%s)' % (body_text(a[1]), body_text(a[2]))
    if k == 'SPACE':
        return 'SPACE$(%s)' % body_text(a[1])
    if k == 'FN':
        if not a[2]:
            return a[1]
        return '%s(%s)' % (a[1], ','.join(body_text(x) for x in a[2]))
    if k == 'PAREN':
        return '(%s)' % body_text(a[1])
    if k == 'UPLUS':
        return '+%s' % _atom(a[1])
    if k == 'DIV0':
        return '%s/0' % _atom(a[1])
    if k == 'OVF':
        return '%s*1E30*1E30' % _atom(a[1])
    if k == 'MIS':
        return '%s+"q"' % _atom(a[1])
    if k == 'IFC':
        return '%s+ASC("")' % _atom(a[1])
    raise ValueError(k)


def _atom(a):
    t = body_text(a)
    if a[0] in ('V', 'K', 'LEN', 'LEFT', 'MID', 'SPACE', 'FN', 'PAREN'):
        if a[0] == 'K' and t.startswith('-'):
            return '(%s)' % t
        return t
    return '(%s)' % t


class Model(object):
    """Reference evaluation of calls: parameters shadow globals during the evaluation of the body only."""

    def __init__(self, case):
        # names in bodies and parameter lists are resolved with the DEFtype map in force when the CALL is made;
        # deftype_def is the map in force when DEF FN ran (differs only for cases with 'deftypes2')
        self.deftype_def = deftype_map(case.get('deftypes', []))
        self.deftype = deftype_map(list(case.get('deftypes', [])) + list(case.get('deftypes2', [])))
        self.retyped = bool(case.get('deftypes2'))
        self.convert_by_def_type = False
        self.fns = {}
        for f in case['fns']:
            self.fns[full_name(f['name'], self.deftype_def)] = f

    def call(self, fname, arg_asts, globals_, active=()):
        """arg_asts are evaluated in the caller's scope, each converted as soon as it is evaluated."""
        fname = full_name(fname, self.deftype)
        f = self.fns[fname]
        # alternative reading of the statement: the argument is converted to the type the parameter had at DEF FN time
        ptypes = [sigil_of(p, self.deftype_def if self.convert_by_def_type else self.deftype) for p in f['params']]
        conv = [convert(self.ev(a, globals_, active), ty) for a, ty in zip(arg_asts, ptypes)]
        if fname in active:
            raise ModelError(7)
        scope = dict(globals_)
        for p, v in zip(f['params'], conv):
            scope[full_name(p, self.deftype)] = v
        val = self.ev(f['body'], scope, tuple(active) + (fname,))
        return convert(val, fname[-1])

    def ev(self, a, scope, active):
        k = a[0]
        if k == 'V':
            n = full_name(a[1], self.deftype)
            if n in scope:
                return scope[n]
            return b'' if n[-1] == '$' else Fraction(0)
        if k == 'K':
            v = a[2]
            if v is None:
                raise Unknown('inexact literal')
            return v.encode('latin-1') if a[1].startswith('"') else Fraction(v)
        if k in ('PAREN', 'UPLUS'):
            return self.ev(a[1], scope, active)
        if k in ('+', '-', '*'):
            x, y = self.ev(a[1], scope, active), self.ev(a[2], scope, active)
            if isinstance(x, bytes) or isinstance(y, bytes):
                if k == '+' and isinstance(x, bytes) and isinstance(y, bytes):
                    return self._cat(x, y)
                raise ModelError(13)
            r = x + y if k == '+' else (x - y if k == '-' else x * y)
            n_ = abs(r.numerator)
            if r.denominator & (r.denominator - 1) or (n_ and n_.bit_length() - _trailing_zeros(n_) > 16) \
                    or abs(r) > 2 ** 20 or r.denominator > 2 ** 10:
                # stay far inside single precision: accuracy of float arithmetic is another property's subject (C04)
                raise Unknown('outside the exact region')
            return r
        if k == 'CAT':
            x, y = self.ev(a[1], scope, active), self.ev(a[2], scope, active)
            if not (isinstance(x, bytes) and isinstance(y, bytes)):
                raise ModelError(13)
            return self._cat(x, y)
        if k == 'LEN':
            s = self.ev(a[1], scope, active)
            if not isinstance(s, bytes):
                raise ModelError(13)
            return Fraction(len(s))
        if k in ('LEFT', 'MID'):
            s, n = self.ev(a[1], scope, active), self.ev(a[2], scope, active)
            if not isinstance(s, bytes) or isinstance(n, bytes):
                raise ModelError(13)
            if n.denominator != 1 or not (1 <= n <= 255):
                raise Unknown('substring position outside the plainly defined range')
            return s[:int(n)] if k == 'LEFT' else s[int(n) - 1:]
        if k == 'SPACE':
            n = self.ev(a[1], scope, active)
            if isinstance(n, bytes):
                raise ModelError(13)
            if n.denominator != 1 or not (0 <= n <= 255):
                raise Unknown('SPACE$ argument')
            return b' ' * int(n)
        if k == 'FN':
            # the callee sees the caller's scope as its globals (dynamic binding of non-parameters)
            return self.call(a[1], a[2], scope, active)
        if k == 'DIV0':
            x = self.ev(a[1], scope, active)
            if isinstance(x, bytes):
                raise ModelError(13)
            raise Soft(11)
        if k == 'OVF':
            x = self.ev(a[1], scope, active)
            if isinstance(x, bytes):
                raise ModelError(13)
            if x == 0:
                return Fraction(0)
            raise Soft(6)
        if k == 'MIS':
            x = self.ev(a[1], scope, active)
            if isinstance(x, bytes):
                return self._cat(x, b'q')
            raise ModelError(13)
        if k == 'IFC':
            self.ev(a[1], scope, active)
            raise ModelError(5)
        raise ValueError(k)

    @staticmethod
    def _cat(x, y):
        if len(x) + len(y) > 255:
            raise ModelError(15)
        return x + y


# ---------------------------------------------------------------------------------------------------
# generation

PNAMES = ['X', 'Y', 'Z', 'A', 'B', 'N', 'S', 'T', 'W', 'Q1', 'P2']
GSTRINGS = ['glob', 'alpha', 'bb', '', 'zq', 'ninechars', 'k']
ASTRINGS = ['arg', 'x', 'argument', '', 'pq', 'longer-argument-text', 'M']


def _k(v):
    """numeric literal node"""
    f = Fraction(v)
    if f.denominator == 1:
        return ['K', '%d' % int(f), str(f)]
    return ['K', ('%.4f' % float(f)).rstrip('0'), str(f)]


def _ks(s):
    return ['K', '"%s"' % s, s]


class Gen(object):

    def __init__(self, rng, tight=False, retype=0.2):
        self.rng = rng
        self.tight = tight
        self.retype = retype

    def case(self, nfn=None, ncalls=20):
        rng = self.rng
        deftypes = []
        if rng.random() < 0.3:
            deftypes = rng.sample([('DEFINT', 'N'), ('DEFSTR', 'S-T'), ('DEFDBL', 'W,Z'), ('DEFINT', 'A-B')], rng.randint(1, 2))
            # no letter may be claimed twice (later DEFtype would win; keep the case plain)
        dmap = deftype_map(deftypes)
        self.dmap = dmap
        nfn = nfn or rng.randint(2, 5)
        fns = []
        names = ['FN' + c for c in 'ABCDEFGHIJKL']
        rng.shuffle(names)
        gl = {}
        for i in range(nfn):
            fns.append(self.function(names[i], fns, gl))
        # recursive definitions: a cycle of length 1..4 through functions of every signature
        if rng.random() < 0.75:
            length = rng.choice([1, 1, 2, 2, 3, 4])
            fns.extend(self.cycle([n_ for n_ in names[nfn:nfn + length]]))
        # DEFtype change AFTER the definitions, for letters of unsuffixed parameters (never letters of function names)
        deftypes2 = []
        if rng.random() < self.retype:
            bare = sorted(set(p[0] for f in fns for p in f['params'] if p[-1] not in '%!#$' and p[0] not in 'ABCDEFGHIJKL'))
            rng.shuffle(bare)
            for letter in bare[:2]:
                old = dmap.get(letter, '!')
                new = rng.choice([t for t in ('%', '!', '#', '#', '%', '$') if t != old])
                # the retyped name must not collide with another parameter of the same function
                if any(len(set(full_name(p, dict(dmap, **{letter: new})) for p in f['params'])) != len(f['params']) for f in fns):
                    continue
                deftypes2.append(({'%': 'DEFINT', '!': 'DEFSNG', '#': 'DEFDBL', '$': 'DEFSTR'}[new], letter))
        dmap2 = deftype_map(list(deftypes) + deftypes2)
        # globals: every parameter name (under both type maps), plus extra
        used = set()
        for f in fns:
            for p in f['params']:
                used.add(full_name(p, dmap))
                used.add(full_name(p, dmap2))
            for n in _vars_in(f['body']):
                used.add(full_name(n, dmap))
        for _ in range(rng.randint(1, 4)):
            used.add(self.param('%!#$', explicit=True))
        globals_ = []
        for j, n in enumerate(sorted(used)):
            if rng.random() < 0.08:
                continue      # left undefined: reads as 0 / ""
            if n[-1] == '$':
                v = rng.choice(GSTRINGS) + ('%d' % j if rng.random() < 0.5 else '')
            elif n[-1] == '%':
                v = rng.choice([77, -5, 1234, 9, 32767, -32768, 100 + j])
            elif n[-1] == '!':
                v = rng.choice([5.0, -1.5, 1000.25, 0.5, 64.0 + j])
            else:
                v = rng.choice([9.0, -2.25, 123456.5, 0.125, 31.0 + j])
            globals_.append([n, v])
        arrays = []
        for n in sorted(used):
            if rng.random() < 0.25:
                if n[-1] == '$':
                    arrays.append([n, ['e0', 'e1' + n[0], 'e2']])
                else:
                    arrays.append([n, [1, 2, 3]])
        case = {'deftypes': [list(d) for d in deftypes], 'deftypes2': [list(d) for d in deftypes2], 'fns': fns,
                'globals': globals_, 'arrays': arrays, 'tight': self.tight}
        self.dmap = dmap2          # calls are typed with the map in force at call time
        case['calls'] = [self.call(case) for _ in range(ncalls)]
        return case

    def cycle(self, names, signatures=None):
        """
        Functions names[0] -> names[1] -> ... -> names[0]: each body calls the next one (through arithmetic, string
        functions or nested in the argument of the call).  Signatures: no parameter, numeric, string, mixed.
        """
        rng = self.rng
        dmap = self.dmap
        specs = []
        for i, nm in enumerate(names):
            sig = signatures[i] if signatures else rng.choice(['none', 'none', 'num', 'str', 'mixed'])
            params = []
            want = {'none': '', 'num': 'n', 'str': 's', 'mixed': rng.choice(['ns', 'sn', 'nsn'])}[sig]
            seen = set()
            for c in want:
                while True:
                    p = self.param('$' if c == 's' else '%!#')
                    if full_name(p, dmap) not in seen:
                        break
                seen.add(full_name(p, dmap))
                params.append(p)
            rtype = '$' if (sig == 'str' and rng.random() < 0.6) else rng.choice(['', '!', '#', '%'])
            if rtype == '' and sigil_of(nm, dmap) == '$':
                rtype = '#'
            specs.append({'name': nm + rtype, 'params': params})
        out = []
        for i, sp in enumerate(specs):
            nxt = specs[(i + 1) % len(specs)]
            nums = [p for p in sp['params'] if sigil_of(p, dmap) != '$']
            strs = [p for p in sp['params'] if sigil_of(p, dmap) == '$']
            args = []
            for q in nxt['params']:
                if sigil_of(q, dmap) == '$':
                    args.append(['V', rng.choice(strs)] if strs and rng.random() < 0.6 else _ks(rng.choice(ASTRINGS)))
                else:
                    args.append(['-', ['V', rng.choice(nums)], _k(1)] if nums and rng.random() < 0.6 else _k(rng.choice([1, 2, 5])))
            callnode = ['FN', nxt['name'], args]
            if len(specs) == 1 and args and rng.random() < 0.3:
                # the recursive call sits in the ARGUMENT of the recursive call
                k = rng.randrange(len(args))
                if sigil_of(nxt['params'][k], dmap) == sigil_of(nxt['name'], dmap) or \
                        (sigil_of(nxt['params'][k], dmap) != '$' and sigil_of(nxt['name'], dmap) != '$'):
                    inner = list(args)
                    args2 = list(args)
                    args2[k] = ['FN', nxt['name'], inner]
                    callnode = ['FN', nxt['name'], args2]
            me_str = sigil_of(sp['name'], dmap) == '$'
            nx_str = sigil_of(nxt['name'], dmap) == '$'
            if me_str and nx_str:
                body = rng.choice([callnode, ['CAT', callnode, _ks('x')], ['LEFT', callnode, _k(2)]])
            elif me_str:
                body = ['CAT', ['SPACE', callnode], _ks('')]
            elif nx_str:
                body = ['+', ['LEN', callnode], _k(1)]
            else:
                body = rng.choice([callnode, ['+', callnode, _k(1)], ['*', _k(2), callnode], ['-', _k(0), ['PAREN', callnode]]])
            out.append({'name': sp['name'], 'params': sp['params'], 'body': body,
                        'kind': 'rec-self' if len(specs) == 1 else 'rec-mutual'})
        return out

    def param(self, types, explicit=False):
        rng = self.rng
        base = rng.choice(PNAMES)
        if not explicit and rng.random() < 0.35:
            # bare name: type by DEFtype / default single
            if sigil_of(base, self.dmap) in types:
                return base
        return base + rng.choice(types)

    def function(self, name, earlier, gl):
        rng = self.rng
        dmap = self.dmap
        npar = rng.choice([0, 1, 1, 2, 2, 3, 4])
        if self.tight:
            npar = max(1, npar)
        params = []
        seen = set()
        while len(params) < npar:
            p = self.param('$$%!#' if self.tight else '%!#$')
            fn_ = full_name(p, dmap)
            # two parameters with one name are not pinned by the statement
            if fn_ in seen:
                continue
            seen.add(fn_)
            params.append(p)
        ptypes = [sigil_of(p, dmap) for p in params]
        nums = [p for p, t in zip(params, ptypes) if t != '$']
        strs = [p for p, t in zip(params, ptypes) if t == '$']
        r = rng.random()
        kind = None
        if params and r < 0.22:
            # projection: the body IS one parameter (possibly dressed up); result type = parameter type
            p = rng.choice(params)
            t = sigil_of(p, dmap)
            dress = rng.random()
            if dress < 0.5:
                body = ['V', p]
            elif dress < 0.65:
                body = ['PAREN', ['V', p]]
            elif dress < 0.75:
                body = ['UPLUS', ['V', p]]
            elif t == '$':
                body = ['CAT', ['V', p], _ks('')]
            else:
                body = ['+', ['V', p], _k(0)]
            return {'name': name + t, 'params': params, 'body': body, 'kind': 'proj', 'proj': p}
        if r < 0.34:
            # error inside the body
            src = rng.choice(['DIV0', 'OVF', 'MIS', 'IFC', 'RESOVF'])
            base = ['V', rng.choice(nums)] if nums else _k(3)
            if src == 'RESOVF':
                return {'name': name + '%', 'params': params, 'body': ['+', base, _k(40000)], 'kind': 'err-result'}
            return {'name': name + rng.choice(['', '!', '#']), 'params': params, 'body': [src, base], 'kind': 'err-body'}
        # value body over parameters, globals, other functions
        want_str = bool(strs) and rng.random() < (0.8 if self.tight else 0.45)
        if want_str:
            body = self.str_expr(strs, nums, earlier, 2)
            if rng.random() < 0.3:
                body = ['LEN', body]
                return {'name': name + rng.choice(['%', '', '#']), 'params': params, 'body': body, 'kind': 'value'}
            return {'name': name + '$', 'params': params, 'body': body, 'kind': 'value'}
        body = self.num_expr(nums, strs, earlier, 2)
        return {'name': name + rng.choice(['#', '#', '!', '']), 'params': params, 'body': body, 'kind': 'value'}

    def gvar(self, types):
        return ['V', self.param(types, explicit=True)]

    def num_expr(self, nums, strs, earlier, d):
        rng = self.rng
        r = rng.random()
        if d <= 0 or r < 0.2:
            r2 = rng.random()
            if nums and r2 < 0.6:
                return ['V', rng.choice(nums)]
            if r2 < 0.8:
                return self.gvar('%!#')
            return _k(rng.choice([1, 2, 3, 10, 0.5, -4]))
        if r < 0.3 and strs:
            return ['LEN', ['V', rng.choice(strs)]]
        if r < 0.45:
            callee = self.pick_fn(earlier, '%!#')
            if callee is not None:
                return ['FN', callee['name'], self.fn_args(callee, nums, strs, earlier, d - 1)]
        op = rng.choice(['+', '-', '*', '+'])
        return [op, self.num_expr(nums, strs, earlier, d - 1), self.num_expr(nums, strs, earlier, d - 1)]

    def str_expr(self, strs, nums, earlier, d):
        rng = self.rng
        r = rng.random()
        if d <= 0 or r < 0.25:
            r2 = rng.random()
            if strs and r2 < 0.65:
                return ['V', rng.choice(strs)]
            if r2 < 0.85:
                return self.gvar('$')
            return _ks(rng.choice(ASTRINGS))
        if r < 0.35:
            return ['LEFT', self.str_expr(strs, nums, earlier, d - 1), _k(rng.choice([1, 2, 3, 5]))]
        if r < 0.42:
            return ['MID', self.str_expr(strs, nums, earlier, d - 1), _k(rng.choice([1, 2, 3]))]
        if r < 0.5:
            return ['SPACE', _k(rng.choice([0, 1, 7, 20]))]
        if r < 0.62:
            callee = self.pick_fn(earlier, '$')
            if callee is not None:
                return ['FN', callee['name'], self.fn_args(callee, nums, strs, earlier, d - 1)]
        return ['CAT', self.str_expr(strs, nums, earlier, d - 1), self.str_expr(strs, nums, earlier, d - 1)]

    def pick_fn(self, earlier, types):
        c = [f for f in earlier if sigil_of(f['name'], self.dmap) in types and f['kind'] in ('value', 'proj')]
        return self.rng.choice(c) if c else None

    def fn_args(self, callee, nums, strs, earlier, d):
        out = []
        for p in callee['params']:
            if sigil_of(p, self.dmap) == '$':
                out.append(self.str_expr(strs, nums, [], min(d, 1)))
            else:
                out.append(self.num_expr(nums, strs, [], min(d, 1)))
        return out

    # ---- calls ------------------------------------------------------------------------------------

    def call(self, case):
        rng = self.rng
        dmap = self.dmap
        f = rng.choice(case['fns'])
        ptypes = [sigil_of(p, dmap) for p in f['params']]
        args = []
        bad = None
        if f['kind'].startswith('rec'):
            args = [_ks(rng.choice(['s', 'arg'])) if t == '$' else _k(rng.choice([1, 3, 7])) for t in ptypes]
            return {'fn': f['name'], 'args': args, 'form': rng.choice(['eval', 'print', 'let', 'nested', 'nested'])}
        if ptypes and f['kind'] in ('value', 'proj') and rng.random() < 0.25:
            bad = rng.randrange(len(ptypes))
        for i, t in enumerate(ptypes):
            args.append(self.arg(t, case, bad == i))
        form = rng.choice(['eval', 'eval', 'print', 'let'])
        return {'fn': f['name'], 'args': args, 'form': form}

    def arg(self, t, case, bad):
        """-> ['K'...] / ['V'...] / small expression ast (evaluated in the CALLER's scope)."""
        rng = self.rng
        if bad:
            if t == '$':
                return _k(rng.choice([1, 0, 2.5]))
            r = rng.random()
            if r < 0.5:
                return _ks(rng.choice(ASTRINGS))
            if t == '%':
                return _k(rng.choice([40000, -32769, 32768, 1000000]))
            return _ks('num')
        gnames = [g[0] for g in case['globals']]
        if t == '$':
            r = rng.random()
            c = [g for g in gnames if g[-1] == '$']
            if c and r < 0.3:
                return ['V', rng.choice(c)]
            if r < 0.5:
                return ['CAT', _ks(rng.choice(ASTRINGS)), _ks(rng.choice(ASTRINGS))]
            if r < 0.6:
                return ['SPACE', _k(rng.choice([3, 12, 30]))]
            return _ks(rng.choice(ASTRINGS))
        r = rng.random()
        c = [g for g in gnames if g[-1] != '$']
        if c and r < 0.25:
            return ['V', rng.choice(c)]
        if r < 0.35:
            return ['+', _k(rng.choice([1, 2, 7])), _k(rng.choice([1, 3, 10]))]
        if t == '%':
            return _k(rng.choice([3, -7, 0, 2.5, 3.5, -2.5, 32767, -32768, 12, 0.25, 99.75]))
        if t == '!':
            v = rng.choice([1.5, 3, -2, 0.25, 100, 4096, 7])
            if rng.random() < 0.15:
                return ['K', '1.23456789#', None]
            return _k(v)
        v = rng.choice([2.25, 7, -3, 0.125, 123456.5, 1])
        if rng.random() < 0.15:
            return ['K', '0.1', None]
        return _k(v)


def _vars_in(a):
    if a[0] == 'V':
        yield a[1]
    elif a[0] == 'FN':
        for x in a[2]:
            for v in _vars_in(x):
                yield v
    else:
        for x in a[1:]:
            if isinstance(x, list):
                for v in _vars_in(x):
                    yield v


def program_lines(case, extra=()):
    """BASIC source (list of bytes) defining the functions and assigning the globals; ends with END."""
    lines = []
    n = 10
    for kw, rng_ in case.get('deftypes', []):
        lines.append('%d %s %s' % (n, kw, rng_))
        n += 1
    n = 20
    for f in case['fns']:
        ps = '(%s)' % ','.join(f['params']) if f['params'] else ''
        lines.append('%d DEF %s%s=%s' % (n, f['name'], ps, body_text(f['body'])))
        n += 2
    n = 90
    for kw, rng_ in case.get('deftypes2', []):
        lines.append('%d %s %s' % (n, kw, rng_))
        n += 1
    n = 100
    for name, v in case['globals']:
        if name[-1] == '$':
            lines.append('%d %s="%s"' % (n, name, v))
        else:
            lines.append('%d %s=%r' % (n, name, v))
        n += 1
    for name, vals in case['arrays']:
        lines.append('%d DIM %s(%d)' % (n, name, len(vals) - 1))
        n += 1
        for i, v in enumerate(vals):
            if name[-1] == '$':
                lines.append('%d %s(%d)="%s"' % (n, name, i, v))
            else:
                lines.append('%d %s(%d)=%r' % (n, name, i, v))
            n += 1
    for l in extra:
        lines.append(l)
    lines.append('9990 END')
    return [l.encode('latin-1') for l in lines]


def call_text(call):
    if not call['args']:
        return call['fn']
    return '%s(%s)' % (call['fn'], ','.join(body_text(a) for a in call['args']))


def nested_text(call, is_string):
    """The call as an operand inside a larger expression."""
    t = call_text(call)
    return ('"a"+%s+"b"' % t) if is_string else ('1+%s*2' % t)
