"""
Seeded generators for C07 (and the number side of C08 / C43): MBF bit patterns and decimal texts.
Every generator takes a random.Random; directed tables take none and are seed-independent.
"""
from fractions import Fraction

from ..models import rnum

BITS = rnum.MANT_BITS


def encode_floor(value, n):
    """
    MBF encoding (n = 4 / 8 bytes) of value truncated towards zero to the type's precision;
    None if outside the exponent range. Used only to BUILD inputs: the oracle always decodes the
    bytes again, so nothing depends on this being the nearest value.
    """
    value = Fraction(value)
    if value == 0:
        return b'\0' * n
    bits = BITS[n]
    neg = value < 0
    a = -value if neg else value
    e = a.numerator.bit_length() - a.denominator.bit_length()
    shift = bits - e
    while True:
        if shift >= 0:
            m = (a.numerator << shift) // a.denominator
        else:
            m = a.numerator // (a.denominator << -shift)
        if m >= (1 << bits):
            shift -= 1
        elif m < (1 << (bits - 1)):
            shift += 1
        else:
            break
    exp = 128 + bits - shift
    if not (1 <= exp <= 255):
        return None
    man = m & ((1 << (bits - 1)) - 1)
    if neg:
        man |= 1 << (bits - 1)
    return man.to_bytes(n - 1, 'little') + bytes([exp])


def step(b, k):
    """The encoding k units in the last place away (in magnitude) from b; None at the range ends."""
    b = bytes(b)
    n = len(b)
    if b[-1] == 0:
        return None
    bits = BITS[n]
    raw = int.from_bytes(b[:-1], 'little')
    neg = raw >> (bits - 1)
    man = (raw & ((1 << (bits - 1)) - 1)) | (1 << (bits - 1))
    e = b[-1]
    man += k
    if man >= (1 << bits):
        man >>= 1
        e += 1
    elif man < (1 << (bits - 1)):
        man = (man << 1) | 1
        e -= 1
    if not (1 <= e <= 255):
        return None
    man &= (1 << (bits - 1)) - 1
    if neg:
        man |= 1 << (bits - 1)
    return man.to_bytes(n - 1, 'little') + bytes([e])


# -------------------------------------------------------------------------------------------------
# bit patterns for the print direction

def print_directed():
    """Seed-independent boundary table of (bytes) for both float types and the integer type."""
    out = []
    for n in (4, 8):
        bits = BITS[n]
        top = (1 << (bits - 1)) - 1
        # every exponent byte with minimal / maximal / alternating mantissa, both signs
        for e in range(1, 256):
            for man in (0, top, 0x2aaaaaaaaaaaaa & top, 1, top - 1):
                for neg in (0, 1):
                    m = man | (neg << (bits - 1))
                    out.append(m.to_bytes(n - 1, 'little') + bytes([e]))
        # zero in its spellings (exponent byte 0 => zero whatever the mantissa)
        out.append(b'\0' * n)
        out.append(b'\xff' * (n - 1) + b'\0')
        # powers of ten and their neighbourhood
        for k in range(-39, 39):
            b = encode_floor(Fraction(10) ** k, n)
            if b is None:
                continue
            for d in range(-3, 5):
                x = step(b, d) if d else b
                if x is not None:
                    out.append(x)
                    out.append(x[:-2] + bytes([x[-2] | 0x80]) + x[-1:])
        # the digit limits and exact-integer limits
        lim = 10 ** (7 if n == 4 else 16)
        specials = [lim, lim // 10, lim - 1, lim + 1, 1 << bits, (1 << bits) - 1, (1 << (bits - 1)),
                    Fraction(lim - 1, 10), Fraction(lim * 10 - 5, 100), Fraction(lim * 10 - 5, 10),
                    Fraction(1, 2), Fraction(1, 4), Fraction(3, 4), Fraction(1, 10), Fraction(1, 100),
                    Fraction(1, 3), Fraction(2, 3), Fraction(999999, 1000000), 32767, 32768, 65535, 65536,
                    Fraction(15, 10), Fraction(25, 10), Fraction(123456789, 1000), Fraction(1, 10 ** 7),
                    Fraction(1, 10 ** 16)]
        for v in specials:
            b = encode_floor(v, n)
            for d in range(-3, 4):
                x = step(b, d) if d else b
                if x is not None:
                    out.append(x)
        for i in list(range(0, 130)) + [999, 1000, 1001, 9999, 10000, 99999, 100000, 999999, 1000000,
                                        9999999, 9999998, 1234567, 7654321]:
            out.append(encode_floor(i, n))
            out.append(encode_floor(-i, n))
        if n == 8:
            for i in (10 ** 15, 10 ** 15 - 1, 10 ** 16 - 1, 10 ** 16 - 2, 1234567890123456, 999999999999999,
                      123456789012345, 72057594037927935, 10 ** 8, 10 ** 8 - 1, 16777216, 16777217):
                out.append(encode_floor(i, n))
                out.append(encode_floor(-i, n))
    for i in (0, 1, -1, 9, 10, 99, 100, 255, 256, 999, 1000, 9999, 10000, 32767, -32768, -32767, 12345, -12345):
        out.append((i & 0xffff).to_bytes(2, 'little'))
    seen, res = set(), []
    for b in out:
        if b is not None and b not in seen:
            seen.add(b)
            res.append(b)
    return res


def pattern(rng):
    """One random bit pattern (bytes); mixture of shapes, both float types, some integers."""
    r = rng.random()
    if r < 0.03:
        return (rng.getrandbits(16)).to_bytes(2, 'little')
    n = 4 if rng.random() < 0.5 else 8
    bits = BITS[n]
    if r < 0.40:
        # uniform bits, exponent uniform over 1..255
        return rng.getrandbits(8 * (n - 1)).to_bytes(n - 1, 'little') + bytes([rng.randint(1, 255)])
    if r < 0.55:
        # near a power of ten: 10^k (1 +- eps)
        k = rng.randint(-38, 38)
        b = encode_floor(Fraction(10) ** k, n)
        if b is not None:
            d = rng.choice((0, 1, -1, 2, -2, 3)) if rng.random() < 0.5 else rng.randint(-2000, 2000)
            x = step(b, d) if d else b
            if x is not None:
                return x if rng.random() < 0.7 else x[:-2] + bytes([x[-2] | 0x80]) + x[-1:]
    if r < 0.70:
        # whole numbers in and just beyond the exactly-shown range
        lim = 10 ** (7 if n == 4 else 16)
        t = rng.random()
        if t < 0.4:
            i = rng.randint(0, lim - 1)
        elif t < 0.7:
            i = rng.randint(0, 10 ** rng.randint(1, 7 if n == 4 else 16))
        else:
            i = lim + rng.randint(-1000, 1000)
        i = i if rng.random() < 0.7 else -i
        return encode_floor(i, n)
    if r < 0.85:
        # short decimals: d.ddd with few digits, scaled; the nearest-below representable and neighbours
        nd = rng.randint(1, 7 if n == 4 else 16)
        m = rng.randint(1, 10 ** nd - 1)
        k = rng.randint(-45, 38) if rng.random() < 0.5 else rng.randint(-nd - 2, 3)
        b = encode_floor(Fraction(m) * Fraction(10) ** k, n)
        if b is not None:
            d = rng.choice((0, 0, 1, 1, 2, -1))
            x = step(b, d) if d else b
            if x is not None:
                return x
    if r < 0.93:
        # sparse mantissas (few bits set) and dense ones (few bits clear)
        man = 0
        for _ in range(rng.randint(0, 3)):
            man |= 1 << rng.randrange(bits - 1)
        if rng.random() < 0.5:
            man ^= (1 << (bits - 1)) - 1
        man |= rng.getrandbits(1) << (bits - 1)
        return man.to_bytes(n - 1, 'little') + bytes([rng.randint(1, 255)])
    # range ends
    e = rng.choice((1, 2, 3, 4, 5, 250, 251, 252, 253, 254, 255))
    return rng.getrandbits(8 * (n - 1)).to_bytes(n - 1, 'little') + bytes([e])


# -------------------------------------------------------------------------------------------------
# decimal texts for the reading direction

PARSE_DIRECTED = [
    # integer range limits and just beyond
    '0', '1', '9', '10', '255', '32767', '32768', '32769', '65535', '65536', '99999', '100000',
    '0000000012', '00032767', '00032768', '007',
    # digit-count rule
    '1234567', '12345678', '9999999', '10000000', '1.234567', '1.2345678', '.1234567', '.12345678',
    '0.1234567', '0.12345678', '0.00001234567', '0.000012345678', '123456.7', '1234567.8',
    '16777216', '16777217', '33554433', '99999999', '123456789', '1234567890123456', '12345678901234567',
    '123456789012345678', '72057594037927936', '72057594037927937', '99999999999999999999',
    '12345678901234567890', '4.35', '0.1', '0.2', '0.3', '.5', '5.', '0.5', '2.5', '1.5',
    # sigils
    '1!', '1#', '1.5!', '1.5#', '123456789!', '0.1#', '0.1!', '3#', '32768!', '70000#', '.1#',
    '1.23456789012345678#', '98765432109876543210!', '1234567890123456789#',
    # exponent letter
    '1E0', '1D0', '1E1', '1D1', '1E5', '1D5', '1E-5', '1D-5', '1E+5', '1D+5', '1E10', '1D10', '1e5', '1d5',
    '1.5E3', '1.5D3', '12E-1', '123456E3', '1234567E-10', '12345678D-3', '1E38', '1D38', '1.7E38',
    '1.70141E38', '1.701411D38', '1E-38', '1D-38', '2.938736E-39', '2.9387358770557188D-39', '3E-39',
    '2.94E-39', '5E-39', '1E-39', '1E-40', '1D-45', '1E-45', '9.99E37', '9.99D37',
    '1E07', '1E+07', '1E-07', '1D007',
    # zero in many spellings (a zero mantissa is zero whatever the exponent)
    '0.0', '.0', '0.', '00', '0E0', '0E1', '0E5', '0E+27', '0E38', '0D1', '0D7', '0D40', '0.0E10', '.0D3', '0E-5',
    '0D-30', '0!', '0#', '0.000',
    # long mantissas: more digits than the type holds, scaled up and down
    '123456789012345678901E-10', '999999999999999999999D-20', '184467440737095516159', '1.8446744073709551615E19',
    '3.14159265358979323846', '2.71828182845904523536D0', '1.41421356237309504880D+10',
    '0.333333333333333333333', '66666666666666666666.6', '9007199254740993', '9007199254740993D5',
    '72057594037927935D-17', '576460752303423487D3', '5.76460752303423487D20',
    '16777217E0', '16777217!', '33554431!', '4294967295!', '123456789E-8', '987654321E12', '1.23456789E-30',
    '4503599627370497!', '99999999E29', '8589934591E-20',
    # signs and blanks
    '+1', '-1', '+32767', '-32768', '-32769', '+.5', '-.5', '-1E5', '+1D5', '-0', '-0.0', '+0',
    '1 2 3', '1 234 56 .5', ' 12', '12 ', '1 E 5', '1. 5 D - 3', '- 5', '3 2 7 6 7', '1 2 3 4 5 6 7 8',
    # trailing / leading zeros
    '1.0', '1.00', '1.0000000', '1.00000000', '1234567.0', '1234567.00', '10000000.0', '100000000',
    '1000000000000000000000', '00000000001.5', '0000000000000000000012345678', '1234567000', '0.10', '0.100000000',
    '000.000100', '1.50E2', '1.500000000E2', '1500000000E-7',
]


def literal(rng, blanks=True, sigils=True, signs=True):
    """One random decimal text within the grammar the model pins. Returns str."""
    nd = rng.randint(1, 20) if rng.random() < 0.8 else rng.choice((1, 6, 7, 8, 9, 15, 16, 17, 18, 20))
    first = rng.choice('123456789')
    t = rng.random()
    if t < 0.75:
        body = ''.join(rng.choice('0123456789') for _ in range(nd - 1))
    elif t < 0.85:
        body = '9' * (nd - 1)
    elif t < 0.95:
        body = '0' * max(0, nd - 2) + (rng.choice('0123456789') if nd > 1 else '')
    else:
        body = ('0' * rng.randint(0, nd - 1)).ljust(nd - 1, rng.choice('05'))
    digs = first + body
    if rng.random() < 0.02:
        digs = '0' * rng.randint(1, 4)      # zero mantissa
    lead0 = '0' * rng.choice((0, 0, 0, 0, 1, 2, 5)) if rng.random() < 0.3 else ''
    trail0 = '0' * rng.choice((1, 2, 3, 8)) if rng.random() < 0.12 else ''
    r = rng.random()
    if r < 0.25:
        # whole number
        mant = lead0 + digs + trail0
        pointpos = len(digs) + len(trail0)
    else:
        pt = rng.randint(0, len(digs))
        ip, fp = digs[:pt], digs[pt:]
        if r < 0.35:
            ip, fp = '', '0' * rng.randint(0, 12) + digs
        mant = lead0 + ip + '.' + fp + trail0
        if mant == '.':
            mant = '0.'
        pointpos = len(ip)
    # magnitude so far ~ 10^pointpos
    ex = None
    r = rng.random()
    letter = ''
    if r < 0.55:
        letter = rng.choice('EEDDed')
        # target decimal magnitude over the whole range (and a bit beyond both ends)
        t = rng.random()
        if t < 0.7:
            target = rng.randint(-42, 40)
        elif t < 0.85:
            target = rng.choice((-45, -41, -40, -39, -38, -37, 36, 37, 38, 39, 40))
        else:
            target = rng.randint(-3, 18)
        ex = target - pointpos
        if ex < -99 or ex > 99:
            ex = max(-99, min(99, ex))
        s = '%d' % abs(ex)
        if rng.random() < 0.2:
            s = s.rjust(2, '0')
        sg = '-' if ex < 0 else rng.choice(('', '+'))
        expo = letter + sg + s
    else:
        expo = ''
    sig = ''
    if sigils and not expo and rng.random() < 0.15:
        sig = rng.choice('!#')
    sign = ''
    if signs and rng.random() < 0.25:
        sign = rng.choice('+-')
    text = sign + mant + expo + sig
    if blanks and rng.random() < 0.12:
        chars = list(text)
        for _ in range(rng.randint(1, 3)):
            chars.insert(rng.randint(0, len(chars)), ' ')
        text = ''.join(chars)
    return text
