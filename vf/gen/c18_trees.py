"""
Seeded generators of expression trees for C18 (format: vf/models/c18_rexpr.py).

Leaves: integer / single / double / string literals in the spellings GW-BASIC accepts, and variables
of the four types drawn from a pool that the check assigns in the session beforehand.
"""
from fractions import Fraction

from ..models import c18_rexpr as rx

ARITH = ['^', '*', '/', '\\', 'MOD', '+', '-']


def _fr(x):
    return str(Fraction(x))


# ---- literal leaves ---------------------------------------------------------------------------

def int_literal(rng, v=None):
    if v is None:
        v = rng.choice([0, 1, 2, 3, 4, 5, 6, 7, 8, 9, 10, 12, 15, 16, 17, 31, 100, 255, 256, 1000, 32767])
    r = rng.random()
    if r < 0.7:
        text = '%d' % v
    elif r < 0.8:
        text = '%d%%' % v
    elif r < 0.9:
        text = '&H%X' % v
    elif r < 0.95:
        text = '&O%o' % v
    else:
        text = '&%o' % v
    return ['L', '%', text, _fr(v)]


def single_literal(rng, v=None, exact_int=False):
    if v is None:
        if exact_int:
            v = Fraction(rng.choice([0, 1, 2, 3, 4, 5, 7, 8, 10, 11, 20, 64, 100]))
        else:
            v = rng.choice([Fraction(0), Fraction(1), Fraction(2), Fraction(3), Fraction(1, 2), Fraction(1, 4),
                            Fraction(3, 2), Fraction(5, 2), Fraction(7), Fraction(10), Fraction(25, 4),
                            Fraction(100), Fraction(40000), Fraction(1, 10), Fraction(1, 3)])
    v = Fraction(v)
    if v.denominator == 1:
        n = int(v)
        r = rng.random()
        if n > 32767 and n < 10 ** 7 and r < 0.5:
            text = '%d' % n            # beyond integer range, up to 7 digits: single
        elif r < 0.5:
            text = '%d!' % n
        elif r < 0.8:
            text = '%d.0' % n if n < 10 ** 6 else '%d!' % n
        else:
            text = '%dE0' % n if n < 10 ** 7 else '%d!' % n
        return ['L', '!', text, _fr(v)]
    d = v.denominator
    if d & (d - 1) == 0 and d <= 64:
        # dyadic: finite decimal expansion, exact in binary
        s = ('%.6f' % float(v)).rstrip('0')
        if s.startswith('0.') and rng.random() < 0.5:
            s = s[1:]
        if rng.random() < 0.2:
            s += '!'
        return ['L', '!', s, _fr(v)]
    # inexact decimal: value unknown to the exact model
    s = ('%.4f' % float(v)).rstrip('0')
    return ['L', '!', s, None]


def double_literal(rng, v=None, exact_int=False):
    if v is None:
        if exact_int:
            v = Fraction(rng.choice([0, 1, 2, 3, 4, 5, 6, 9, 10, 12, 50, 128]))
        else:
            v = rng.choice([Fraction(0), Fraction(1), Fraction(2), Fraction(3), Fraction(1, 2), Fraction(1, 8),
                            Fraction(9, 4), Fraction(5), Fraction(12), Fraction(12345678), Fraction(1, 10)])
    v = Fraction(v)
    if v.denominator == 1:
        n = int(v)
        r = rng.random()
        if n >= 10 ** 7 and r < 0.5:
            text = '%d' % n            # 8 or more digits: double
        elif r < 0.7:
            text = '%d#' % n
        else:
            text = '%dD0' % n
        return ['L', '#', text, _fr(v)]
    d = v.denominator
    if d & (d - 1) == 0 and d <= 64:
        s = ('%.6f' % float(v)).rstrip('0') + '#'
        return ['L', '#', s, _fr(v)]
    return ['L', '#', ('%.6f' % float(v)).rstrip('0') + '#', None]


STRINGS = ['', 'a', 'b', 'A', 'ab', 'abc', 'abd', 'B', 'zz', ' ', 'a ', '0', '10', '9']


def string_literal(rng, v=None):
    if v is None:
        v = rng.choice(STRINGS)
    return ['L', '$', '"%s"' % v, v]


# ---- variable pool ------------------------------------------------------------------------------

HALVES = [Fraction(k, 2) for k in (1, -1, 3, -3, 5, -5, 7, -7, 15, -15, 255, -255, 65533, -65535, 65535, -65537)]


def make_pool(rng, exact=False):
    """-> {name: (type, python value for Session.set_variable, model value)}"""
    pool = {}
    ints = [-3, 7, 0, 1, -1, 12, 255, -128, 2, 5]
    if not exact:
        ints += [32767, -32768, 1000, -999]
    rng.shuffle(ints)
    for i in range(6):
        pool['I%d%%' % (i + 1)] = ('%', ints[i], _fr(ints[i]))
    sng = [Fraction(5, 2), Fraction(-4), Fraction(1, 2), Fraction(3), Fraction(-1, 4), Fraction(10), Fraction(100),
           Fraction(-7), Fraction(2), Fraction(0)]
    if exact:
        sng = [Fraction(x) for x in (-4, 3, 10, -7, 2, 0, 6, 9, -1, 20)]
    # exact halves and their single-precision neighbours, both signs (operands of the integer-converting operators)
    u = Fraction(1, 2 ** 22)
    sng += rng.sample(HALVES + [Fraction(5, 2) + u, Fraction(5, 2) - u, -Fraction(5, 2) - u, -Fraction(5, 2) + u,
                                Fraction(1, 2) - u / 4, -Fraction(1, 2) + u / 4, Fraction(7, 2) + u, -Fraction(7, 2) - u], 6)
    rng.shuffle(sng)
    for i in range(5):
        pool['S%d!' % (i + 1)] = ('!', float(sng[i]), _fr(sng[i]))
    dbl = [Fraction(3, 2), Fraction(-2), Fraction(1, 8), Fraction(5), Fraction(3), Fraction(-7), Fraction(1000001, 2),
           Fraction(0)]
    if exact:
        dbl = [Fraction(x) for x in (-2, 5, 3, -7, 0, 11, 4, 1)]
    v = Fraction(1, 2 ** 40)
    dbl += rng.sample(HALVES + [Fraction(5, 2) + v, Fraction(5, 2) - v, -Fraction(5, 2) - v, -Fraction(5, 2) + v,
                                Fraction(3, 2) - v, -Fraction(3, 2) + v], 5)
    rng.shuffle(dbl)
    for i in range(5):
        pool['D%d#' % (i + 1)] = ('#', float(dbl[i]), _fr(dbl[i]))
    strs = list(STRINGS)
    rng.shuffle(strs)
    for i in range(4):
        pool['T%d$' % (i + 1)] = ('$', strs[i].encode('latin-1'), strs[i])
    # untyped name: default single
    pool['U1'] = ('!', float(sng[5]), _fr(sng[5]))
    return pool


def var_leaf(rng, pool, ty):
    names = [n for n, v in pool.items() if v[0] == ty]
    n = rng.choice(sorted(names))
    return ['V', ty, n, pool[n][2]]


# ---- trees ----------------------------------------------------------------------------------------

class TreeGen(object):

    def __init__(self, rng, pool, exact=False, p_mismatch=0.01, max_depth=6):
        self.rng = rng
        self.pool = pool
        self.exact = exact
        self.p_mismatch = p_mismatch
        self.max_depth = max_depth

    def num_leaf(self):
        rng = self.rng
        r = rng.random()
        ty = '%' if r < 0.45 else ('!' if r < 0.75 else '#')
        if rng.random() < 0.4:
            return var_leaf(rng, self.pool, ty)
        if ty == '%':
            if self.exact:
                return int_literal(rng, rng.choice([0, 1, 2, 3, 4, 5, 6, 7, 8, 9, 10, 12, 16, 100]))
            return int_literal(rng)
        if rng.random() < 0.2:
            # exact half (a negative one arises through a unary minus node or a variable)
            h = Fraction(rng.choice([1, 3, 5, 7, 9, 15, 201, 65533]), 2)
            return single_literal(rng, h) if ty != '#' else double_literal(rng, h)
        if ty == '!':
            return single_literal(rng, exact_int=self.exact)
        return double_literal(rng, exact_int=self.exact)

    def str_leaf(self):
        if self.rng.random() < 0.4:
            return var_leaf(self.rng, self.pool, '$')
        return string_literal(self.rng)

    def num(self, d):
        rng = self.rng
        if d <= 0 or rng.random() < 0.12:
            return self.num_leaf()
        r = rng.random()
        if r < 0.10:
            return ['U', '-', self.num(d - 1)]
        if r < 0.16:
            return ['U', 'NOT', self.num(d - 1)]
        if r < 0.18:
            return ['U', '+', self.num(d - 1)]
        r = rng.random()
        if r < 0.50:
            if self.exact:
                op = rng.choice(['+', '-', '*', '+', '-', '*', '\\', 'MOD', '/', '^'])
            else:
                op = rng.choice(ARITH)
        elif r < 0.72:
            op = rng.choice(rx.RELATIONAL)
        else:
            op = rng.choice(rx.LOGICAL)
        d1, d2 = d - 1, rng.randint(0, d - 1)
        if rng.random() < 0.5:
            d1, d2 = d2, d1
        if op in rx.RELATIONAL and rng.random() < 0.2:
            l, r_ = self.str(d1), self.str(d2)
        else:
            l, r_ = self.num(d1), self.num(d2)
        if rng.random() < self.p_mismatch:
            if rng.random() < 0.5:
                l = self.str(min(d1, 1))
            else:
                r_ = self.str(min(d2, 1))
        return ['B', op, l, r_]

    def str(self, d):
        rng = self.rng
        if d <= 0 or rng.random() < 0.45:
            return self.str_leaf()
        if rng.random() < 0.03:
            return ['U', rng.choice(['-', '+']), self.str(d - 1)]
        return ['B', '+', self.str(d - 1), self.str(rng.randint(0, d - 1))]

    def tree(self, depth=None):
        d = depth if depth is not None else self.rng.randint(1, self.max_depth)
        if self.rng.random() < 0.08:
            return self.str(d)
        return self.num(d)


def mismatch_tree(gen):
    """An exact-safe numeric tree in which one numeric leaf is replaced by a string: only error 13 can arise."""
    rng = gen.rng
    for _ in range(20):
        t = gen.num(rng.randint(1, 4))
        try:
            rx.eval_exact(t)
        except (rx.Unsafe, rx.TypeMismatch):
            continue
        leaves = [s for s in rx.subtrees(t) if s[0] in ('L', 'V')]
        if not leaves:
            continue
        victim = rng.choice(leaves)
        new = gen.str_leaf()
        victim[:] = new
        if rx.kind(t) == 'mismatch':
            return t
    return None


# ---- directed tables --------------------------------------------------------------------------------

def L(v, ty='%'):
    """Plain leaf with canonical spelling."""
    if ty == '$':
        return ['L', '$', '"%s"' % v, v]
    f = Fraction(v)
    if ty == '%':
        return ['L', '%', '%d' % int(f), _fr(f)]
    s = ('%d' % int(f)) if f.denominator == 1 else ('%.6f' % float(f)).rstrip('0')
    return ['L', ty, s + ty, _fr(f)]


# leaf triples chosen so that the two groupings of "a op1 b op2 c" differ for most pairs
TRIPLES = [
    (7, 3, 2), (2, 3, 2), (9, 4, 3), (1, 0, 5), (5, 5, 1), (8, 2, 4), (3, 7, 12), (6, 1, 3),
]
TYPE_ROWS = ['%%%', '!!!', '###', '%!#', '#%!']


def pair_table():
    """All binary x binary pairs x 2 shapes x leaf triples x type rows -> (name, tree)."""
    for o1 in rx.BINARY:
        for o2 in rx.BINARY:
            for ti, (a, b, c) in enumerate(TRIPLES):
                tys = TYPE_ROWS[ti % len(TYPE_ROWS)]
                la, lb, lc = L(a, tys[0]), L(b, tys[1]), L(c, tys[2])
                yield ('pair', o1, o2, 'left', ti), ['B', o2, ['B', o1, la, lb], lc]
                yield ('pair', o1, o2, 'right', ti), ['B', o1, L(a, tys[0]), ['B', o2, L(b, tys[1]), L(c, tys[2])]]


def unary_table():
    """Prefix operators combined with every binary operator and with each other."""
    for u in rx.UNARY:
        for o in rx.BINARY:
            for ti, (a, b, c) in enumerate(TRIPLES[:5]):
                tys = TYPE_ROWS[ti % len(TYPE_ROWS)]
                yield ('un-left', u, o, ti), ['B', o, ['U', u, L(a, tys[0])], L(b, tys[1])]
                yield ('un-over', u, o, ti), ['U', u, ['B', o, L(a, tys[0]), L(b, tys[1])]]
                yield ('un-right', u, o, ti), ['B', o, L(a, tys[0]), ['U', u, L(b, tys[1])]]
                # prefix operator in the middle of a chain: which following operators it captures
                for o2 in rx.BINARY:
                    if ti < 2:
                        yield ('un-mid-l', u, o, o2, ti), ['B', o2, ['B', o, L(a, tys[0]), ['U', u, L(b, tys[1])]], L(c, tys[2])]
                        yield ('un-mid-r', u, o, o2, ti), ['B', o, L(a, tys[0]), ['U', u, ['B', o2, L(b, tys[1]), L(c, tys[2])]]]
        for u2 in rx.UNARY:
            for ti, (a, b, c) in enumerate(TRIPLES[:4]):
                yield ('un-un', u, u2, ti), ['U', u, ['U', u2, L(a, TYPE_ROWS[ti % 5][0])]]
                yield ('un-un-bin', u, u2, ti), ['B', '-', L(c), ['U', u, ['U', u2, L(a)]]]


INT_OPS = ['\\', 'MOD', 'AND', 'OR', 'XOR', 'EQV', 'IMP']


def halves_table():
    """
    Operands of the integer-converting operators at exact halves and their neighbours, both signs, as literal (negative:
    unary minus node), as computed sub-expression and as variable (names must be in the pool made by halves_pool()).
    """
    mags = [Fraction(1, 2), Fraction(3, 2), Fraction(5, 2), Fraction(7, 2), Fraction(15, 2), Fraction(65533, 2), Fraction(65535, 2)]
    others = [1, 4, 3]
    for ty in '!#':
        for m in mags:
            for neg in (False, True):
                lit = L(m, ty)
                forms = [('literal', ['U', '-', lit] if neg else lit),
                         ('computed', ['B', '-', L(0, '%'), L(m, ty)] if neg else ['B', '+', L(0, '%'), L(m, ty)]),
                         ('quotient', ['B', '/', L(-m.numerator if neg else m.numerator, '%' if m.numerator < 32768 else '!'), L(2, '%')])]
                for fname, x in forms:
                    for oi, o in enumerate(INT_OPS):
                        k = L(others[oi % 3])
                        yield ('half', o, fname, ty, str(-m if neg else m), 'left'), ['B', o, x, k]
                        yield ('half', o, fname, ty, str(-m if neg else m), 'right'), ['B', o, L(17), x]
                    yield ('half', 'NOT', fname, ty, str(-m if neg else m)), ['U', 'NOT', x]
    for name, (ty, _py, val) in sorted(halves_pool().items()):
        x = ['V', ty, name, val]
        for oi, o in enumerate(INT_OPS):
            yield ('half-var', o, name, 'left'), ['B', o, x, L(others[oi % 3])]
            yield ('half-var', o, name, 'right'), ['B', o, L(17), x]
        yield ('half-var', 'NOT', name), ['U', 'NOT', x]


def halves_pool():
    pool = {}
    u = Fraction(1, 2 ** 22)
    v = Fraction(1, 2 ** 40)
    vals = []
    for m in (Fraction(1, 2), Fraction(5, 2), Fraction(7, 2), Fraction(65533, 2)):
        for sgn in (1, -1):
            vals.append(sgn * m)
    for i, x in enumerate(vals + [Fraction(5, 2) + u, Fraction(5, 2) - u, -Fraction(5, 2) - u, -Fraction(5, 2) + u,
                                  -Fraction(1, 2) + u / 4, -Fraction(1, 2) - u / 4]):
        pool['H%d!' % i] = ('!', float(x), _fr(x))
    for i, x in enumerate(vals + [Fraction(5, 2) + v, Fraction(5, 2) - v, -Fraction(5, 2) - v, -Fraction(5, 2) + v]):
        pool['G%d#' % i] = ('#', float(x), _fr(x))
    return pool


def typing_table():
    """Every operator over every pair of leaf types (depth 1): pins each operator's result type."""
    vals = {'%': 6, '!': 2.5, '#': 1.5, '$': 'ab'}
    vals2 = {'%': 3, '!': 2, '#': 4, '$': 'b'}
    for o in rx.BINARY:
        for ta in '%!#$':
            for tb in '%!#$':
                yield ('type2', o, ta, tb), ['B', o, L(vals[ta], ta), L(vals2[tb], tb)]
    for u in rx.UNARY:
        for ta in '%!#$':
            yield ('type1', u, ta), ['U', u, L(vals[ta], ta)]
