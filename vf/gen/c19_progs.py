"""
Seeded program generators for C19 / C21 / C22 and the AST -> BASIC printer.

All generators take a random.Random and return a program in the "lines form" that
vf.models.c19_rctrl.Machine interprets (JSON-able, so a witness is replayable from the
program itself as well as from the seed):

    prog = gen_c19(rng) | gen_c21(rng) | gen_c22(rng)
    lines, direct = to_basic(prog)     # [bytes] program lines, bytes|None direct-mode line
    prog['features']                   # what the generator put in (for counters / case keys)

gen_c19 builds a TREE first (blocks of statements; FOR and WHILE nodes own their bodies, so the
FOR/NEXT pairing is known by construction and travels as a loop id), then lays the tree out into
numbered lines (random packing into multi-statement lines; a labelled statement starts a line; an IF
ends its line) and resolves symbolic labels ('@7') into line numbers.

Rules that keep the programs inside what the property statements pin:
  * a GOTO target is a statement of the same block or of an enclosing block (never into a loop body),
    inside the same routine; backward jumps are guarded by a counter that only grows;
  * a loop counter is printed only inside its own body, or after the loop when the loop is known not
    to be empty (the counter after an empty loop is not pinned);
  * zero STEP only with start = end; numbers are integers or short dyadic fractions (exact in binary,
    short in PRINT); ON n with n < 0 or n > 255 is flagged (the oracle accepts error or fall-through);
  * at most one structural mismatch per program, placed at nesting level 0 of a routine.
"""
from fractions import Fraction

# ---------------------------------------------------------------------------------------------------
# printer


def _num(v, top):
    if isinstance(v, float):
        f = Fraction(v)
        a = abs(f)
        ip = a.numerator // a.denominator
        fp = a - ip
        s = ''
        while fp:
            fp *= 10
            d = fp.numerator // fp.denominator
            s += '%d' % d
            fp -= d
        t = ('%d' % ip if (ip or not s) else '') + ('.' + s if s else '')
        if f < 0:
            t = '-' + t
    else:
        t = '%d' % v
    if t.startswith('-') and not top:
        return '(' + t + ')'
    return t


def pexpr(e, top=True):
    if isinstance(e, (int, float)):
        return _num(e, top)
    if isinstance(e, str):
        return e
    op = e[0]
    if op == 'err':
        return 'ERR'
    if op == 'erl':
        return 'ERL'
    if op == 'arr':
        return '%s(%s)' % (e[1], pexpr(e[2]))
    t = '%s%s%s' % (pexpr(e[1], False), op, pexpr(e[2], False))
    return t if top else '(' + t + ')'


def _ptarget(t):
    return pexpr(t) if isinstance(t, list) else t


def pstmt(st):
    k = st[0]
    if k == 'print':
        if len(st) > 3 and st[3] == 'open':
            # the string literal is closed by the end of the line (last statement of a line only)
            assert not st[2]
            return 'PRINT "%s' % st[1]
        parts = ['"%s"' % st[1]]
        for item in st[2]:
            if isinstance(item, list) and item[0] == 's':
                parts.append('"[";%s;"]"' % _ptarget(item[1]))
            else:
                parts.append(pexpr(item))
        return 'PRINT ' + ';'.join(parts)
    if k == 'let':
        return '%s=%s' % (_ptarget(st[1]), pexpr(st[2]))
    if k == 'lets':
        if len(st) > 3 and st[3] == 'open':
            return '%s="%s' % (st[1], st[2])
        return '%s="%s"' % (st[1], st[2])
    if k == 'for':
        t = 'FOR %s=%s TO %s' % (st[1], pexpr(st[2]), pexpr(st[3]))
        if st[4] is not None:
            t += ' STEP %s' % pexpr(st[4])
        return t
    if k == 'next':
        names = [n for n in st[2] if n]
        return 'NEXT' + (' ' + ','.join(names) if names else '')
    if k == 'while':
        return 'WHILE %s' % pexpr(st[1])
    if k == 'wend':
        return 'WEND'
    if k == 'goto':
        return 'GOTO %d' % st[1]
    if k == 'gosub':
        return 'GOSUB %d' % st[1]
    if k == 'return':
        return 'RETURN'
    if k == 'if':
        style = st[4] if len(st) > 4 else ''
        if style == 'goto':
            t = 'IF %s GOTO %d' % (pexpr(st[1]), st[2][0][1])
        elif style == 'line':
            t = 'IF %s THEN %d' % (pexpr(st[1]), st[2][0][1])
        else:
            t = 'IF %s THEN %s' % (pexpr(st[1]), ':'.join(pstmt(s) for s in st[2]))
        if st[3] is not None:
            if style == 'line' and len(st[3]) == 1 and st[3][0][0] == 'goto':
                t += ' ELSE %d' % st[3][0][1]
            else:
                t += ' ELSE ' + ':'.join(pstmt(s) for s in st[3])
        return t
    if k == 'on':
        return 'ON %s %s %s' % (pexpr(st[1]), st[2].upper(), ','.join('%d' % n for n in st[3]))
    if k == 'end':
        return 'END'
    if k == 'stop':
        return 'STOP'
    if k == 'error':
        return 'ERROR %s' % pexpr(st[1])
    if k == 'onerror':
        return 'ON ERROR GOTO %d' % st[1]
    if k == 'resume':
        w = st[1]
        if w is None:
            return 'RESUME'
        if w == 'next':
            return 'RESUME NEXT'
        return 'RESUME %d' % w
    if k == 'read':
        return 'READ ' + ','.join(_ptarget(t) for t in st[1])
    if k == 'data':
        return 'DATA ' + ','.join(item[0] for item in st[1])
    if k == 'restore':
        return 'RESTORE' if st[1] is None else 'RESTORE %d' % st[1]
    if k == 'dim':
        return 'DIM %s(%d)' % (st[1], st[2])
    if k == 'fault' or k == 'fncall':
        return st[1]
    if k == 'nop':
        return st[1]
    if k == 'rem':
        # last statement of a line: the rest of the line is a remark
        return ("' " if len(st) > 2 and st[2] == "'" else 'REM ') + st[1]
    if k == 'deffn':
        return 'DEF %s(X)=%s' % (st[1], st[2])
    raise ValueError(k)


def to_basic(prog):
    lines = []
    # layout options: blanks / a tab between the line number and the first statement, blanks around ':'
    indents = prog.get('indents')
    sep = prog.get('sep', ':')
    for k, (num, stmts) in enumerate(prog['lines']):
        text = '%d%s%s' % (num, indents[k] if indents else ' ', sep.join(pstmt(s) for s in stmts))
        assert len(text) < 253, text
        lines.append(text.encode('latin-1'))
    direct = None
    if prog.get('direct'):
        direct = ':'.join(pstmt(s) for s in prog['direct']).encode('latin-1')
    return lines, direct


def after_texts(prog):
    """The direct-mode lines to be typed after the run has stopped."""
    return [':'.join(pstmt(s) for s in stmts).encode('latin-1') for stmts in prog.get('after') or []]


# ---------------------------------------------------------------------------------------------------
# layout: flat item list with labels -> numbered lines

def layout(rng, items, direct=None, dense=None):
    """
    items: list of statements and ('label', id) markers; references are strings '@id' anywhere a
    line number is expected. Returns the lines form.
    """
    if dense is None:
        dense = rng.choice([0.0, 0.3, 0.5, 0.7, 0.9])
    groups = []        # [[labels], [stmts]]
    cur = None
    pending_labels = []
    for it in items:
        if isinstance(it, tuple) and it[0] == 'label':
            pending_labels.append(it[1])
            cur = None
            continue
        new_line = cur is None or pending_labels
        if not new_line:
            last = cur[1][-1]
            if last[0] == 'if' or last[0] == 'data' and rng.random() < 0.5:
                new_line = True
            elif rng.random() >= dense:
                new_line = True
            elif sum(len(pstmt_safe(s)) + 1 for s in cur[1]) + len(pstmt_safe(it)) > 150:
                new_line = True
        if new_line:
            cur = [pending_labels, [it]]
            pending_labels = []
            groups.append(cur)
        else:
            cur[1].append(it)
    if pending_labels:
        groups.append([pending_labels, [['print', 'zz', []]]])
    # number the lines
    style = rng.choice(['tens', 'tens', 'random', 'ones'])
    num = rng.choice([1, 5, 10, 100]) if style != 'tens' else 10
    label_line = {}
    numbered = []
    for labels, stmts in groups:
        for lab in labels:
            label_line[lab] = num
        numbered.append([num, stmts])
        if style == 'tens':
            num += 10
        elif style == 'ones':
            num += 1
        else:
            num += rng.randint(1, 40)
    assert num < 64000

    def resolve(x):
        if isinstance(x, str) and x.startswith('@'):
            return label_line[int(x[1:])]
        if isinstance(x, list):
            return [resolve(y) for y in x]
        return x
    lines = [[n, resolve(stmts)] for n, stmts in numbered]
    for n, stmts in lines:
        assert len(':'.join(pstmt(st) for st in stmts)) < 210
    prog = {'lines': lines, 'direct': resolve(direct) if direct else None}
    return prog


def pstmt_safe(st):
    """Length estimate of a statement that may still contain symbolic labels."""
    def r(x):
        if isinstance(x, str) and x.startswith('@'):
            return 60000
        if isinstance(x, list):
            return [r(y) for y in x]
        return x
    return pstmt(r(st))


# ---------------------------------------------------------------------------------------------------
# C19: structured control flow

# Statements without visible effect (scratch variables X9, X9$, X9%, X9#): every function with a two-byte token
# (FF / FE / FD prefix), numeric constants whose stored bytes look like tokens (139 = IF, 143 = REM, 161 = ELSE,
# 58 = ':', 34 = '"', 0 = end of line), string literals holding ':' / keywords / quotes. They are put where code is
# SKIPPED (false IF branches, zero-trip FOR, false WHILE, lines the DATA scan crosses): a scanner must step over them.
SAFE_NOPS = [
    'X9=EXP(1)', 'X9=FRE(0)', 'X9$=HEX$(255)', 'X9%=CVI("ab")', 'X9=CVS("abcd")', 'X9#=CVD("abcdefgh")', 'X9$=MKI$(5)',
    'X9$=MKS$(1)', 'X9$=MKD$(1)', 'X9$=OCT$(8)', 'X9=LOG(2)', 'X9=SIN(1)+COS(1)+TAN(1)+ATN(1)',
    'X9=SGN(-2)+INT(2.5)+ABS(-1)+SQR(4)+FIX(1.5)', 'X9=CINT(1.2)+CSNG(1)+CDBL(2)',
    'X9$=LEFT$("ab",1)+RIGHT$("ab",1)+MID$("abc",2,1)', 'X9=LEN("a")+ASC("a")+VAL("1")', 'X9$=STR$(1)+CHR$(65)+SPACE$(2)',
    'X9=POS(0)+LPOS(0)', 'X9=PEEK(0)', 'X9=INP(0)', 'X9=PEN(0)', 'X9=STICK(0)', 'X9=STRIG(0)', 'X9$=DATE$', 'X9$=TIME$',
    'X9=TIMER', 'X9$=ENVIRON$("PATH")', 'LSET X9$="a"', 'RSET X9$="b"', 'X9=CSRLIN', 'X9$=INKEY$', 'X9=VARPTR(X9)',
    'X9$=STRING$(2,65)', 'X9=INSTR("ab","b")', 'X9=SCREEN(1,1)', 'X9=PLAY(0)', 'X9=RND',
    'X9%=139', 'X9%=143', 'X9%=161', 'X9%=58', 'X9%=34', 'X9%=0', 'X9%=14987', 'X9%=8763', 'X9%=-29894', 'X9=41216', 'X9=35723',
    'X9=&H8B', 'X9=&H3A8F', 'X9=&O213', 'X9=1.5E+20', 'X9#=139.143161#',
    'X9$="a:b ELSE c"', 'X9$=":"+CHR$(34)+"THEN"', 'X9$="IF:NEXT:WEND:DATA 1,2"',
]
# only for regions that are never executed
DEAD_NOPS = [
    'PAINT (1,1)', 'CIRCLE (5,5),3', 'DRAW "U1"', 'PLAY "C"', 'KILL "X9.TMP"', 'FILES', 'NAME "A" AS "B"', 'FIELD #1,2 AS X9$',
    'PUT #1', 'GET #1', 'CHAIN "X9"', 'COMMON X9', 'VIEW (1,1)-(2,2)', 'WINDOW (0,0)-(1,1)', 'PALETTE 1,2', 'PCOPY 0,1',
    'LOCK #1', 'UNLOCK #1', 'IOCTL #1,"a"', 'CHDIR "X"', 'MKDIR "X"', 'RMDIR "X"', 'ENVIRON "A=B"', 'RESET', 'LCOPY',
    'DATE$="01-01-2000"', 'TIME$="00:00"', 'X9=USR(0)', 'X9$=INPUT$(0)', 'X9=ERDEV', 'X9$=ERDEV$', 'X9=EXTERR(0)', 'X9=POINT(0)',
    'X9=PMAP(1,0)', 'ERROR 139', 'X9=EOF(1)+LOC(1)+LOF(1)', 'TIMER ON', 'COM(1) ON', 'X9$=IOCTL$(1)', 'SHELL "x"', 'GOTO 143',
]

INT_LETTERS = 'IJLMNPR'
SNG_LETTERS = 'XYZUVST'


def counter_names(routine, single):
    suffix = '%d' % routine if routine else ''
    if single:
        return [c + suffix + ('!' if i % 2 else '') for i, c in enumerate(SNG_LETTERS)]
    return [c + suffix + '%' for c in INT_LETTERS]

ON_PINNED = 'pinned'


class _C19(object):

    def __init__(self, rng, size):
        self.rng = rng
        self.size = size
        self.nlabel = 0
        self.nloop = 0
        self.ntag = 0
        self.nguard = 0
        self.nwhile = 0
        self.est = 0.0
        self.features = {}
        self.mismatch = None
        self.oob = False

    def feat(self, name):
        self.features[name] = self.features.get(name, 0) + 1

    def label(self):
        self.nlabel += 1
        return self.nlabel

    def tag(self):
        self.ntag += 1
        return '%s%d' % ('abcdefghkmnpqrtuvw'[self.ntag % 18], self.ntag)

    # -- pieces -------------------------------------------------------------------------------------
    def trace(self, out, ctx, extra=()):
        live = list(ctx['live'])
        self.rng.shuffle(live)
        items = live[:3] + list(extra)
        if ctx.get('glob') and self.rng.random() < 0.5:
            items.append(self.rng.choice(ctx['glob']))
        out.append(['print', self.tag(), items[:5]])
        self.est += ctx['mult']

    def cond(self, ctx):
        r = self.rng
        pool = list(ctx['live_int']) + list(ctx.get('glob', []))
        if pool and r.random() < 0.85:
            v = r.choice(pool)
            rng_hint = ctx['ranges'].get(v, (0, 3))
            lit = r.randint(min(rng_hint) - 1, max(rng_hint) + 1)
            op = r.choice(['=', '<>', '<', '>', '<=', '>='])
            if len(ctx['live_int']) >= 2 and r.random() < 0.25:
                a, b = r.sample(ctx['live_int'], 2)
                return [op, a, b]
            if r.random() < 0.15:
                return [op, ['+', v, r.randint(-2, 2)], lit]
            return [op, v, lit]
        return [r.choice(['=', '<>']), r.randint(0, 1), r.randint(0, 1)]

    def simple(self, ctx, allow_jump=True):
        """A short list of simple statements for an IF branch; a jump, if any, comes last."""
        r = self.rng
        out = []
        self.trace(out, ctx)
        n = r.choice([0, 0, 1, 1, 2])
        for _ in range(n):
            k = r.random()
            if k < 0.25:
                out.append(['nop', r.choice(SAFE_NOPS)])
                self.feat('nop_in_if_branch')
                continue
            k = r.random()
            if k < 0.3 and ctx.get('glob'):
                g = r.choice(ctx['glob'])
                out.append(['let', g, ['+', g, 1]])
            elif k < 0.55 and ctx['subs'] and ctx['mult'] * self.sub_cost(ctx) < 150:
                s = r.choice(ctx['subs'])
                out.append(['gosub', '@%d' % s[0]])
                self.est += ctx['mult'] * s[1]
                self.feat('gosub_in_if')
            else:
                self.trace(out, ctx)
        if allow_jump and r.random() < 0.5:
            j = self.jump(ctx)
            if j is not None:
                out.append(j)
        return out

    def sub_cost(self, ctx):
        return max([s[1] for s in ctx['subs']] or [0])

    def jump(self, ctx):
        """A jump out of / across the current position: exit label, forward label, RETURN, END."""
        r = self.rng
        k = r.random()
        if ctx['exits'] and k < 0.55:
            self.feat('early_exit_goto')
            return ['goto', '@%d' % r.choice(ctx['exits'])]
        if k < 0.8:
            lab = self.label()
            ctx['pending'].append([r.randint(1, 3), lab])
            self.feat('forward_goto')
            return ['goto', '@%d' % lab]
        if ctx['in_sub'] and k < 0.93:
            self.feat('early_return')
            return ['return']
        if k > 0.985:
            self.feat('early_end')
            return [r.choice(['end', 'end', 'stop'])]
        return None

    # -- statements ---------------------------------------------------------------------------------
    def gen_if(self, out, ctx):
        r = self.rng
        c = self.cond(ctx)
        style = ''
        if r.random() < 0.2:
            # IF c THEN line [ELSE line] / IF c GOTO line
            t = self.jump_label(ctx)
            if t is not None:
                e = None
                style = r.choice(['line', 'goto'])
                if style == 'line' and r.random() < 0.5:
                    t2 = self.jump_label(ctx)
                    if t2 is not None:
                        e = [['goto', t2]]
                out.append(['if', c, [['goto', t]], e, style])
                self.feat('if_line_form')
                self.est += ctx['mult']
                return
        pre = self.pre_if = []
        then = self.branch_loop(ctx, pre) if r.random() < 0.18 else self.simple(ctx)
        els = None
        if r.random() < 0.5:
            els = self.branch_loop(ctx, pre) if r.random() < 0.18 else self.simple(ctx)
        # nested IF as the last statement of a branch, in every form (THEN stmts / THEN line / GOTO line),
        # with and without ELSE at every level. An IF that is followed on the line by the ELSE of an
        # enclosing IF must have an ELSE of its own (an ELSE pairs with the nearest unmatched IF).
        if r.random() < 0.3 and then[-1][0] == 'print':
            then.append(self.nested_if(ctx, 1, need_else=els is not None))
        if els is not None and r.random() < 0.2 and els[-1][0] == 'print':
            els.append(self.nested_if(ctx, 1, need_else=False))
        out.extend(pre)
        out.append(['if', c, then, els, ''])
        self.feat('if')
        self.est += 2 * ctx['mult']

    def branch_loop(self, ctx, pre):
        """A whole loop inside an IF branch, its FOR / WHILE standing right after THEN or ELSE."""
        r = self.rng
        self.nloop += 1
        lid = self.nloop
        budget = max(1, int(30 / max(ctx['mult'], 1)))
        trips = min(r.choice([0, 1, 2, 2, 3]), budget)
        inner = dict(ctx)
        inner['mult'] = ctx['mult'] * max(1, trips)
        body = []
        if r.random() < 0.6:
            names = [v for v in counter_names(ctx['routine'], False) if v not in ctx['used']]
            if not names:
                return self.simple(ctx)
            var = names[-1]         # (the deepest name: the enclosing loops of this routine use the first ones)
            step = r.choice([1, 1, 2, -1])
            start = r.randint(-2, 4)
            stop = start + step * (trips - 1) if trips else start - step * r.randint(1, 2)
            inner['live'] = ctx['live'] + [var]
            inner['live_int'] = ctx['live_int'] + [var]
            self.trace(body, inner)
            if r.random() < 0.3:
                self.trace(body, inner)
            self.feat('for_after_then_or_else')
            if ctx['live_int']:
                self.feat('for_after_then_or_else_inside_for')
            stmts = [['for', var, start, stop, None if step == 1 and r.random() < 0.5 else step, lid]] + body + \
                    [['next', [lid], [var if r.random() < 0.5 else None]]]
        else:
            self.nwhile += 1
            w = 'W%d%%' % self.nwhile
            start = r.randint(-1, 2)
            pre.append(['let', w, start])
            inner['live'] = ctx['live'] + [w]
            inner['live_int'] = ctx['live_int'] + [w]
            body.append(['let', w, ['+', w, 1]])
            self.trace(body, inner)
            self.feat('while_after_then_or_else')
            stmts = [['while', ['<', w, start + trips], lid]] + body + [['wend', lid]]
        self.est += 3 * inner['mult']
        if r.random() < 0.5:
            self.trace(stmts, ctx)
        return stmts

    def nested_if(self, ctx, level, need_else):
        r = self.rng
        self.feat('nested_if')
        self.features['max_if_nesting'] = max(self.features.get('max_if_nesting', 0), level + 1)
        c = self.cond(ctx)
        has_else = need_else or r.random() < 0.5
        style = r.choice(['', '', 'line', 'goto'])
        if style:
            t = self.jump_label(ctx)
            then = [['goto', t]]
            self.feat('nested_if_' + style + '_form')
        else:
            then = self.simple(ctx, allow_jump=r.random() < 0.5)
            if r.random() < 0.12:
                then = self.branch_loop(ctx, self.pre_if)
            if level < 3 and r.random() < 0.3 and then[-1][0] == 'print':
                then.append(self.nested_if(ctx, level + 1, need_else=has_else))
        els = None
        if has_else:
            if style == 'line' and r.random() < 0.4:
                els = [['goto', self.jump_label(ctx)]]          # ELSE line
            else:
                els = self.simple(ctx, allow_jump=r.random() < 0.5)
                if level < 3 and r.random() < 0.3 and els[-1][0] == 'print':
                    els.append(self.nested_if(ctx, level + 1, need_else=need_else))
        return ['if', c, then, els, style]

    def jump_label(self, ctx):
        r = self.rng
        if ctx['exits'] and r.random() < 0.5:
            self.feat('early_exit_goto')
            return '@%d' % r.choice(ctx['exits'])
        lab = self.label()
        ctx['pending'].append([r.randint(1, 3), lab])
        self.feat('forward_goto')
        return '@%d' % lab

    def gen_back_jump(self, out, ctx):
        """G%=G%+1: IF G%<k THEN GOTO <label placed earlier in this or an enclosing block>."""
        r = self.rng
        labs = ctx['back']
        if not labs:
            return
        self.nguard += 1
        g = 'G%d%%' % self.nguard
        lim = r.randint(1, 3)
        out.append(['let', g, ['+', g, 1]])
        out.append(['if', ['<=', g, lim], [['goto', '@%d' % r.choice(labs)]], None, r.choice(['', 'line', 'goto'])])
        self.feat('backward_goto')
        self.est += 3 * ctx['mult'] * lim

    def gen_on(self, out, ctx):
        r = self.rng
        gosub = bool(ctx['subs']) and r.random() < 0.5 and ctx['mult'] * self.sub_cost(ctx) < 150
        k = r.randint(1, 4)
        if gosub:
            targets = ['@%d' % r.choice(ctx['subs'])[0] for _ in range(k)]
            self.est += ctx['mult'] * self.sub_cost(ctx)
        else:
            targets = [self.jump_label(ctx) for _ in range(k)]
        sel = r.random()
        if sel < 0.04:
            n = r.choice([256, -1, -32768, 32767, 300])
            out.append(['let', 'K%', n])
            e = 'K%'
            self.feat('on_out_of_range')
        elif sel < 0.2 and ctx['live_int']:
            e = r.choice(ctx['live_int'])      # (a counter may be negative: the oracle then accepts both readings)
            self.feat('on_selector_is_counter')
        else:
            n = r.choice([0, k + 1, 255, r.randint(1, k), r.randint(1, k), r.randint(1, k), r.randint(0, k + 1)])
            if r.random() < 0.5:
                out.append(['let', 'K%', n])
                e = 'K%'
            else:
                e = n
        out.append(['on', e, 'gosub' if gosub else 'goto', targets])
        self.feat('on_gosub' if gosub else 'on_goto')
        self.est += 2 * ctx['mult']

    def gen_for(self, out, ctx, depth, tail=False):
        """tail=True: last statement of an enclosing FOR body; the NEXT is left to the caller (NEXT J%,I%)."""
        r = self.rng
        self.nloop += 1
        lid = self.nloop
        used = ctx['used']
        single = r.random() < 0.2
        names = [v for v in counter_names(ctx['routine'], single) if v not in used]
        if not names:
            return None
        var = names[0]
        budget = max(1, int(40 / max(ctx['mult'], 1)))
        trips = r.choice([0, 1, 1, 2, 2, 3, 3, 4, 5])
        trips = min(trips, budget)
        kind = r.random()
        nonempty_known = True
        zero_step = False
        limit_loop = False
        if single:
            step = r.choice([0.25, 0.5, 1, 1.5, 2, -0.25, -0.5, -1, -1.5])
            start = r.randint(-8, 8) * 0.25
            if trips == 0:
                stop = start - step * r.randint(1, 3)
            else:
                stop = start + step * (trips - 1) + (abs(step) * r.choice([0, 0, 0.5]) if step > 0 else -abs(step) * r.choice([0, 0, 0.5]))
            start, stop, step = _tidy(start), _tidy(stop), _tidy(step)
        elif kind < 0.07 and self.mismatch is None and ctx['mult'] <= 4:
            # bounds at the type limits: the NEXT that would leave the range raises Overflow
            limit_loop = True
            self.mismatch = 'for_overflow'
            step = r.choice([1, 1, 2, 3, 5, 100, -1, -1, -2, -3, -100])
            n = r.randint(0, 3)
            if step > 0:
                stop = r.choice([32767, 32767, 32766, 32767 - r.randint(0, abs(step))])
                start = stop - n * step - r.randint(0, abs(step) - 1)
            else:
                stop = r.choice([-32768, -32768, -32767, -32768 + r.randint(0, abs(step))])
                start = stop - n * step + r.randint(0, abs(step) - 1)
            start = max(-32768, min(32767, start))
            self.feat('for_limit_bounds')
        elif kind < 0.11 and ctx['exits'] is not None:
            zero_step = True
            start = stop = r.randint(-3, 3)
            step = 0
            self.feat('for_zero_step')
        else:
            step = r.choice([1, 1, 1, 2, 3, -1, -1, -2, 7, -5])
            start = r.randint(-4, 6)
            if trips == 0:
                stop = start - step * r.randint(1, 3) if r.random() < 0.8 else start - (1 if step > 0 else -1)
            else:
                stop = start + step * (trips - 1) + (r.randint(0, abs(step) - 1) * (1 if step > 0 else -1))
        empty = (not zero_step) and ((step > 0 and start > stop) or (step < 0 and start < stop))
        if empty:
            self.feat('for_empty')
        if step < 0:
            self.feat('for_negative_step')
        if single:
            self.feat('for_single_counter')
        start_e, stop_e = start, stop
        # bounds taken from an enclosing counter / a limit variable changed in the body
        limit_var = None
        if not single and not limit_loop and not zero_step:
            q = r.random()
            if q < 0.12 and ctx['live_int']:
                start_e = r.choice(ctx['live_int'])
                nonempty_known = False
                self.feat('for_bound_from_counter')
            elif q < 0.2 and ctx['live_int']:
                stop_e = r.choice(ctx['live_int'])
                nonempty_known = False
                self.feat('for_bound_from_counter')
            elif q < 0.27:
                limit_var = 'E%d%%' % lid
                out.append(['let', limit_var, stop])
                stop_e = limit_var
                self.feat('for_limit_variable_changed_in_body')
        step_e = step
        if step == 1 and r.random() < 0.6:
            step_e = None
        out.append(['for', var, start_e, stop_e, step_e, lid])
        after = None if tail else self.label()
        inner = dict(ctx)
        inner['live'] = ctx['live'] + [var]
        inner['live_int'] = ctx['live_int'] + ([] if single else [var])
        inner['ranges'] = dict(ctx['ranges'])
        if not single:
            inner['ranges'][var] = (start, stop)
        inner['used'] = used | {var}
        inner['exits'] = ctx['exits'] + ([] if tail else [after])
        inner['mult'] = ctx['mult'] * max(1, trips if not (limit_loop or zero_step) else 3)
        inner['anc_back'] = ctx['anc_back'] + ctx['back']
        body = []
        if zero_step:
            # the loop never ends by itself: leave it after a few rounds (sometimes never: budget)
            if r.random() < 0.85 and inner['exits']:
                self.nguard += 1
                g = 'G%d%%' % self.nguard
                body.append(['let', g, ['+', g, 1]])
                body.append(['if', ['>', g, r.randint(1, 3)], [['goto', '@%d' % inner['exits'][-1]]], None, r.choice(['', 'line'])])
            else:
                self.feat('for_zero_step_never_left')
        self.gen_block(body, inner, depth + 1, top=False)
        if limit_var is not None:
            body.append(['let', limit_var, ['+', limit_var, r.choice([1, 5, -1])]])
        elif not single and not zero_step and not limit_loop and r.random() < 0.06 and trips > 1:
            body.append(['let', var, ['+', var, 1 if step > 0 else -1]])
            self.feat('for_counter_changed_in_body')
        chain = []
        if depth + 1 < self.maxdepth and r.random() < 0.15 and self.est < self.budget:
            # the body ends with another loop and one NEXT closes both: NEXT J%,I%
            chain = self.gen_for(body, inner, depth + 1, tail=True) or []
            if chain:
                self.feat('next_with_variable_list')
        out.extend(body)
        self.feat('for')
        self.features['max_for_depth'] = max(self.features.get('max_for_depth', 0), depth + 1)
        chain = chain + [(lid, var)]
        if tail:
            return chain
        if len(chain) > 1:
            out.append(['next', [c[0] for c in chain], [c[1] for c in chain]])
        else:
            named = r.random() < 0.5
            out.append(['next', [lid], [var if named else None]])
        out.append(('label', after))
        extra = []
        if nonempty_known and not empty and not zero_step and r.random() < 0.6:
            extra = [var]      # the counter after a loop that ran: first value past the end
            self.feat('counter_printed_after_loop')
        self.trace(out, ctx, extra)

    def gen_while(self, out, ctx, depth):
        r = self.rng
        self.nloop += 1
        lid = self.nloop
        self.nwhile += 1
        w = 'W%d%%' % self.nwhile
        budget = max(1, int(40 / max(ctx['mult'], 1)))
        trips = min(r.choice([0, 1, 2, 2, 3, 4]), budget)
        start = r.randint(-2, 2)
        up = r.random() < 0.7
        out.append(['let', w, start])
        lim = start + trips if up else start - trips
        cond = ['<', w, lim] if up else ['>', w, lim]
        if trips == 0:
            self.feat('while_false_at_entry')
        out.append(['while', cond, lid])
        after = self.label()
        inner = dict(ctx)
        inner['live'] = ctx['live'] + [w]
        inner['live_int'] = ctx['live_int'] + [w]
        inner['ranges'] = dict(ctx['ranges'])
        inner['ranges'][w] = (start, lim)
        inner['exits'] = ctx['exits'] + [after]
        inner['mult'] = ctx['mult'] * max(1, trips)
        inner['anc_back'] = ctx['anc_back'] + ctx['back']
        body = []
        self.gen_block(body, inner, depth + 1, top=False)
        body.insert(r.choice([0, len(body)]), ['let', w, ['+', w, 1 if up else -1]])
        out.extend(body)
        out.append(['wend', lid])
        out.append(('label', after))
        self.trace(out, ctx, [w])
        self.feat('while')

    def gen_dead(self, out, ctx):
        """A region that is never executed, holding statements a scanner has to step over."""
        r = self.rng
        dead = []
        for _ in range(r.randint(1, 3)):
            dead.append(['nop', r.choice(DEAD_NOPS + SAFE_NOPS), 'dead'])
        if r.random() < 0.5:
            dead.insert(r.randint(0, len(dead)), ['print', 'dead', []])
        form = r.choice(['if_then', 'if_else', 'for', 'while'])
        self.feat('dead_region_' + form)
        if form == 'if_then':
            live = self.simple(ctx, allow_jump=False) if r.random() < 0.7 else None
            out.append(['if', ['=', 1, 0], dead, live, ''])
        elif form == 'if_else':
            out.append(['if', ['=', 1, 1], self.simple(ctx, allow_jump=False), dead, ''])
        elif form == 'for':
            names = [v for v in counter_names(ctx['routine'], False) if v not in ctx['used']]
            if not names:
                return
            self.nloop += 1
            a, b, st = r.choice([(1, 0, None), (2, 1, 1), (0, 5, -1), (-3, -2, -2), (32767, 1, None)])
            out.append(['for', names[-1], a, b, st, self.nloop])
            out.extend(dead)
            out.append(['next', [self.nloop], [r.choice([None, names[-1]])]])
        else:
            self.nloop += 1
            out.append(['while', r.choice([['=', 1, 0], 0, ['<', 2, 1]]), self.nloop])
            out.extend(dead)
            out.append(['wend', self.nloop])
        self.est += 2 * ctx['mult']

    def gen_block(self, out, ctx, depth, top):
        """A block: statements of one nesting level. ctx['pending'] collects forward labels to place."""
        r = self.rng
        ctx = dict(ctx)
        ctx['pending'] = []
        ctx['back'] = []
        n = r.randint(1, 3) if depth else r.randint(3, 3 + self.size)
        first = self.label()
        out.append(('label', first))
        ctx['back'] = [first]
        for i in range(n):
            # place due forward labels
            for p in list(ctx['pending']):
                p[0] -= 1
                if p[0] <= 0:
                    out.append(('label', p[1]))
                    ctx['pending'].remove(p)
            self.trace(out, ctx)
            if r.random() < 0.15:
                out.append(['nop', r.choice(SAFE_NOPS)])
                self.feat('nop_in_block')
            if r.random() < 0.1:
                self.gen_dead(out, ctx)
            if top and self.mismatch_at == (ctx['routine'], i):
                self.inject_mismatch(out, ctx)
            heavy = self.est < self.budget
            k = r.random()
            if k < 0.27 and depth < self.maxdepth and heavy:
                self.gen_for(out, ctx, depth)
            elif k < 0.37 and depth < self.maxdepth and heavy:
                self.gen_while(out, ctx, depth)
            elif k < 0.55:
                self.gen_if(out, ctx)
            elif k < 0.67 and ctx['subs'] and ctx['mult'] * self.sub_cost(ctx) < 200 and heavy:
                s = r.choice(ctx['subs'])
                out.append(['gosub', '@%d' % s[0]])
                self.est += ctx['mult'] * s[1]
                self.feat('gosub')
            elif k < 0.77:
                self.gen_on(out, ctx)
            elif k < 0.82 and (ctx['back'] or ctx['anc_back']):
                c2 = dict(ctx)
                c2['back'] = ctx['back'] + (ctx['anc_back'] if r.random() < 0.3 else [])
                self.gen_back_jump(out, c2)
            elif k < 0.88 and ctx.get('glob'):
                g = r.choice(ctx['glob'])
                out.append(['let', g, ['+', g, r.choice([1, 1, 2, -1])]])
            if r.random() < 0.3:
                lab = self.label()
                out.append(('label', lab))
                ctx['back'].append(lab)
        for p in ctx['pending']:
            out.append(('label', p[1]))
        self.trace(out, ctx)

    def inject_mismatch(self, out, ctx):
        r = self.rng
        m = self.mismatch_kind
        self.mismatch = m
        if m == 'stray_next':
            out.append(['next', [None], [r.choice([None, 'Q%', 'I%'])]])
        elif m == 'stray_wend':
            out.append(['wend', None])
        elif m == 'stray_return':
            out.append(['return'])
        elif m == 'for_without_next':
            self.nloop += 1
            out.append(['for', 'Q%', r.randint(0, 2), r.randint(0, 3), None, self.nloop])
        elif m == 'while_without_wend':
            self.nloop += 1
            out.append(['while', ['=', r.randint(0, 1), r.randint(0, 1)], self.nloop])
        self.feat('mismatch_' + m)

    # -- whole program ------------------------------------------------------------------------------
    def program(self):
        r = self.rng
        self.maxdepth = r.choice([1, 2, 3, 3, 4, 5, 5])
        self.budget = r.choice([150, 300, 500])
        nsubs = r.choice([0, 1, 2, 2, 3, 4])
        self.mismatch_at = None
        self.mismatch_kind = None
        if r.random() < 0.3:
            self.mismatch_kind = r.choice(['stray_next', 'stray_wend', 'stray_return', 'for_without_next',
                                           'while_without_wend', 'missing_end'])
            if self.mismatch_kind == 'stray_return':
                self.mismatch_at = (0, r.randint(0, 3))
            elif self.mismatch_kind != 'missing_end':
                self.mismatch_at = (r.randint(0, nsubs), r.randint(0, 2))
        glob = ['D%', 'K%']
        # subroutines first (the last one first) so that callers know what a call costs
        subs = []        # [label, estimated steps]
        sub_items = []
        for si in range(nsubs, 0, -1):
            lab = self.label()
            body = [('label', lab)]
            before = self.est
            self.est = 0.0
            ctx = self.context(si, glob, subs, True)
            if r.random() < 0.3:
                # recursive: GOSUB depth up to 20
                deep = r.choice([2, 3, 5, 10, 19])
                self.trace(body, ctx, ['D%'])
                body.append(['let', 'D%', ['+', 'D%', 1]])
                body.append(['if', ['<', 'D%', deep], [['gosub', '@%d' % lab]], None, ''])
                self.trace(body, ctx, ['D%'])
                body.append(['let', 'D%', ['-', 'D%', 1]])
                body.append(['return'])
                cost = 6.0 * deep
                self.feat('recursive_sub')
                self.features['max_recursion'] = max(self.features.get('max_recursion', 0), deep)
            else:
                old_budget = self.budget
                self.budget = 25
                self.gen_block(body, ctx, r.choice([0, 1]) + (self.maxdepth - 2 if self.maxdepth > 3 else 0), top=True)
                self.budget = old_budget
                body.append(['return'])
                cost = self.est + 2
            self.est = before
            subs.insert(0, [lab, cost])
            sub_items = body + sub_items
        main = []
        ctx = self.context(0, glob, subs, False)
        self.gen_block(main, ctx, 0, top=True)
        if self.mismatch_kind == 'missing_end' and subs:
            self.mismatch = 'missing_end'
            self.feat('mismatch_missing_end')
        else:
            main.append(['end'])
        items = main + sub_items
        prog = layout(r, items)
        self.features['est_steps'] = int(self.est)
        prog['indents'] = [r.choice([' ', ' ', ' ', '  ', '    ']) for _ in prog['lines']]
        prog['sep'] = r.choice([':', ':', ':', ' :', ': ', ' : '])
        prog['features'] = self.features
        prog['mismatch'] = self.mismatch
        prog['oob'] = self.oob
        return prog

    def context(self, routine, glob, subs, in_sub):
        return {'live': [], 'live_int': [], 'ranges': {'D%': (0, 3), 'K%': (0, 3)}, 'used': frozenset(),
                'exits': [], 'mult': 1, 'subs': [s for s in subs], 'glob': glob, 'in_sub': in_sub,
                'routine': routine, 'pending': [], 'back': [], 'anc_back': []}


def _tidy(x):
    return int(x) if float(x) == int(x) else float(x)


def gen_c19(rng, size=None):
    if size is None:
        size = rng.choice([1, 2, 3, 5, 8])
    while True:
        try:
            return _C19(rng, size).program()
        except AssertionError:
            # a line came out too long: draw again (the rng has moved on, so this is deterministic)
            continue


# ---------------------------------------------------------------------------------------------------
# C21: error trapping

# statements that always raise the given error (GW-BASIC manual: error conditions of each statement)
FAULTS = [
    ['fault', 'Q%=ASC("")', 5], ['fault', 'Q$=CHR$(256)', 5], ['fault', 'Q=SQR(-1)', 5],
    ['fault', 'Q$=MID$("abc",0)', 5], ['fault', 'Q$=SPACE$(-1)', 5], ['fault', 'Q=LOG(0)', 5],
    ['fault', 'Q%=32767+1', 6], ['fault', 'Q%=40000', 6], ['fault', 'Q%=-32768-1', 6], ['fault', 'Q%=200*200', 6],
    ['fault', 'Q%=B%(11)', 9], ['fault', 'B%(11)=1', 9], ['fault', 'Q$=B$(3,11)', 9],
    ['fault', 'Q%="x"', 13], ['fault', 'Q$=5', 13], ['fault', 'Q%=LEN(5)', 13], ['fault', 'Q%=1+"a"', 13],
    ['fault', 'OPEN "NOFILE.DAT" FOR INPUT AS 1', 53], ['fault', 'KILL "NOFILE.DAT"', 53],
    ['fault', 'NAME "NOFILE.DAT" AS "X.DAT"', 53],
    ['fault', 'GOTO 64999', 8], ['fault', 'GOSUB 64999', 8], ['fault', 'RESTORE 64999', 8],
    ['fault', 'PRINT #3,"x"', 52], ['fault', 'INPUT #2,Q%', 52],
    ['fault', 'Q$=STRING$(200,65)+STRING$(100,66)', 15],
    ['fault', 'Q%=FNQ(1)', 18],
    ['fault', 'READ Q%', 4],
]
# division by zero of the floating-point operator is a hard error only while a trap is armed
FAULTS_SOFT_DIV = [['fault', 'Q=1/0', 11, 'soft'], ['fault', 'Q%=7\\0', 11, 'soft'], ['fault', 'Q%=7 MOD 0', 11, 'soft']]


# statements cut short: a token the statement needs is missing (Syntax error) or an operand is (Missing operand).
# The error belongs to the line the statement stands on, wherever on the line it stands.
SYNTAX_FAULTS = [(t, 2) for t in [
    'ON 1', 'ON ERROR', 'DIM A9(1', 'A9(1', 'A9=(1', 'PRINT (1', 'SWAP A9', 'SWAP A9,', 'LSET A9$', 'MID$(A9$', 'OPEN "X" FOR',
    'OPEN "X" FOR INPUT', 'POKE 1', 'OUT 1', 'WAIT 1', 'LINE INPUT', 'READ', 'KEY 1', 'PRINT USING "#"', 'ERASE', 'OPTION',
    'OPTION BASE', 'LET', 'LET A9', 'CALL', 'TIMER', 'KEY(1)', 'ON KEY(1)', 'ON TIMER(1)', 'SOUND 100', 'VIEW PRINT 1', 'CHR$(1)',
    '=1', 'END X', 'STOP X']] + [(t, 22) for t in [
    'DIM A9(', 'A9=', 'A9=1+', 'PRINT 1+', 'LSET A9$=', 'OPEN "X" FOR INPUT AS', 'POKE 1,', 'ERROR', 'KEY 1,', 'PRINT USING',
    'PRINT USING "#";', 'SOUND 100,', 'PLAY', 'MERGE', 'CHAIN', 'KILL', 'VIEW PRINT 1 TO']]
# the same with keywords that the textual scans for NEXT / WEND / ELSE look at, or that are illegal in direct mode:
# only in the table of the directed core
SYNTAX_FAULTS_STRUCTURAL = [('IF 1', 2), ('FOR I9=1', 2), ('FOR I9', 2), ('FOR I9=1 TO', 22), ('DEF FNZ(', 2), ('DEF FNZ(X', 2), ('DEF', 2)]


def _syntax_fault(r, feats):
    t, code = r.choice(SYNTAX_FAULTS)
    feats['syntax_fault'] = feats.get('syntax_fault', 0) + 1
    return [['fault', t, code]]


# DEF FN bodies: (name, body, code raised by a call | None, soft?)
FN_BODIES = [
    ('FNA', 'SQR(-4)+X', 5, False), ('FNB', 'LOG(0)*X', 5, False), ('FNC$', 'MID$("abc",0)', 5, False),
    ('FND', '1/0+X', 11, True), ('FNE%', 'X*40000', 6, False), ('FNF', 'X\\0', 11, True),
    ('FNG', 'X*2+1', None, False), ('FNH$', 'CHR$(X+300)', 5, False), ('FNK', 'ASC("")+X', 5, False),
]


def _c21_fault(r, feats, armed, control=True, fns=(), stub=None, main_top=False):
    """One failing statement; `armed` tells whether a trap is certainly set (1/0 allowed)."""
    if stub is not None and control and r.random() < 0.06:
        # GOTO / GOSUB into handler code: its RESUME is met without an error
        feats['jump_into_handler_code'] = feats.get('jump_into_handler_code', 0) + 1
        return [[r.choice(['goto', 'gosub']), '@%d' % stub]]
    if fns and r.random() < 0.2:
        name = r.choice(fns)
        feats['fault_in_def_fn_body'] = feats.get('fault_in_def_fn_body', 0) + 1
        target = 'Q$' if name.endswith('$') else r.choice(['Q', 'Q%', 'Q'])
        if not name.endswith('$') and r.random() < 0.3:
            return [['fncall', 'Q=1+%s(%d)*2' % (name, r.randint(1, 3)), name]]
        return [['fncall', '%s=%s(%d)' % (target, name, r.randint(1, 3)), name]]
    if r.random() < 0.12:
        return _syntax_fault(r, feats)
    k = r.random()
    if k < 0.45:
        from ..models import c19_rctrl as M
        if r.random() < 0.8:
            code = r.choice(M.DEFINED_CODES)
        else:
            code = r.choice(M.UNDEFINED_CODES)
        feats['error_stmt'] = feats.get('error_stmt', 0) + 1
        if r.random() < 0.2:
            return [['let', 'E%', code], ['error', 'E%']]
        return [['error', code]]
    if k < 0.55:
        feats['fixable_fault'] = feats.get('fixable_fault', 0) + 1
        if r.random() < 0.5:
            return [['let', 'Q%', ['\\', 7, 'Z%']]]
        return [['let', ['arr', 'A%', 'K%'], 5]]
    if k < 0.6 and armed:
        feats['float_div_zero_trapped'] = feats.get('float_div_zero_trapped', 0) + 1
        return [list(r.choice(FAULTS_SOFT_DIV))]
    if k < 0.68 and control:
        feats['control_fault'] = feats.get('control_fault', 0) + 1
        if feats.get('_unmatched'):
            # this program has loops that are opened and never closed (no stray NEXT / WEND anywhere in it, which
            # the textual scan would pair with them); only at nesting level 0 of the main program or the direct line
            if not main_top:
                return [['return']]
            feats['_lid'] = feats.get('_lid', 5000) + 1
            if r.random() < 0.5:
                feats['for_without_next'] = feats.get('for_without_next', 0) + 1
                a, b = r.choice([(1, 0), (1, 2), (3, 3), (2, 1)])
                return [['for', 'Q%d%%' % (feats['_lid'] % 10), a, b, r.choice([None, 1, -1]), feats['_lid']]]
            feats['while_without_wend'] = feats.get('while_without_wend', 0) + 1
            return [['while', r.choice([['=', 1, 1], ['=', 1, 0], ['<', 'C%', 99]]), feats['_lid']]]
        return [r.choice([['return'], ['next', [None], [None]], ['wend', None]])]
    feats['real_fault'] = feats.get('real_fault', 0) + 1
    return [list(r.choice(FAULTS))]


def gen_c21(rng):
    r = rng
    feats = {}
    nlab = [0]
    ntag = [0]

    def label():
        nlab[0] += 1
        return nlab[0]

    def tag(p):
        ntag[0] += 1
        return '%s%d' % (p, ntag[0])

    direct_mode = r.random() < 0.15
    if r.random() < 0.3:
        feats['_unmatched'] = True
    nh = r.choice([1, 1, 2, 3])
    handlers = [label() for _ in range(nh)]
    nsub = r.choice([0, 1, 1, 2])
    subs = [label() for _ in range(nsub)]
    main_labels = [label() for _ in range(r.randint(1, 3))]
    items = []
    armed = False
    off = False
    # DEF FN definitions on their own early lines; some bodies fail when called
    fns = []
    if r.random() < 0.5:
        for name, body, code, soft in r.sample(FN_BODIES, r.choice([1, 2, 3])):
            items.append(('label', label()))
            items.append(['deffn', name, body, code] + (['soft'] if soft else []))
            fns.append(name)
        items.append(('label', label()))
        feats['def_fn_lines'] = len(fns)

    stub = label() if r.random() < 0.5 else None
    tail = label() if r.random() < 0.25 else None      # a routine at the very end whose LAST statement fails

    def P(p, extra=()):
        return ['print', tag(p), list(extra)]

    def unit(where, armed, depth=0):
        """A few statements with a failing one at a random position."""
        out = []
        n = r.randint(1, 4)
        pos = r.randint(0, n - 1)
        for i in range(n):
            if i == pos:
                q = r.random()
                if q < 0.15 and subs and where == 'main':
                    out.append(['gosub', '@%d' % r.choice(subs)])
                    feats['gosub_to_faulting_sub'] = feats.get('gosub_to_faulting_sub', 0) + 1
                elif q < 0.3:
                    # failing statement inside a THEN / ELSE branch
                    br = [P('b')] + _c21_fault(r, feats, armed, depth == 0, fns, stub, where == 'main' and depth == 0) + [P('b')]
                    other = [P('c')] if r.random() < 0.5 else None
                    if r.random() < 0.5:
                        out.append(['if', ['=', 'C%', 'C%'], br, other, ''])
                    else:
                        out.append(['if', ['<>', 'C%', 'C%'], other or [P('c')], br, ''])
                    feats['fault_in_if_branch'] = feats.get('fault_in_if_branch', 0) + 1
                    return out
                else:
                    out.extend(_c21_fault(r, feats, armed, depth == 0, fns, stub, where == 'main' and depth == 0))
            else:
                out.append(P(where[0]))
        return out

    # main program
    if not direct_mode:
        seq = r.randint(3, 8)
        for i in range(seq):
            if i < len(main_labels):
                items.append(('label', main_labels[i]))
                items.append(P('m'))
            q = r.random()
            if not armed and not off and q < 0.85:
                items.append(['onerror', '@%d' % r.choice(handlers)])
                armed = True
                continue
            if armed and q < 0.1:
                items.append(['onerror', '@%d' % r.choice(handlers)])
                continue
            if armed and q < 0.17:
                items.append(['onerror', 0])
                armed, off = False, True
                feats['trap_switched_off'] = feats.get('trap_switched_off', 0) + 1
                if r.random() < 0.3:
                    items.append(P('m'))
                    items.append(['resume', r.choice([None, 'next', 0])])
                    feats['resume_outside_handler'] = feats.get('resume_outside_handler', 0) + 1
                continue
            if q < 0.3:
                # failing statement inside a loop
                v = r.choice(['I%', 'J%'])
                nloop = label()
                items.append(['for', v, 1, r.randint(1, 3), None, nloop])
                items.extend(unit('main', armed, 1))
                items.append(['next', [nloop], [r.choice([v, None])]])
                feats['fault_in_loop'] = feats.get('fault_in_loop', 0) + 1
                continue
            items.extend(unit('main', armed))
        for lab in main_labels[seq:]:
            items.append(('label', lab))
            items.append(P('m'))
        if tail is not None:
            items.append(['gosub', '@%d' % tail])
        items.append(P('m'))
        if nsub == 0 and r.random() < 0.12:
            feats['main_runs_into_handler'] = 1        # RESUME met without an error, possibly with the trap armed
        else:
            items.append(['end'])
    else:
        for lab in main_labels:
            items.append(('label', lab))
            items.append(P('m'))
        items.append(['end'])
        feats['direct_mode'] = 1
    # subroutines
    for s in subs:
        items.append(('label', s))
        items.extend(unit('sub', True))
        if r.random() < 0.3:
            items.extend(unit('sub', True))
        items.append(P('s'))
        items.append(['return'])
    # handlers
    for h in handlers:
        items.append(('label', h))
        items.append(['print', tag('h'), [['err'], ['erl']]])
        k = r.random()
        if k < 0.25:
            items.append(['resume', 'next'])
            form = 'next'
        elif k < 0.45:
            lim = r.randint(1, 2)
            items.append(['let', 'C%', ['+', 'C%', 1]])
            items.append(['if', ['>', 'C%', lim], [['resume', 'next']], [['resume', r.choice([None, 0])]], ''])
            form = 'same_counted'
        elif k < 0.57:
            items.append(['let', 'Z%', 1])
            items.append(['let', 'K%', 1])
            items.append(['let', 'C%', ['+', 'C%', 1]])
            items.append(['if', ['>', 'C%', 4], [['end']], None, ''])
            items.append(['resume', r.choice([None, 0])])
            form = 'fix_and_same'
        elif k < 0.72:
            items.append(['let', 'C%', ['+', 'C%', 1]])
            items.append(['if', ['>', 'C%', r.randint(1, 3)], [['resume', 'next']],
                          [['resume', '@%d' % r.choice(main_labels)]], ''])
            form = 'line_counted'
        elif k < 0.8:
            items.append(['let', 'C%', ['+', 'C%', 1]])
            items.append(['if', ['>', 'C%', 5], [['end']], None, ''])
            items.append(['resume', '@%d' % r.choice(main_labels)])
            form = 'line'
        elif k < 0.9:
            items.extend(_c21_fault(r, feats, True, True, fns))
            items.append(['resume', 'next'])
            form = 'fault_in_handler'
        elif k < 0.95 and subs is not None:
            # a handler that calls a (non-failing) subroutine of its own
            hs = label()
            items.append(['gosub', '@%d' % hs])
            items.append(['resume', 'next'])
            items.append(('label', hs))
            items.append(P('g'))
            items.append(['return'])
            form = 'gosub_in_handler'
        elif k < 0.965:
            # re-executes for ever when the fault cannot go away: ends by the step budget
            items.append(['resume', r.choice([None, 0])])
            form = 'same_unbounded'
        elif k < 0.988:
            # no RESUME: runs on into the next handler, or off the end of the program (No RESUME)
            items.append(P('n'))
            form = 'without_resume'
        else:
            items.append(['end'])
            form = 'end'
        feats['handler_' + form] = feats.get('handler_' + form, 0) + 1
    if stub is not None:
        items.append(('label', stub))
        items.append(P('z'))
        items.append(['resume', r.choice([None, 0, 'next', '@%d' % main_labels[0]])])
    if tail is not None:
        items.append(('label', tail))
        items.append(P('y'))
        items.extend(_syntax_fault(r, feats) if r.random() < 0.7 else _c21_fault(r, feats, False, False, fns))
        feats['last_statement_of_program_fails'] = 1
    direct = None
    if direct_mode:
        direct = []
        if r.random() < 0.85:
            direct.append(['onerror', '@%d' % r.choice(handlers)])
            darmed = True
        else:
            darmed = False
        n = r.randint(1, 3)
        pos = r.randint(0, n - 1)
        for i in range(n):
            if i == pos:
                f = _c21_fault(r, feats, darmed, True, fns, None, True)
                # (no control-flow faults from the direct line: the stack of a previous run is not pinned)
                direct.extend(f)
            else:
                direct.append(P('d'))
        direct.append(P('d'))
    prog = layout(r, items, direct, dense=r.choice([0.0, 0.5, 0.8, 0.95]))
    # layout: blanks after the line number and around the colons (the statement pointer must not care)
    prog['indents'] = [r.choice([' ', ' ', ' ', '  ', '    ']) for _ in prog['lines']]
    prog['sep'] = r.choice([':', ':', ':', ' :', ': ', ' : ', '  :  '])
    if prog['sep'] != ':':
        feats['blanks_around_colons'] = 1
    if feats.pop('_unmatched', None):
        feats['program_with_unclosed_loops'] = 1
    feats.pop('_lid', None)
    prog['features'] = feats
    return prog


# ---------------------------------------------------------------------------------------------------
# C22: READ / DATA / RESTORE

_UNQ = 'abcdefghijklmnopqrstuvwxyzABCDEFGHIJKLMNOPQRSTUVWXYZ'


def _c22_item(r, want=None):
    """One DATA item: [raw text, string reading | None, numeric reading | None]."""
    k = want or r.choice(['int', 'int', 'dec', 'exp', 'dbl', 'suffix', 'radix', 'quoted', 'quoted',
                          'unquoted', 'unquoted', 'empty', 'padded', 'partial', 'bigint', 'signed'])
    if k == 'signed':
        # explicit plus sign (and other legal sign / point spellings) on a numeric item
        raw, v = r.choice([('+42', 42), ('+.5', 0.5), ('+1E2', 100), ('+2.5E+1', 25), ('5.', 5), ('+7%', 7), ('+0', 0),
                           ('+3#', 3), ('-.5', -0.5), ('+1.5D1', 15), (' +8 ', 8), ('+32767', 32767), ('-0', 0), ('+1D-1', 0.1)])
        if raw == '+1D-1':
            raw, v = '+125D-3', 0.125
        return [raw, raw.strip(), v]
    if k == 'partial':
        # starts like a number: still not a numeric item
        raw = r.choice(['12abc', '7x', '3.5z', '-4q', '1E2k'])
        return [raw, raw, None]
    if k == 'bigint':
        # fine for single / double targets, beyond the range of an integer variable
        v = r.choice([40000, 65535, -40000, 32768, -32769, 100000])
        return ['%d' % v, '%d' % v, v]
    if k == 'int':
        v = r.choice([0, 1, -1, 7, 42, -17, 255, 256, 1000, 32767, -32768, r.randint(-999, 999)])
        raw = '%d' % v
        return [raw, raw, v]
    if k == 'dec':
        v = r.randint(-3999, 3999) / 4.0 if r.random() < 0.5 else r.choice([0.5, -0.25, 0.125, 100.75, -0.0625, 1.5])
        if abs(v) >= 1000:
            v = v / 8
            v = int(v * 4) / 4.0
        raw = _num(_tidy(v), True)
        if r.random() < 0.3 and 0 < abs(v) < 1:
            raw = raw.replace('.', '0.')
        return [raw, raw, _tidy(v)]
    if k == 'exp':
        raw, v = r.choice([('1E2', 100), ('2.5E1', 25), ('125E-3', 0.125), ('5E+0', 5), ('-1.5E2', -150),
                           ('1e3', 1000), ('.5E1', 5), ('25E-2', 0.25)])
        return [raw, raw, v]
    if k == 'dbl':
        raw, v = r.choice([('1D2', 100), ('3#', 3), ('2.5#', 2.5), ('1.5D1', 15), ('-4D0', -4), ('12.25#', 12.25)])
        return [raw, raw, v]
    if k == 'suffix':
        raw, v = r.choice([('7%', 7), ('1.5!', 1.5), ('12!', 12), ('-3%', -3), ('0!', 0)])
        return [raw, raw, v]
    if k == 'radix':
        raw, v = r.choice([('&H1F', 31), ('&O17', 15), ('&HFF', 255), ('&H7FFF', 32767), ('&O7', 7), ('&HFFFF', -1)])
        return [raw, raw, v]
    if k == 'quoted':
        n = r.choice([0, 1, 3, 5, 8])
        body = ''.join(r.choice(_UNQ + '  ,,::;0123456789.-') for _ in range(n))
        return ['"%s"' % body, body, None]
    if k == 'unquoted':
        n = r.choice([1, 2, 4, 7])
        body = r.choice(_UNQ) + ''.join(r.choice(_UNQ + ' 0123456789.-+!?') for _ in range(n - 1))
        body = body.strip()
        pad1, pad2 = r.choice(['', '', ' ', '  ']), r.choice(['', '', ' ', '   '])
        return [pad1 + body + pad2, body, None]
    if k == 'empty':
        return [r.choice(['', '', ' ', '  ']), '', 0]
    if k == 'padded':
        v = r.randint(-99, 99)
        return [' %d  ' % v, '%d' % v, v]
    raise ValueError(k)


def gen_c22(rng):
    r = rng
    feats = {}
    ntag = [0]

    def tag(p):
        ntag[0] += 1
        return '%s%d' % (p, ntag[0])

    # layout plan: a list of line specs; line numbers assigned first so RESTORE can name any line
    nlines = r.randint(4, 14)
    nums = []
    n = r.choice([0, 1, 10, 100])
    for _ in range(nlines):
        nums.append(n)
        n += r.choice([1, 5, 10, 10, 10, 37])
    kinds = []
    for i in range(nlines):
        kinds.append(r.choice(['data', 'data', 'data', 'mixed', 'mixed', 'read', 'read', 'read', 'restore', 'restore', 'loop', 'print',
                               'idata', 'dep']))
    if 'data' not in kinds and 'mixed' not in kinds:
        kinds[r.randrange(nlines)] = 'data'
    if 'dep' in kinds and 'idata' not in kinds:
        kinds[kinds.index('dep')] = 'idata'
    # DATA first: decide the items of every data-bearing line
    data = {}
    open_data = set()
    idata = []
    for i, k in enumerate(kinds):
        if k == 'idata':
            # small integers, usable as subscripts by READ N%,C%(N%)
            items = []
            for _ in range(r.randint(3, 5)):
                v = r.randint(0, 5)
                items.append(['%d' % v, '%d' % v, v])
            data[i] = items
            idata.append(i)
        if k in ('data', 'mixed'):
            cnt = r.choice([1, 1, 2, 3, 5]) if k == 'data' else r.choice([1, 2])
            items = [_c22_item(r) for _ in range(cnt)]
            if all(it[0].strip() == '' for it in items):
                items[0] = _c22_item(r, 'int')      # (a DATA statement with nothing after it is not generated)
            if k == 'data' and r.random() < 0.15:
                # a quoted item whose closing quote is the end of the line (last item of the line)
                blen = r.choice([1, 3, 6])
                body = r.choice(_UNQ) + ''.join(r.choice(_UNQ + ' ,:;0123456789') for _ in range(blen - 1))
                items.append(['"' + body.rstrip(), body.rstrip(), None])
                open_data.add(i)
                feats['data_item_with_unclosed_quote'] = feats.get('data_item_with_unclosed_quote', 0) + 1
            data[i] = items
            if any(it[0].strip() == '' for it in items):
                feats['empty_item'] = feats.get('empty_item', 0) + 1
            if any(it[2] is not None and it[0].strip()[:1] == '+' for it in items):
                feats['numeric_item_with_plus_sign'] = feats.get('numeric_item_with_plus_sign', 0) + 1
    # a line may carry two DATA statements
    order = []      # (line index, item) in program order
    second = {}
    for i in sorted(data):
        for it in data[i]:
            order.append((i, it))
        if r.random() < 0.15 and i not in open_data:
            second[i] = [_c22_item(r, 'int')] + [_c22_item(r) for _ in range(r.choice([0, 1]))]
            for it in second[i]:
                order.append((i, it))
            feats['two_data_statements_on_a_line'] = feats.get('two_data_statements_on_a_line', 0) + 1
    tail_data = None
    if r.random() < 0.3:
        tail_data = [_c22_item(r) for _ in range(2)]
        for it in tail_data:
            order.append((nlines + 5, it))
        feats['data_after_end'] = 1
    ptr = 0
    lines = []
    ended = False
    trap = r.random() < 0.35
    # what the handler does after a failed READ: stop, or go on (then the same item must be delivered again)
    trap_form = r.choice(['end', 'next', 'next', 'next', 'line']) if trap else None
    resuming = trap_form in ('next', 'line')
    num_vars = ['A%', 'B%', 'X', 'Y!', 'D#', 'N']
    str_vars = ['S$', 'T$', 'U$']

    def choose_target(item, force_string=False):
        raw, sval, nval = item
        if force_string or nval is None:
            if nval is None and not force_string and r.random() < (0.25 if resuming else 0.08):
                feats['type_error_planned'] = feats.get('type_error_planned', 0) + 1
                return r.choice(['BN', 'B9%', 'BD#']), True
            t = r.choice(str_vars)
            if r.random() < 0.15:
                return ['arr', 'R$', r.randint(0, 5)], False
            return t, False
        if r.random() < 0.25:
            return r.choice(str_vars), False
        f = Fraction(nval)
        if not (-32768 <= f <= 32767) and r.random() < (0.5 if resuming else 0.15):
            feats['integer_overflow_planned'] = feats.get('integer_overflow_planned', 0) + 1
            return 'B9%', True
        cands = ['X', 'Y!', 'D#', 'N']
        if -32768 <= f <= 32767 and (f.denominator == 1 or (f * 4).denominator == 1 and (f * 2).denominator != 1):
            cands += ['A%', 'B%', 'A%']
            if r.random() < 0.15:
                return ['arr', 'C%', r.randint(0, 5)], False
        if r.random() < 0.1:
            return ['arr', 'F', r.randint(0, 5)], False
        return r.choice(cands), False

    def missing_line():
        while True:
            m = r.choice([nums[r.randrange(nlines)] + r.randint(1, 4), r.randint(0, nums[-1]), r.randint(50000, 60000)])
            if m not in nums:
                return m

    def pitem(t):
        name = t[1] if isinstance(t, list) else t
        if name.endswith('$'):
            return ['s', t]
        return t

    head = [['dim', 'R$', 5], ['dim', 'C%', 5], ['dim', 'F', 5]]
    handler_line = None
    if trap:
        handler_line = n + 100
        head.append(['onerror', handler_line])
        feats['trapped'] = 1
    for i, k in enumerate(kinds):
        stmts = []
        if i == 0:
            stmts.extend(head)
        if k == 'dep' and not ended and idata:
            # later targets of the list use what earlier targets of the SAME list have just received
            j = r.choice(idata)
            stmts.append(['restore', nums[j]])
            ptr = [q for q, (li, it) in enumerate(order) if li == j][0]
            form = r.choice(['two', 'chain', 'twice']) if len(data[j]) >= 4 else r.choice(['two', 'chain'])
            if form == 'two':
                targets = ['N%', ['arr', 'C%', 'N%']]
            elif form == 'chain':
                targets = ['N%', ['arr', 'C%', 'N%'], ['arr', 'F', ['arr', 'C%', 'N%']]]
            else:
                targets = ['N%', ['arr', 'C%', 'N%'], 'N%', ['arr', 'C%', 'N%']]
            ptr += len(targets)
            stmts.append(['read', targets])
            stmts.append(['print', tag('d'), ['N%'] + [['arr', 'C%', q] for q in range(6)]])
            if form == 'chain':
                stmts.append(['print', tag('e'), [['arr', 'F', q] for q in range(6)]])
            feats['read_with_dependent_subscripts'] = feats.get('read_with_dependent_subscripts', 0) + 1
        elif k == 'dep':
            stmts.append(['print', tag('p'), []])
        elif k in ('data', 'idata'):
            stmts.append(['data', data[i]])
            if i in second:
                stmts.append(['print', tag('p'), []])
                stmts.append(['data', second[i]])
        elif k == 'mixed':
            stmts.append(['print', tag('p'), []])
            stmts.append(['data', data[i]])
            if i in second:
                stmts.append(['data', second[i]])
            stmts.append(['print', tag('q'), []])
            feats['data_inside_multi_statement_line'] = feats.get('data_inside_multi_statement_line', 0) + 1
        elif k == 'print' or ended:
            stmts.append(['print', tag('p'), []])
        elif k == 'read':
            cnt = r.choice([1, 1, 2, 3])
            targets = []
            failed = False
            for _ in range(cnt):
                if ptr >= len(order):
                    targets.append(r.choice(num_vars + str_vars))
                    ended = True
                    feats['out_of_data_planned'] = feats.get('out_of_data_planned', 0) + 1
                    break
                t, bad = choose_target(order[ptr][1])
                targets.append(t)
                if bad:
                    failed = True
                    if resuming:
                        # the READ fails, the handler resumes: the item stays where it is
                        feats['failed_read_then_resumed'] = feats.get('failed_read_then_resumed', 0) + 1
                    else:
                        ended = True
                    break
                ptr += 1
            stmts.append(['read', targets])
            if not ended and not failed:
                stmts.append(['print', tag('r'), [pitem(t) for t in targets]])
            else:
                stmts.append(['print', tag('x'), []])
        elif k == 'loop':
            cnt = r.randint(1, 4)
            avail = order[ptr:ptr + cnt]
            allnum = all(it[1][2] is not None for it in avail) and len(avail) == cnt
            if allnum and r.random() < 0.6:
                t = r.choice(['X', 'D#', 'N'])
            else:
                t = r.choice(str_vars)
            if len(avail) < cnt:
                ended = True
                feats['out_of_data_planned'] = feats.get('out_of_data_planned', 0) + 1
            else:
                ptr += cnt
            stmts.append(['for', 'I%', 1, cnt, None, 1000 + i])
            stmts.append(['read', [t]])
            stmts.append(['print', tag('l'), ['I%', pitem(t)]])
            stmts.append(['next', [1000 + i], [None]])
            feats['read_in_loop'] = feats.get('read_in_loop', 0) + 1
        elif k == 'restore':
            if r.random() < 0.35:
                stmts.append(['restore', None])
                ptr = 0
                feats['restore_plain'] = feats.get('restore_plain', 0) + 1
            elif r.random() < (0.3 if resuming else 0.12):
                # RESTORE to a line that does not exist: Undefined line number, and the pointer stays where it is
                stmts.append(['restore', missing_line()])
                feats['restore_to_missing_line'] = feats.get('restore_to_missing_line', 0) + 1
                if not resuming:
                    ended = True
            else:
                j = r.randrange(nlines)
                stmts.append(['restore', nums[j]])
                ptr = len(order)
                for q, (li, it) in enumerate(order):
                    if li >= j:
                        ptr = q
                        break
                feats['restore_line'] = feats.get('restore_line', 0) + 1
                if j not in data:
                    feats['restore_to_line_without_data'] = feats.get('restore_to_line_without_data', 0) + 1
            stmts.append(['print', tag('p'), []])
        # statements a DATA scan has to step over (two-byte tokens, constants and literals that look like tokens)
        if i > 0 and r.random() < 0.12:
            stmts.insert(0, ['nop', r.choice(SAFE_NOPS)])
            feats['nop_before_data_scan'] = feats.get('nop_before_data_scan', 0) + 1
        # decoys: the word DATA in a remark or inside a string literal is not a DATA statement
        decoy = False
        if i > 0 and r.random() < 0.1:
            stmts.insert(0, r.choice([['print', 'DATA 7,8', []], ['lets', 'V$', 'x:DATA 5,6']]))
            feats['decoy_data_in_string'] = feats.get('decoy_data_in_string', 0) + 1
        if r.random() < 0.15 and i not in open_data:
            stmts.append(r.choice([['rem', 'DATA 1,2'], ['rem', 'x:DATA 3', "'"], ['rem', 'y DATA 4'], ['rem', ' DATA 9', "'"]]))
            feats['decoy_data_in_remark'] = feats.get('decoy_data_in_remark', 0) + 1
            decoy = True
        last = stmts[-1]
        if not decoy and last[0] == 'print' and not last[2] and r.random() < 0.3:
            # the line ends inside a string literal: the scan for the next DATA has to get over it
            if r.random() < 0.3:
                stmts.append(['lets', 'V$', 'o' + last[1], 'open'])
            else:
                last.append('open')
            feats['line_ending_in_unclosed_string'] = feats.get('line_ending_in_unclosed_string', 0) + 1
        lines.append([nums[i], stmts])
    # tail: sometimes read on until the data runs out, then END; then unreachable DATA
    tailnum = n
    if not ended and r.random() < 0.2:
        t = r.choice(str_vars)
        lines.append([tailnum, [['read', [t]], ['print', tag('t'), [['s', t]]], ['goto', tailnum]]])
        feats['read_until_out_of_data'] = 1
        tailnum += 10
    lines.append([tailnum, [['end']]])
    tailnum += 10
    if tail_data is not None:
        # (behind END: never executed, only scanned)
        pre = [['nop', r.choice(DEAD_NOPS + SAFE_NOPS), 'dead']] if r.random() < 0.5 else []
        lines.append([tailnum, pre + [['data', tail_data]]])
    if trap:
        h = [['print', tag('h'), [['err'], ['erl']]]]
        if trap_form == 'end':
            h.append(['end'])
        else:
            # (bounded: a READ that fails again and again must not spin for ever)
            h.append(['let', 'C9%', ['+', 'C9%', 1]])
            h.append(['if', ['>', 'C9%', 8], [['end']], None, ''])
            if trap_form == 'line':
                lines.append([handler_line, h])
                h = [['if', ['>', 'C9%', 2], [['resume', 'next']], [['resume', r.choice(nums)]], '']]
                handler_line += 5
            else:
                h.append(['resume', 'next'])
        feats['handler_' + trap_form] = 1
        lines.append([handler_line, h])
    lines.sort(key=lambda l: l[0])
    prog = {'lines': lines, 'direct': None, 'features': feats}
    if not trap and r.random() < 0.35:
        # direct-mode lines typed after the program has stopped (END or error): the DATA pointer is where it was left
        after = []
        for _ in range(r.randint(1, 3)):
            v = r.choice(str_vars)
            q = r.random()
            line = []
            if q < 0.3:
                line.append(['restore', missing_line()])
                feats['direct_restore_to_missing_line'] = feats.get('direct_restore_to_missing_line', 0) + 1
            elif q < 0.45:
                line.append(['restore', r.choice(nums)])
            elif q < 0.55:
                line.append(['restore', None])
            line.append(['read', [v]])
            line.append(['print', tag('a'), [['s', v]]])
            after.append(line)
        prog['after'] = after
        feats['direct_reads_after_the_run'] = 1
    # layout: blanks / tabs between the line number and the first statement, blanks around the colons
    prog['indents'] = [r.choice([' ', ' ', '  ', '     ', '\t', ' \t ']) for _ in lines]
    prog['sep'] = r.choice([':', ':', ' :', ': ', ' : ', '  :  '])
    if lines[0][0] == 0:
        feats['line_zero'] = 1
    feats['indented_lines'] = sum(1 for t in prog['indents'] if t != ' ')
    return prog
