"""
Generator of programs for C14: every line prints a unique tag when executed, and line-number
references of every kind are generated from a table.  A line is a list of segments: bytes (literal
text) or ['r', n] (a reference to line n, which may be missing), so that the expected listing after
RENUM is `render(line, old->new map)`.

Program layout (all parts optional, numbers ascending):
   setup   ON ERROR GOTO / ON KEY(n) GOSUB / ON TIMER(n) GOSUB / KEY(n) ON / TIMER ON  [+ STOP in 'trap' mode]
   main    tag lines with GOTO/GOSUB/IF/ON.../RESTORE/ERROR/RUN ...  ; END
   subs    tag lines ending in RETURN [n]
   errh    error handler: tag, IF ERL=n ..., RESUME n / RESUME NEXT / RESUME
   evh     event handlers: tag, RETURN
   data    DATA lines
   dead    LIST n, DELETE n-m, EDIT n behind an END on the same line (a LIST that ran would print line numbers, a DELETE
           would change the program), ON PEN/STRIG/PLAY/COM GOSUB n, RETURN n
"""

REF_KINDS = ['goto', 'gosub', 'then', 'then_else', 'if_goto', 'else_stmt', 'on_goto', 'on_gosub', 'restore', 'run',
             'resume', 'erl_eq', 'on_error', 'on_error_0', 'on_key', 'on_timer', 'return_n', 'on_other', 'list_delete_edit',
             'missing']


def R(n):
    return ['r', n]


def render(segs, mp=None):
    out = b''
    for s in segs:
        if isinstance(s, (bytes, bytearray)):
            out += bytes(s)
        else:
            n = s[1]
            out += b'%d' % (mp.get(n, n) if mp else n)
    return out


def refs_of(segs):
    return [s[1] for s in segs if not isinstance(s, (bytes, bytearray))]


def gen_numbers(rng, count):
    """Ascending distinct line numbers in 1..~60000 with varied spacing."""
    style = rng.randrange(4)
    if style == 0:
        start, step = rng.choice([(10, 10), (100, 10), (1000, 100), (1, 1), (5, 5)])
        nums = [start + step * i for i in range(count)]
    elif style == 1:
        nums = sorted(rng.sample(range(1, 3000), count))
    elif style == 2:
        nums = sorted(rng.sample(range(1, 60000), count))
    else:
        nums, cur = [], rng.randint(1, 200)
        for _ in range(count):
            nums.append(cur)
            cur += rng.choice([1, 1, 2, 3, 10, 10, 50, 100, 1000])
    if rng.random() < 0.15:
        # a program whose first line is numbered 0 (a legal target; 0 after ON ERROR GOTO is NOT a reference)
        nums = sorted(set([0] + nums[1:]))
    return nums


def gen_program(rng, nlines, mode, count=None):
    """
    mode 'run'  : behaviour = RUN under a step budget
    mode 'trap' : setup part sets the traps and STOPs; behaviour = GOTO <line after STOP> (traps active across RENUM)
    Returns dict(lines=[[n, segs]...], cont=line to continue at (trap mode), missing=[...], kinds=set, handlers={...}).
    """
    def cnt(k):
        if count is not None:
            count(k)

    nlines = max(nlines, 8 if mode == 'trap' else 5)
    # sizes of the parts
    n_sub = rng.choice([0, 1, 2, 3]) if nlines >= 8 else rng.choice([0, 1])
    n_err = rng.choice([0, 1, 2, 3]) if nlines >= 8 else rng.choice([0, 1])
    n_ev = rng.choice([0, 1, 2]) if nlines >= 10 else 0
    n_data = rng.choice([0, 1, 2]) if nlines >= 8 else 0
    n_dead = rng.choice([0, 0, 1, 2, 3]) if nlines >= 12 else 0
    if mode == 'trap':
        n_err = max(n_err, 1)
        n_ev = max(n_ev, 1)
    n_setup = 1 if (n_err or n_ev or mode == 'trap') else 0
    if mode == 'trap':
        n_setup = 2
    n_main = nlines - (n_sub + n_err + n_ev + n_data + n_dead + n_setup) - 1
    if n_main < 2:
        n_main = 2
    total = n_setup + n_main + 1 + n_sub + n_err + n_ev + n_data + n_dead
    nums = gen_numbers(rng, total)
    total = len(nums)
    # handler parts placed in random order after/before main: error/event handlers may come first (before the range)
    parts = []
    order_tail = ['sub'] * n_sub + ['err'] * n_err + ['ev'] * n_ev + ['data'] * n_data + ['dead'] * n_dead
    head_handlers = []
    if rng.random() < 0.35:
        # handlers at low line numbers, reached only through their traps (a GOTO jumps over them)
        head_handlers = [p for p in order_tail if p in ('err', 'ev')]
        order_tail = [p for p in order_tail if p not in ('err', 'ev')]
    roles = []
    if head_handlers:
        roles.append('jump')     # first line: GOTO setup
    roles += head_handlers
    roles += ['setup'] * n_setup + ['main'] * n_main + ['end']
    # group the tail by kind in a random order
    kinds_tail = sorted(set(order_tail), key=lambda k: rng.random())
    for k in kinds_tail:
        roles += [p for p in order_tail if p == k]
    while len(nums) < len(roles):
        nums.append(nums[-1] + rng.choice([1, 10, 100]))
    nums = nums[:len(roles)]
    by_role = {}
    for n, r in zip(nums, roles):
        by_role.setdefault(r, []).append(n)
    mains = by_role.get('main', [])
    subs = by_role.get('sub', [])
    errs = by_role.get('err', [])
    evs = by_role.get('ev', [])
    datas = by_role.get('data', [])
    endline = by_role['end'][0]
    existing = set(nums)
    missing = []

    def miss(zero_ok):
        for _ in range(50):
            c = rng.choice([rng.randint(0, 65529), rng.choice(nums) + 1, rng.choice(nums) - 1, 65529, 1, 7, 0, 0])
            if (1 if not zero_ok else 0) <= c <= 65529 and c not in existing:
                missing.append(c)
                if c == 0:
                    cnt('ref_missing_line_0')
                return c
        missing.append(65000)
        return 65000

    def target(pool, allow_missing=True, zero_ok=True):
        """zero_ok=False where a 0 is not a line reference in GW-BASIC (RESUME 0 = retry, ERL=0 = no error) or not pinned (RETURN 0)."""
        if allow_missing and rng.random() < 0.06:
            cnt('ref_missing')
            return R(miss(zero_ok))
        if zero_ok and 0 in existing and rng.random() < 0.2:
            cnt('ref_to_line_0')
            return R(0)
        if not zero_ok:
            # (also not the first line of the program: RENUM 0 gives it the number 0)
            pool = [p for p in pool if p != 0 and p != nums[0]] or [endline]
        t = rng.choice(pool)
        if t == 0:
            cnt('ref_to_line_0')
        return R(t)

    tagno = [0]

    def tag(prefix=b't'):
        tagno[0] += 1
        return b'PRINT "%s%d;";' % (prefix, tagno[0])

    lines = []
    handlers = {}
    late_on = [None]
    for n, role in zip(nums, roles):
        if role == 'jump':
            segs = [b'GOTO ', R(by_role['setup'][0] if by_role.get('setup') else mains[0])]
            cnt('ref_goto')
        elif role == 'setup':
            first = (n == by_role['setup'][0])
            if mode == 'trap' and not first:
                segs = [b'STOP']
            else:
                segs = []
                if errs:
                    segs += [b'ON ERROR GOTO ', R(errs[0])]
                    handlers['error'] = errs[0]
                    cnt('ref_on_error')
                if evs:
                    # only ONE kind of event is enabled per program: with two kinds pending at the same statement
                    # boundary the order of the two handlers is not determined (and differs between sessions)
                    k = rng.choice([1, 2, 10])
                    use_key = rng.random() < 0.5
                    both = len(evs) > 1 or rng.random() < 0.5
                    # 'late' (trap mode): the trap is DEFINED before the STOP but its event is OFF there (never switched on, or
                    # switched on and off again); the first line after the STOP switches it ON, so RENUM sees a defined, disabled trap
                    late = mode == 'trap' and rng.random() < 0.45
                    if late:
                        cnt('trap_defined_while_off')
                    if use_key or both:
                        segs += [b':' if segs else b'', b'ON KEY(%d) GOSUB ' % k, R(evs[0])]
                        cnt('ref_on_key')
                        if use_key:
                            on = b'KEY(%d) ON' % k
                            if not late:
                                segs += [b':' + on]
                            else:
                                if rng.random() < 0.4:
                                    segs += [b':' + on + b':KEY(%d) OFF' % k]
                                late_on[0] = on
                            handlers['key'] = (k, evs[0])
                    if not use_key or both:
                        segs += [b':' if segs else b'', b'ON TIMER(%d) GOSUB ' % rng.choice([1, 2]), R(evs[-1])]
                        cnt('ref_on_timer')
                        if not use_key:
                            if not late:
                                segs += [b':TIMER ON']
                            else:
                                if rng.random() < 0.4:
                                    segs += [b':TIMER ON:TIMER OFF']
                                late_on[0] = b'TIMER ON'
                            handlers['timer'] = evs[-1]
                if not segs:
                    segs = [b'REM setup']
        elif role == 'main':
            segs = [b'C=C+1:', tag()]
            if late_on[0] and mode == 'trap' and n == mains[0]:
                segs = [late_on[0] + b':'] + segs
            r = rng.random()
            others = [m for m in mains if m != n] or mains
            later = [m for m in mains if m > n] or [endline]
            if r < 0.10:
                pass
            elif r < 0.20:
                segs += [b':IF C>%d THEN ' % rng.randint(8, 40), R(endline)]
                cnt('ref_then')
            elif r < 0.30:
                segs += [b':GOTO ', target(rng.choice([later, others]))]
                cnt('ref_goto')
            elif r < 0.40 and subs:
                segs += [b':GOSUB ', target(subs)]
                cnt('ref_gosub')
            elif r < 0.48:
                segs += [b':IF (C MOD %d)=0 THEN ' % rng.choice([2, 3]), target(others), b' ELSE ', target(later)]
                cnt('ref_then_else')
            elif r < 0.53:
                segs += [b':IF C MOD 2 GOTO ', target(later)]
                cnt('ref_if_goto')
            elif r < 0.58:
                segs += [b':IF C<%d THEN PRINT "y;"; ELSE ' % rng.randint(3, 30), target(later)]
                cnt('ref_else_stmt')
            elif r < 0.66:
                k = rng.randint(2, 4)
                segs += [b':ON (C MOD %d)+1 GOTO ' % k]
                for i in range(k):
                    segs += [b',' if i else b'', target(others if rng.random() < 0.3 else later)]
                cnt('ref_on_goto')
            elif r < 0.72 and subs:
                k = rng.randint(1, 3)
                segs += [b':ON (C MOD %d)+1 GOSUB ' % k]
                for i in range(k):
                    segs += [b',' if i else b'', target(subs)]
                cnt('ref_on_gosub')
            elif r < 0.79 and datas:
                segs += [b':RESTORE ', target(datas), b':READ A$:PRINT A$;']
                cnt('ref_restore')
            elif r < 0.86:
                segs += [b':ERROR %d' % rng.choice([5, 11, 200, 6])]
                cnt('error_stmt')
            elif r < 0.89:
                segs += [b':IF C>%d THEN RUN ' % rng.randint(2, 12), target(mains)]
                cnt('ref_run')
            elif r < 0.93:
                # decoys: the same digits as an existing line number, but not references
                d = rng.choice(nums)
                segs += [b':X=%d:PRINT "%d";:REM GOTO %d' % (d % 32768, d, d)]
                cnt('decoy')
            elif r < 0.96:
                segs += [b':ON ERROR GOTO 0']
                cnt('ref_on_error_0')
            else:
                segs += [b':IF C>%d THEN END' % rng.randint(2, 30)]
        elif role == 'end':
            segs = [b'PRINT "end;":END']
        elif role == 'sub':
            segs = [tag(b's')]
            if n == subs[-1] or rng.random() < 0.6:
                if rng.random() < 0.15 and mains:
                    segs += [b':RETURN ', target(mains, True, False)]
                    cnt('ref_return_n')
                else:
                    segs += [b':RETURN']
            elif rng.random() < 0.3:
                segs += [b':IF C>3 THEN RETURN ELSE ', target(subs)]
                cnt('ref_then_else')
        elif role == 'err':
            segs = [tag(b'e'), b':PRINT ERR;']
            last = (n == errs[-1])
            r = rng.random()
            if not last and r < 0.6:
                segs += [b':IF ERL=', target(mains, False, False), b' THEN PRINT "L;"; ELSE PRINT "N;";']
                cnt('ref_erl_eq')
            elif not last:
                segs += [b':IF ERL=', target(mains, False, False), b' OR ERL=', target(mains, False, False), b' THEN RESUME ', target(mains, True, False)]
                cnt('ref_erl_eq')
                cnt('ref_resume')
            if last:
                r = rng.random()
                if r < 0.45:
                    segs += [b':RESUME ', target(mains, True, False)]
                    cnt('ref_resume')
                elif r < 0.85:
                    segs += [b':RESUME NEXT']
                else:
                    segs += [b':IF C>20 THEN RESUME NEXT ELSE C=C+5:RESUME']
        elif role == 'ev':
            segs = [tag(b'k')]
            if n == evs[-1] or rng.random() < 0.7:
                segs += [b':RETURN']
        elif role == 'data':
            segs = [b'DATA "d%d;",%d,x' % (n % 97, rng.choice(nums))]
        else:  # dead
            r = rng.random()
            if r < 0.25:
                segs = [b'END:LIST ', target(nums), b'-', target(nums)]
                cnt('ref_list_delete_edit')
            elif r < 0.45:
                segs = [b'END:DELETE ', target(nums), b'-', target(nums)]
                cnt('ref_list_delete_edit')
            elif r < 0.55:
                segs = [b'END:EDIT ', target(nums)]
                cnt('ref_list_delete_edit')
            elif r < 0.85:
                what = rng.choice([b'PEN', b'STRIG(0)', b'PLAY(3)', b'COM(1)'])
                segs = [b'ON ' + what + b' GOSUB ', target(subs or nums)]
                cnt('ref_on_other')
            else:
                segs = [b'RETURN ', target(nums, True, False), b':REM dead']
                cnt('ref_return_n')
        lines.append([n, segs])
    cont = None
    if mode == 'trap':
        cont = mains[0]
    return {'lines': lines, 'cont': cont, 'missing': sorted(set(missing)), 'handlers': handlers,
            'roles': dict((n, r) for n, r in zip(nums, roles))}


def gen_renum_args(rng, prog):
    """RENUM arguments (new, old, inc), None = omitted; aimed so that roughly half are acceptable."""
    nums = [l[0] for l in prog['lines']]
    hs = []
    h = prog.get('handlers', {})
    if 'error' in h:
        hs.append(h['error'])
    if 'key' in h:
        hs.append(h['key'][1])
    if 'timer' in h:
        hs.append(h['timer'])
    r = rng.random()
    if r < 0.25:
        old = None
    elif r < 0.55 and hs:
        # start just before / at / just after a handler line: handlers before, inside and after the range
        hline = rng.choice(hs)
        i = nums.index(hline)
        old = nums[min(len(nums) - 1, max(0, i + rng.choice([-1, 0, 1, 2])))]
        if rng.random() < 0.3:
            old += rng.choice([-1, 1])
    elif r < 0.9:
        old = rng.choice(nums)
    else:
        old = rng.choice([0, 0, 1, 65529, rng.randint(0, 65529)])
    old_eff = old or 0
    below = [n for n in nums if n < old_eff]
    k = len([n for n in nums if n >= old_eff])
    inc = rng.choice([None, None, 1, 1, 2, 5, 10, 100, 1000, rng.randint(1, 2000), 65529])
    # explicit boundary values in every position: 0 is a number in its own right (not "omitted"), 1, 65529
    cands = [None, 10, 100, 1000, 5000, 30000, rng.randint(1, 65529), 0, 0, 1, 65529]
    if below:
        cands += [max(below) + 1, max(below) + rng.randint(1, 500), max(below), max(below) - 1, min(below)]
    if k:
        top = 65529 - (inc or 10) * (k - 1)
        cands += [top, top + 1, top - rng.randint(0, 500)]
    new = rng.choice(cands)
    if new is not None:
        new = max(0, min(65529, new))
    if old is not None:
        old = max(0, min(65529, old))
    if rng.random() < 0.04:
        inc = 0
    return [new, old, inc]
