"""
Progress watch for the values-level loops of C03..C06: a primitive that does not return
(e.g. a normalisation loop that never terminates) would otherwise only trip the runner's
wall-clock watchdog (=> inconclusive). The watch uses the process's own CPU-time timer
(ITIMER_VIRTUAL - immune to a busy machine): if a whole period passes without the current
case changing, Hang is raised inside the stuck call; the check reports it as a violation
('hang:<operation>': no result within <limit> CPU-seconds is not a result within the
property's bounds) and ends the shard.
"""
import signal


class Hang(BaseException):
    pass


class Watch(object):

    def __init__(self, limit=15.0):
        self.cur = None
        self._seen = object()
        self.limit = limit
        signal.signal(signal.SIGVTALRM, self._fire)
        signal.setitimer(signal.ITIMER_VIRTUAL, limit, limit)

    def _fire(self, sig, frame):
        if self.cur is not None and self.cur is self._seen:
            raise Hang()
        self._seen = self.cur

    def stop(self):
        signal.setitimer(signal.ITIMER_VIRTUAL, 0, 0)


def guarded_run(res, fn, *args):
    """run fn(watch, *args); a Hang becomes a violation keyed by the operation being evaluated"""
    w = Watch()
    try:
        fn(w, *args)
    except Hang:
        cur = w.cur
        w.stop()
        op = cur[0] if isinstance(cur, (tuple, list)) and cur else '?'
        res.violation('hang:%s' % (op,), 'no result within %d CPU-seconds (call did not return) for case %r' % (
            2 * w.limit, tuple(x.hex() if isinstance(x, bytes) else x for x in cur)), list(cur))
    finally:
        w.stop()
