"""
Seeded generators of MBF operand patterns and operand pairs (C04, C05, C06).

A pattern is the raw encoding (bytes of length 4 or 8; 2 for Integer). Every generator takes
a random.Random, so a case is replayable from (seed, shard spec). boundary_values() is
seed-independent (the directed core).
"""
from ..models.c03_mbf import pack, BITS

# exponent bytes of the directed table: both range ends, around 1.0, the distances that matter
# for alignment shifts, and a few in the lower quarter of the range
BOUNDARY_EXPS = [1, 2, 3, 17, 33, 64, 65, 96, 97, 126, 127, 128, 129, 130, 137, 152, 153, 160, 184, 185, 192, 224, 253, 254, 255]


def special_mants(n):
    f = BITS[n] - 1
    full = (1 << f) - 1
    return [0, 1, full, full - 1, 1 << (f - 1), (1 << (f - 1)) + 1, (1 << (f - 1)) - 1,
            full // 3, (full // 3) * 2, 0x80, 0x7f, 0x100, 0xff, 0x180]


def noncanonical_zeros(n):
    """zero encodings: exponent byte 0 with arbitrary mantissa/sign bytes"""
    f = BITS[n] - 1
    return [pack(n, 0, 0, False), pack(n, 0, 0, True), pack(n, 0, (1 << f) - 1, False),
            pack(n, 0, 1, True), pack(n, 0, 0x2aaaaa, False), pack(n, 0, 1 << (f - 1), True)]


def boundary_values(n, small=False):
    exps = BOUNDARY_EXPS if not small else [1, 2, 64, 127, 128, 129, 152, 192, 254, 255]
    mants = special_mants(n)[:9] if not small else special_mants(n)[:5]
    out = []
    for e in exps:
        for m in mants:
            for neg in (False, True):
                out.append(pack(n, e, m, neg))
    out.extend(noncanonical_zeros(n)[:4])
    return out


def rbytes(rng, n):
    return rng.getrandbits(8 * n).to_bytes(n, 'little')


def rmant(rng, n):
    """random stored-mantissa field with a mix of shapes (dense, sparse, runs of ones, low-byte patterns)"""
    f = BITS[n] - 1
    r = rng.random()
    if r < 0.45:
        return rng.getrandbits(f)
    if r < 0.55:
        return rng.choice(special_mants(n))
    if r < 0.65:
        # few bits set
        m = 0
        for _ in range(rng.randint(1, 3)):
            m |= 1 << rng.randrange(f)
        return m
    if r < 0.75:
        # all ones except a few
        m = (1 << f) - 1
        for _ in range(rng.randint(0, 2)):
            m &= ~(1 << rng.randrange(f))
        return m
    if r < 0.9:
        # random high part, structured low byte/bits
        hi = rng.getrandbits(f) & ~0x1ff
        return hi | rng.choice((0, 1, 0x7f, 0x80, 0x81, 0xff, 0x100, 0x101, 0x17f, 0x180, 0x181, 0x1ff, 0x40, 0xc0, 0x1c0))
    # short mantissa (value with few significant bits)
    keep = rng.randint(1, min(f, 16))
    return rng.getrandbits(keep) << (f - keep)


def rfloat(rng, n, e=None, neg=None):
    if e is None:
        e = rng.randint(1, 255)
    if neg is None:
        neg = rng.random() < 0.5
    return pack(n, max(0, min(255, e)), rmant(rng, n), neg)


def rzero(rng, n):
    if rng.random() < 0.4:
        return b'\0' * n
    return rbytes(rng, n)[:-1] + b'\0'


PAIR_CLASSES = ['uniform', 'equal_exp', 'exp_diff', 'near_cancel', 'cancel_adjacent', 'extreme',
                'prod_edge', 'quot_edge', 'zeros', 'special_mant', 'mid']


def pair(rng, n, cls):
    bits = BITS[n]
    if cls == 'uniform':
        return rbytes(rng, n), rbytes(rng, n)
    if cls == 'equal_exp':
        e = rng.randint(1, 255)
        return rfloat(rng, n, e), rfloat(rng, n, e)
    if cls == 'exp_diff':
        d = rng.choice((1, 1, 2, 3, 7, 8, 9, bits - 9, bits - 8, bits - 2, bits - 1, bits, bits + 1, bits + 6, bits + 7,
                        bits + 8, bits + 9, rng.randint(1, bits + 12)))
        e = rng.randint(1 + d, 255)
        a, b = rfloat(rng, n, e), rfloat(rng, n, e - d)
        return (a, b) if rng.random() < 0.5 else (b, a)
    if cls == 'near_cancel':
        e = rng.randint(1, 255)
        m = rmant(rng, n)
        f = bits - 1
        m2 = (m + rng.choice((-1, 1)) * rng.choice((0, 1, 1, 2, 3, 4, 7, 8, 0x80, 0x100, 1 << rng.randrange(f)))) % (1 << f)
        neg = rng.random() < 0.5
        return pack(n, e, m, neg), pack(n, e, m2, (not neg) if rng.random() < 0.7 else neg)
    if cls == 'cancel_adjacent':
        # 1.000x * 2^e  against  0.111x * 2^e : massive cancellation across a binade border
        e = rng.randint(2, 255)
        f = bits - 1
        lo_m = rng.choice((0, 1, 2, 3, rng.getrandbits(8), rng.getrandbits(f) >> rng.randint(0, f)))
        hi_m = ((1 << f) - 1) - rng.choice((0, 1, 2, 3, rng.getrandbits(8), rng.getrandbits(f) >> rng.randint(0, f)))
        neg = rng.random() < 0.5
        a, b = pack(n, e, lo_m, neg), pack(n, e - 1, hi_m, (not neg) if rng.random() < 0.7 else neg)
        return (a, b) if rng.random() < 0.5 else (b, a)
    if cls == 'extreme':
        ex = (1, 1, 2, 3, 253, 254, 255, 255)
        a = rfloat(rng, n, rng.choice(ex))
        b = rfloat(rng, n, rng.choice(ex)) if rng.random() < 0.6 else rfloat(rng, n)
        return (a, b) if rng.random() < 0.5 else (b, a)
    if cls == 'prod_edge':
        # exponent sum aimed at both ends of the range (result exponent ea+eb-128 or one less)
        s = rng.choice((125, 126, 127, 128, 129, 130, 131, 132, 381, 382, 383, 384, 385, 386))
        ea = rng.randint(max(1, s - 255), min(255, s - 1))
        return rfloat(rng, n, ea), rfloat(rng, n, s - ea)
    if cls == 'quot_edge':
        d = rng.choice((-131, -130, -129, -128, -127, -126, -125, 124, 125, 126, 127, 128, 129, 130))
        ea = rng.randint(max(1, 1 + d), min(255, 255 + d))
        return rfloat(rng, n, ea), rfloat(rng, n, ea - d)
    if cls == 'zeros':
        a = rzero(rng, n)
        r = rng.random()
        b = rzero(rng, n) if r < 0.2 else (rfloat(rng, n, rng.choice((1, 2, 128, 129, 254, 255))) if r < 0.5 else rfloat(rng, n))
        return (a, b) if rng.random() < 0.5 else (b, a)
    if cls == 'special_mant':
        sm = special_mants(n)
        e = rng.randint(1, 255)
        e2 = max(1, min(255, e + rng.randint(-3, 3)))
        return pack(n, e, rng.choice(sm), rng.random() < 0.5), pack(n, e2, rng.choice(sm), rng.random() < 0.5)
    if cls == 'mid':
        return rfloat(rng, n, rng.randint(100, 160)), rfloat(rng, n, rng.randint(100, 160))
    raise ValueError(cls)


def rinteger(rng):
    r = rng.random()
    if r < 0.6:
        v = rng.randint(-32768, 32767)
    elif r < 0.8:
        v = rng.choice((0, 1, -1, 2, -2, 32767, -32768, 32766, -32767, 255, 256, -256, 16384, -16384))
    else:
        v = rng.choice((1, -1)) * (1 << rng.randrange(15)) + rng.randint(-2, 2)
        v = max(-32768, min(32767, v))
    return (v & 0xffff).to_bytes(2, 'little')


def rvalue(rng, n):
    """one operand of size n from a mix of classes"""
    if n == 2:
        return rinteger(rng)
    r = rng.random()
    if r < 0.25:
        return rbytes(rng, n)
    if r < 0.3:
        return rzero(rng, n)
    if r < 0.6:
        return rfloat(rng, n, rng.randint(100, 160))
    if r < 0.7:
        return rfloat(rng, n, rng.choice((1, 2, 3, 253, 254, 255)))
    if r < 0.85:
        # integral / small-integer-like values (comparable with Integers)
        from ..models.c03_mbf import from_int
        v = rng.randint(-40000, 40000) if rng.random() < 0.7 else rng.choice((0, 1, -1, 32767, -32768, 32768, -32769))
        return from_int(v, n)
    return rfloat(rng, n)


# ---------------------------------------------------------------------------------------------
# comparison-oriented pairs (C06)

def step(b, delta):
    """the encoding delta representable steps away in magnitude (same sign); None beyond the range ends"""
    n = len(b)
    if n == 2:
        v = int.from_bytes(b, 'little', signed=True) + delta
        if not (-32768 <= v <= 32767):
            return None
        return (v & 0xffff).to_bytes(2, 'little')
    bits = BITS[n]
    f = bits - 1
    raw = int.from_bytes(b[:-1], 'little')
    neg = bool(raw >> f)
    mag = (b[-1] << f) | (raw & ((1 << f) - 1))
    mag += delta
    e, m = mag >> f, mag & ((1 << f) - 1)
    if not (1 <= e <= 255):
        return None
    return pack(n, e, m, neg)


def flip_sign(b):
    n = len(b)
    if n == 2:
        v = -int.from_bytes(b, 'little', signed=True)
        if v > 32767:
            return None
        return (v & 0xffff).to_bytes(2, 'little')
    return b[:-2] + bytes((b[-2] ^ 0x80,)) + b[-1:]


def exact_in(b, n2):
    """b's value encoded exactly in size n2, or None if not representable"""
    from ..models import c03_mbf as mbf
    n = len(b)
    if n == n2:
        return b
    s, m, k = mbf.parts(b)
    if s == 0:
        return b'\0' * n2
    if n2 == 2:
        if not mbf.is_integral(b):
            return None
        v = mbf.trunc_int(b)
        if not (-32768 <= v <= 32767):
            return None
        return (v & 0xffff).to_bytes(2, 'little')
    if n == 2:
        return mbf.from_int(s * m, n2)
    if n == 4:
        return mbf.widen(b)
    # double -> single
    if m & 0xffffffff:
        return None
    return pack(4, b[-1], (m >> 32) & 0x7fffff, s < 0)


CMP_CLASSES = ['identical', 'adjacent', 'opposite', 'zeros', 'random', 'same_exp', 'mixed_exact', 'mixed_inexact',
               'byte_border']


def cmp_pair(rng, na, nb, cls):
    """pair (a of size na, b of size nb) for the comparison check; falls back to random when a class is impossible"""
    a = rvalue(rng, na)
    if cls == 'random':
        return a, rvalue(rng, nb)
    if cls == 'zeros':
        za = rzero(rng, na) if na != 2 else b'\0\0'
        r = rng.random()
        if r < 0.4:
            b = rzero(rng, nb) if nb != 2 else b'\0\0'
        elif r < 0.7 and nb != 2:
            b = rfloat(rng, nb, rng.choice((1, 1, 2, 3)))
        else:
            b = rvalue(rng, nb)
        return (za, b) if (rng.random() < 0.5 or na != nb) else (b, za)
    if cls == 'same_exp' and na != 2 and nb != 2:
        e = rng.randint(1, 255)
        neg = rng.random() < 0.5
        return rfloat(rng, na, e, neg), rfloat(rng, nb, e, neg if rng.random() < 0.8 else not neg)
    if cls == 'byte_border' and na != 2:
        # mantissas that differ only in one byte position, or carry across a byte border
        f = BITS[na] - 1
        pos = 8 * rng.randrange(f // 8)
        base = rng.getrandbits(f) & ~(0xff << pos)
        m1 = base | (rng.choice((0, 1, 0x7f, 0x80, 0xff)) << pos)
        m2 = (m1 + rng.choice((-1, 1)) * (1 << pos) * rng.choice((1, 1, 0x7f, 0x80))) % (1 << f)
        e = rng.randint(1, 255)
        neg = rng.random() < 0.5
        a = pack(na, e, m1, neg)
        b2 = pack(na, e if rng.random() < 0.8 else max(1, min(255, e + rng.choice((-1, 1)))), m2, neg)
        b = exact_in(b2, nb)
        if b is None:
            b = rvalue(rng, nb)
        return a, b
    # classes built from a value of the WIDER type moved into the other
    wide = max(na, nb)
    w = rvalue(rng, wide)
    if cls == 'mixed_inexact' and na != nb:
        # the wide value is NOT representable in the narrow type: its narrow neighbours must order strictly
        narrow = min(na, nb)
        if narrow == 2:
            from ..models import c03_mbf as mbf
            v = rng.randint(-32768, 32767)
            near = mbf.from_int(v, wide)
            w = step(near, rng.choice((-2, -1, 1, 2))) if v else rfloat(rng, wide, rng.choice((1, 100, 127, 128)))
            nar = (v & 0xffff).to_bytes(2, 'little')
        else:
            s = rfloat(rng, 4)
            from ..models import c03_mbf as mbf
            w = step(mbf.widen(s), rng.choice((-1, 1)) * rng.choice((1, 2, 0xffffffff, 0x80000000, 0x100, 0x1000000)))
            nar = s
        if w is None:
            w = rvalue(rng, wide)
        return (nar, w) if na < nb else (w, nar)
    if cls == 'opposite':
        w2 = flip_sign(w)
    elif cls == 'adjacent':
        w2 = step(w, rng.choice((-1, 1, -1, 1, -2, 2)))
    else:   # identical / mixed_exact
        w2 = w
    if w2 is None:
        w2 = w
    a2, b2 = exact_in(w, na), exact_in(w2, nb)
    if a2 is None or b2 is None:
        # make the wide value representable in the narrow type: take a narrow value and widen it
        narrow = min(na, nb)
        v = rvalue(rng, narrow)
        v2 = v
        if cls == 'opposite':
            v2 = flip_sign(v) or v
        elif cls == 'adjacent':
            v2 = step(v, rng.choice((-1, 1))) or v
        a2, b2 = exact_in(v, na), exact_in(v2, nb)
    return a2, b2
