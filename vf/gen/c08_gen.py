"""
Seeded generators for C08: PRINT USING numeric fields (as vf.models.c08_using.NumField), numbers
aimed at a field, string fields and strings. Directed tables are seed-independent.
"""
from fractions import Fraction

from ..models.c08_using import NumField, StrField
from . import c07_gen

MAXPOS = 24


def num_field(rng, maxpos=MAXPOS):
    """A well-formed numeric field with at most maxpos digit positions (counted as the manual counts them)."""
    while True:
        plus_lead = rng.random() < 0.18
        prefix = rng.choice(('', '', '', '', '', '$$', '**', '**$'))
        expo = rng.random() < 0.25
        # digit positions = positions that can hold a digit: $$ gives 1 (the other is the $), ** 2, **$ 2
        budget = maxpos - {'': 0, '$$': 1, '**': 2, '**$': 2}[prefix]
        t = rng.random()
        if t < 0.6:
            total = rng.randint(1, min(budget, 10))
        elif t < 0.9:
            total = rng.randint(1, budget)
        else:
            total = budget
        dot = rng.random() < 0.6
        decimals = rng.randint(0, total) if dot else 0
        if dot and rng.random() < 0.5:
            decimals = min(decimals, rng.randint(0, 4))
        nint = total - decimals
        ipos = '#' * nint
        if nint >= 2 and rng.random() < 0.3:
            chars = list(ipos)
            for _ in range(rng.randint(1, 2)):
                k = rng.randint(1, len(chars) - 1)
                chars[k] = ','
            # a comma as the very last character of a field without point is ambiguous (literal?): avoid
            if not dot and chars[-1] == ',':
                chars[-1] = '#'
            ipos = ''.join(chars)
        if nint + decimals == 0 or '#' not in (ipos + '#' * decimals):
            continue
        trail = ''
        if not plus_lead and rng.random() < 0.3:
            trail = rng.choice('+-')
        f = NumField(plus_lead, prefix, ipos, dot, decimals, expo, trail)
        if expo:
            signspec = plus_lead or trail
            if max(0, f.positions_before - (0 if signspec else 1)) + decimals == 0:
                continue
        return f


def value_for(rng, field):
    """A number (bytes of an Integer, Single or Double) for the field: mostly of a magnitude around its capacity."""
    r = rng.random()
    if r < 0.12:
        i = rng.choice((0, 1, -1, 9, 10, 99, 100, 999, 1000, 9999, 10000, 32767, -32768, 12345, -999, -1000)) \
            if rng.random() < 0.4 else rng.randint(-32768, 32767)
        return (i & 0xffff).to_bytes(2, 'little')
    n = 4 if rng.random() < 0.6 else 8
    sig = 7 if n == 4 else 16
    cap = len(field.ipos) + {'': 0, '$$': 1, '**': 2, '**$': 2}[field.prefix]
    sign = -1 if rng.random() < 0.3 else 1
    if r < 0.22:
        return c07_gen.pattern(rng) if rng.random() < 0.8 else b'\0' * n
    if r < 0.40 and not field.expo:
        # exact ties at the field's last place: odd / 2^(d+1), representable when small enough
        d = field.decimals
        if d + 1 < (20 if n == 4 else 50):
            top = min(10 ** max(cap, 1), 1 << ((24 if n == 4 else 56) - d - 2))
            k = 2 * rng.randint(0, max(1, top * (1 << d) - 1)) + 1
            b = c07_gen.encode_floor(Fraction(sign * k, 1 << (d + 1)), n)
            if b is not None:
                return b
    if r < 0.55:
        # just below / at / above a power of ten near the capacity (rounding carries into a new digit)
        k = rng.randint(-2, max(0, cap) + 1) if not field.expo else rng.randint(-20, 20)
        nd = rng.randint(1, sig)
        base = Fraction(10) ** k
        delta = Fraction(rng.choice((0, 1, 4, 5, 6, 9)), 10 ** nd) * base
        v = base - delta if rng.random() < 0.8 else base + delta
        b = c07_gen.encode_floor(sign * v, n)
        if b is not None:
            if rng.random() < 0.4:
                b = c07_gen.step(b, rng.choice((-1, 1, 2))) or b
            return b
    # a decimal with few or many digits, magnitude around the capacity of the field (sometimes far off)
    nd = rng.randint(1, sig)
    m = rng.randint(1, 10 ** nd - 1)
    if rng.random() < 0.8 and not field.expo:
        k = rng.randint(-field.decimals - 2, max(0, cap) + 1) - nd
    else:
        k = rng.randint(-38, 37) - nd
    b = c07_gen.encode_floor(Fraction(sign * m) * Fraction(10) ** k, n)
    if b is None:
        b = c07_gen.encode_floor(Fraction(sign * m), n)
    return b


def directed_fields():
    F = NumField
    out = []
    for ipos in ('#', '###', '#,###', '##,###,###', '###,', '#' * 20):
        for dot, dec in ((False, 0), (True, 0), (True, 2), (True, 4)):
            if ipos.endswith(',') and not dot:
                continue
            for prefix in ('', '$$', '**', '**$'):
                if len(ipos) + {'': 0, '$$': 1, '**': 2, '**$': 2}[prefix] + dec > MAXPOS:
                    continue
                out.append(F(False, prefix, ipos, dot, dec, False, ''))
                out.append(F(True, prefix, ipos, dot, dec, False, ''))
                out.append(F(False, prefix, ipos, dot, dec, False, '-'))
                out.append(F(False, prefix, ipos, dot, dec, False, '+'))
    for dec in (1, 2, 3, 7, 10, 24):
        out.append(F(False, '', '', True, dec, False, ''))
        out.append(F(True, '', '', True, dec, False, ''))
    out.append(F(False, '', '#' * 24, False, 0, False, ''))
    out.append(F(False, '', '#' * 12, True, 12, False, ''))
    out.append(F(False, '', '#' * 17, True, 7, False, ''))
    for ipos in ('#', '##', '#####'):
        for dot, dec in ((False, 0), (True, 0), (True, 2), (True, 6), (True, 15)):
            for prefix in ('', '**'):
                for pl, tr in ((False, ''), (True, ''), (False, '-'), (False, '+')):
                    f = F(pl, prefix, ipos, dot, dec, True, tr)
                    if max(0, f.positions_before - (0 if (pl or tr) else 1)) + dec > 0:
                        out.append(f)
    out.append(F(True, '', '', True, 3, True, ''))
    out.append(F(False, '', '', True, 3, True, '-'))
    # $ with exponential form (only what the statement pins is judged there)
    for prefix in ('$$', '**$'):
        for ipos in ('#', '##', '#####'):
            for dot, dec in ((False, 0), (True, 0), (True, 2), (True, 6)):
                for pl, tr in ((False, ''), (True, ''), (False, '-')):
                    out.append(F(pl, prefix, ipos, dot, dec, True, tr))
    # exactly 24 digit positions with every prefix ($$ holds 1 digit, ** 2, **$ 2): must be accepted
    for prefix, extra in (('', 0), ('$$', 1), ('**', 2), ('**$', 2)):
        n = MAXPOS - extra
        out.append(F(False, prefix, '#' * n, False, 0, False, ''))
        out.append(F(False, prefix, '#' * (n - 10), True, 10, False, ''))
        out.append(F(True, prefix, '#' * (n - 2), True, 2, False, ''))
        out.append(F(False, prefix, '#' * (n - 4), True, 4, True, '-'))
    return out


def directed_values():
    """Numbers (bytes) tried against every directed field."""
    vals = [0, 1, -1, 9, 10, 99, 999, 1000, 1234, 9999, 99999, 1234567, -1234567, 32767, -32768,
            Fraction(1, 2), Fraction(-1, 2), Fraction(5, 2), Fraction(1, 4), Fraction(1, 8),
            Fraction(999, 1000), Fraction(9995, 10000), Fraction(99951, 100), Fraction(-99951, 100), Fraction(1, 1000),
            Fraction(-1, 1000), Fraction(49, 100), Fraction(6, 100), Fraction(-4, 100), Fraction(12345678, 1000),
            Fraction(9999995, 10), Fraction(10) ** 10, -Fraction(10) ** 20, Fraction(1, 10 ** 10),
            Fraction(123456789012345, 100), Fraction(10) ** 37, Fraction(1, 10 ** 37)]
    out = []
    for v in vals:
        if isinstance(v, int) and -32768 <= v <= 32767:
            out.append((v & 0xffff).to_bytes(2, 'little'))
        for n in (4, 8):
            b = c07_gen.encode_floor(v, n)
            if b is not None and b not in out:
                if n == 4 or not isinstance(v, int) or abs(v) > 32767 or v in (0, 999, -1):
                    out.append(b)
    # just below a power of ten in double precision (rounding up into a new digit at full precision)
    for h in ('feffffffffff7f80', 'feffffffffff1f84', 'fdffffffffff4787', 'ffffffffffff7f80'):
        out.append(bytes.fromhex(h))
    return out


# ---------------------------------------------------------------------------------------------------
# strings

def str_field(rng):
    r = rng.random()
    if r < 0.2:
        return StrField('!')
    if r < 0.4:
        return StrField('&')
    t = rng.random()
    inner = rng.randint(0, 6) if t < 0.6 else (rng.randint(0, 60) if t < 0.9 else rng.randint(60, 249))
    return StrField('\\', inner)


# bytes that neither move the cursor nor end a line nor are rewritten by a text file
STRING_BYTES = bytes(range(0x20, 0x100))


def string_value(rng, field):
    t = rng.random()
    if t < 0.08:
        ln = 0
    elif t < 0.5:
        ln = rng.randint(1, 12)
    elif t < 0.9:
        ln = rng.randint(0, 255)
    else:
        ln = rng.choice((1, 2, 254, 255, field.inner + 1, field.inner + 2, field.inner + 3)) if field.kind == '\\' else 255
    ln = max(0, min(255, ln))
    if rng.random() < 0.5:
        return bytes(rng.choice(b'abcXYZ 019.,-+#$%&!\\_^*') for _ in range(ln))
    return bytes(rng.choice(STRING_BYTES) for _ in range(ln))
