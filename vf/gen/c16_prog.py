"""
C16: generator of programs that carry TAINT MARKERS, and of direct-mode statement lines.

A marker is a random 8-letter upper-case word that occurs ONLY inside REM text, trailing ' comments
and DATA items that the program never READs.  No execution of the program can emit it, so any
4 consecutive marker bytes showing up in an output stream, a file, a variable or on the screen after
a direct-mode statement is a disclosure of program text.

Everything else the program prints is lower case / digits / punctuation, and markers are rejected
if one of their 4-grams occurs in a BASIC keyword, an error message, a file name used by the check
or the program's own remaining text - so chance matches cannot happen in text channels.
"""
import string

UPPER = string.ascii_uppercase

# names used by the check inside the sandbox (all upper case: they are echoed by FILES etc.)
FILENAMES = ['PROT', 'OTHER', 'OTHERA', 'FLAG', 'SVB', 'SVA', 'SVP', 'LST', 'MEM', 'TMP', 'DAT', 'BAS', 'ASC', 'BIN',
             'TXT', 'SCRN', 'LPT1', 'KYBD', 'CAS1', 'COM1', 'PCBASIC', 'PC-BASIC', 'BYTES', 'FREE', 'DIR', 'TMQ', 'AGAIN', 'SVC',
             'SVD', 'ZZ', 'ALL']


def grams(word, n=4):
    return set(word[i:i + n] for i in range(len(word) - n + 1))


def stop_grams(extra_words=()):
    from .. import harness  # noqa: F401  (sys.path)
    from pcbasic.basic.base import tokens as tk
    words = set()
    for kw in tk.KEYWORDS.values():
        words.add(kw.decode('latin-1').upper())
    words.add('NOISE')
    words.add('TERM')
    for msg in harness.ERRMSG:
        words.add(msg.decode('latin-1').upper())
    for w in FILENAMES:
        words.add(w)
    for w in extra_words:
        words.add(w.upper())
    g = set()
    for w in words:
        for part in w.replace('$', ' ').replace('(', ' ').split():
            g |= grams(part)
    return g


class MarkerMaker(object):
    def __init__(self, rng, stop):
        self.rng = rng
        self.stop = stop
        self.used = set()

    def new(self, alphabet=UPPER):
        while True:
            m = ''.join(self.rng.choice(alphabet) for _ in range(8))
            gs = grams(m)
            if gs & self.stop or gs & self.used:
                continue
            if len(gs) < 5:
                continue
            self.used |= gs
            return m


LOWWORDS = ['alpha', 'beta', 'gamma', 'delta', 'omega', 'sum', 'tag', 'loop', 'val', 'str', 'x1', 'y2', 'zz9']


def make_program(rng, stop, handler=None, synerr=False, nblocks=None):
    """
    -> dict(lines=[bytes], markers=[str], handler_active_at_end=bool, sub_line=8000, lines_with_numbers=[int])
    handler: None (no ON ERROR), 'stays' (still active after END), 'cleared' (ON ERROR GOTO 0 before END)
    """
    mm = MarkerMaker(rng, stop)
    markers = []
    data_markers = []

    # DATA markers and text markers use disjoint halves of the alphabet: DATA items printed next to each other
    # (READ A$,B$:PRINT A$;B$) form new 4-grams across the seam, which must never look like a text marker
    def mk(alphabet=UPPER[13:]):
        m = mm.new(alphabet)
        markers.append(m)
        return m

    lines = []
    n = [10]

    def add(text):
        lines.append((n[0], text))
        n[0] += rng.choice([5, 10, 10, 20])

    add('REM %s %s' % (mk(), rng.choice(LOWWORDS)))
    if handler:
        add('ON ERROR GOTO 9000')
    used_data = []
    nblocks = nblocks or rng.randint(4, 9)
    tagno = [0]

    def tag():
        tagno[0] += 1
        return 't%d' % tagno[0]

    def comment():
        r = rng.random()
        if r < 0.3:
            return " '%s" % mk()
        if r < 0.45:
            return ':REM %s %s' % (rng.choice(LOWWORDS), mk())
        return ''

    for _ in range(nblocks):
        r = rng.random()
        if r < 0.2:
            a, b, c = rng.randint(1, 50), rng.randint(1, 9), rng.randint(1, 9)
            add('PRINT "%s";%d+%d*%d;%d\\%d%s' % (tag(), a, b, c, a, b, comment()))
        elif r < 0.35:
            k = rng.randint(2, 5)
            add('S=0:FOR I=1 TO %d:S=S+I*%d:NEXT:PRINT "%s";S%s' % (k, rng.randint(1, 7), tag(), comment()))
        elif r < 0.45:
            add('GOSUB 8000%s' % comment())
        elif r < 0.6:
            w = rng.choice(LOWWORDS)
            add('A$="%s":B$=A$+"%d":PRINT "%s";LEN(B$);MID$(B$,2,2)%s' % (w, rng.randint(0, 99), tag(), comment()))
        elif r < 0.72:
            k = rng.randint(1, 3)
            items = []
            names = []
            for j in range(k):
                if rng.random() < 0.5:
                    v = '%d' % rng.randint(0, 999)
                    names.append('D%d' % j)
                else:
                    v = rng.choice(LOWWORDS)
                    names.append('D%d$' % j)
                items.append(v)
            used_data.append(items)
            add('READ %s:PRINT "%s";%s%s' % (','.join(names), tag(), ';'.join(names), comment()))
        elif r < 0.8:
            add('W=0:WHILE W<%d:W=W+1:WEND:PRINT "%s";W%s' % (rng.randint(1, 4), tag(), comment()))
        elif r < 0.88:
            add('IF %d>%d THEN PRINT "%s";1 ELSE PRINT "%s";0' % (rng.randint(0, 9), rng.randint(0, 9), tag(), tag()))
        elif r < 0.94 and handler:
            add('E%%=1\\0:PRINT "%s"%s' % (tag(), comment()))
        else:
            add('REM %s %s' % (rng.choice(LOWWORDS), mk()))
    # used DATA first (program order decides what READ sees), then the never-read marker DATA
    for items in used_data:
        add('DATA %s' % ','.join(items))
    for _ in range(rng.randint(1, 3)):
        items = []
        for _j in range(rng.randint(1, 3)):
            dm = mk(UPPER[:13])
            data_markers.append(dm)
            items.append(('"%s"' % dm) if rng.random() < 0.5 else dm)
        add('DATA %s' % ','.join(items))
    if rng.random() < 0.5:
        add("REM %s" % mk())
    syn_line = None
    if synerr:
        lines.append((6990, "PRINT \"z\" +* 2 '%s" % mk()))
        syn_line = 6990
    if handler == 'cleared':
        lines.append((7000, 'ON ERROR GOTO 0:END'))
    else:
        lines.append((7000, 'END'))
    lines.append((8000, 'PRINT "#s";:RETURN \'%s' % mk()))
    if handler:
        lines.append((9000, 'PRINT "#e";ERR;ERL:RESUME NEXT \'%s' % mk()))
    lines.sort()
    blines = [('%d %s' % (ln, t)).encode('latin-1') for ln, t in lines]
    # the non-marker text must not contain marker grams (cannot, by the stop list, except via LOWWORDS: lower case)
    return {
        'lines': blines,
        'markers': markers,
        'data_markers': data_markers,
        'handler': handler,
        'handler_active_at_end': handler == 'stays' or (handler == 'cleared' and synerr and False),
        'synerr_line': syn_line,
        'line_numbers': [ln for ln, _ in lines],
        'sub_line': 8000,
    }


def other_program(rng, stop, secret_markers=()):
    """An unrelated, UNPROTECTED program with its own (non-secret) markers, sharing no 4-gram with the secret ones."""
    stop2 = set(stop)
    for m in secret_markers:
        stop2 |= grams(m)
    return make_program(rng, stop2, handler=None, synerr=False, nblocks=3)


# ---------------------------------------------------------------------------------------------------------
# direct-mode statements
#
# Each template: (focus, text, cls)
#   cls 'A'  the statement names must fail with Illegal function call (5)
#       'P'  must succeed (SAVE ,P)
#       'C'  no outcome pinned: taint scan only
#       'S'  safe filler: cannot raise and cannot read anything (used as chain prefix)
# {a} = address inside the code area, {n} = existing line number, {m} = new line number, {k} = counter for file names

MUST_FAIL = [
    ('LIST', 'LIST'), ('LIST', 'LIST {n}'), ('LIST', 'LIST {n}-'), ('LIST', 'LIST -{n}'), ('LIST', 'LIST {n}-{n2}'),
    ('LIST', 'LIST .'), ('LIST', 'LIST ,"LST{k}.TXT"'), ('LIST', 'LIST {n}-,"LST{k}.TXT"'), ('LIST', 'LIST ,"SCRN:"'),
    ('LIST', 'LIST ,"LPT1:"'),
    ('LLIST', 'LLIST'), ('LLIST', 'LLIST {n}'), ('LLIST', 'LLIST {n}-'), ('LLIST', 'LLIST -{n}'),
    ('SAVE', 'SAVE "SVB{k}"'), ('SAVE', 'SAVE "SVB{k}.BAS"'), ('SAVE-A', 'SAVE "SVA{k}",A'), ('SAVE-A', 'SAVE "SVA{k}.ASC",a'),
    ('PEEK', 'PRINT PEEK({a})'), ('PEEK', 'Q=PEEK({a})'), ('PEEK', 'Q$=CHR$(PEEK({a}))'), ('PEEK', 'IF PEEK({a})=0 THEN PRINT "z"'),
    ('PEEK', 'PRINT PEEK({a});PEEK({a}+1);PEEK({a}+2)'), ('PEEK', 'Q%=PEEK({a}) AND 255'), ('PEEK', 'PRINT HEX$(PEEK({a}))'),
    ('PEEK', 'PRINT PEEK(0)'), ('PEEK', 'PRINT PEEK(1450)'), ('PEEK', 'PRINT PEEK(65535)'),
    ('PEEK', 'DEF SEG={s}:PRINT PEEK({o})'), ('PEEK', 'DEF SEG=0:PRINT PEEK(1040)'), ('PEEK', 'DEF SEG=&HB800:PRINT PEEK(0)'),
    ('BSAVE', 'BSAVE "MEM{k}.BIN",{a},200'), ('BSAVE', 'BSAVE "MEM{k}.BIN",0,65535'), ('BSAVE', 'DEF SEG:BSAVE "MEM{k}.BIN",{a},1'),
    ('BSAVE', 'DEF SEG={s}:BSAVE "MEM{k}.BIN",{o},300'), ('BSAVE', 'DEF SEG=&HB800:BSAVE "MEM{k}.BIN",0,4000'),
    ('MERGE', 'MERGE "OTHERA.ASC"'), ('MERGE', 'MERGE "C:OTHERA.ASC"'),
    ('CHAIN-MERGE', 'CHAIN MERGE "OTHERA.ASC"'), ('CHAIN-MERGE', 'CHAIN MERGE "OTHERA.ASC",{n}'),
    ('CHAIN-MERGE', 'CHAIN MERGE "OTHERA.ASC",{n},ALL'), ('CHAIN-MERGE', 'CHAIN MERGE "OTHERA.ASC",,ALL,DELETE {n}-{n2}'),
    ('ENTER-LINE', '{m} PRINT 1'), ('ENTER-LINE', '{n} PRINT 1'), ('ENTER-LINE', '{m} REM'), ('DELETE-LINE', '{n}'),
    ('ENTER-LINE', '{m}PRINT PEEK({a})'),
]

MUST_SUCCEED = [('SAVE-P', 'SAVE "SVP{k}",P'), ('SAVE-P', 'SAVE "SVP{k}.BAS",p')]

SAFE = ['X9=1', 'PRINT 1;', 'Q9$="a"', 'GOSUB 8000', 'FOR J9=1 TO 2:NEXT', 'IF 1 THEN X9=2', 'WHILE 0:WEND', 'ON 1 GOSUB 8000',
        'DEF SEG', 'RESTORE', 'TROFF', 'BEEP', 'Z9=FRE(0)']

FREE = [
    # the known literal-statement deviation: DATA of the program is readable in direct mode
    ('READ', 'READ R1$:PRINT R1$'), ('READ', 'READ R1$,R2$,R3$'), ('READ', 'RESTORE:READ R1$'), ('READ', 'RESTORE {n}:READ R2$:PRINT R2$;'),
    ('READ', 'FOR J9=1 TO 9:READ R3$:PRINT R3$;:NEXT'), ('READ', 'READ R4:PRINT R4'),
    # flag / memory writes
    ('POKE', 'POKE 1450,0'), ('POKE', 'DEF SEG:POKE 1450,0'), ('POKE', 'POKE 1450,0:LIST'), ('POKE', 'DEF SEG={s}:POKE {o},0'),
    ('POKE', 'DEF SEG=0:POKE 1450,0'), ('POKE', 'POKE {a},143'), ('BLOAD', 'BLOAD "FLAG.BIN"'), ('BLOAD', 'BLOAD "FLAG.BIN",1450'),
    ('BLOAD', 'DEF SEG:BLOAD "FLAG.BIN",1450:LIST'),
    # variables, pointers
    ('VARPTR', 'PRINT VARPTR(A$)'), ('VARPTR$', 'Q$=VARPTR$(A$):PRINT LEN(Q$)'), ('VARPTR', 'Q=VARPTR(S)'),
    ('PRINT', 'PRINT A$;B$;S;I;W'), ('PRINT', 'PRINT D0;D1;D2;D0$;D1$;D2$'), ('PRINT', 'PRINT ERR;ERL'), ('PRINT', 'PRINT FRE(0);FRE("")'),
    ('LSET', 'LSET A$="zz"'), ('MID$', 'MID$(A$,1,1)="q"'), ('SWAP', 'SWAP A$,B$'), ('ERASE', 'ERASE Q'), ('DIM', 'DIM Q7(5)'),
    ('LET', 'Q$=A$+B$'), ('LET', 'Q$=STRING$(5,A$)'), ('LET', 'Q$=SPACE$(200)'), ('COMMON', 'COMMON A$,S'),
    # program control from direct mode
    ('RUN', 'RUN'), ('RUN', 'RUN {n}'), ('GOTO', 'GOTO {n}'), ('GOSUB', 'GOSUB 8000'), ('CONT', 'CONT'), ('TRON', 'TRON'), ('TROFF', 'TROFF'),
    ('TRON', 'TRON:GOSUB 8000:TROFF'), ('STOP', 'STOP'), ('END', 'END'), ('CLEAR', 'CLEAR'), ('CLEAR', 'CLEAR ,30000'),
    ('RESTORE', 'RESTORE'), ('RESTORE', 'RESTORE {n}'), ('ON-ERROR', 'ON ERROR GOTO 9000'), ('ON-ERROR', 'ON ERROR GOTO 0'),
    ('ERROR', 'ERROR 5'), ('ERROR', 'ERROR 11'), ('RESUME', 'RESUME'), ('RESUME', 'RESUME NEXT'), ('RETURN', 'RETURN'), ('NEXT', 'NEXT'),
    ('FN', 'PRINT FNA(1)'), ('DEF', 'DEF FNA(X)=X'),
    # files
    ('FILES', 'FILES'), ('FILES', 'FILES "*.BAS"'), ('NAME', 'NAME "TMP{k}.DAT" AS "TMQ{k}.DAT"'), ('KILL', 'KILL "TMP{k}.DAT"'),
    ('OPEN', 'OPEN "TMP{k}.DAT" FOR OUTPUT AS 1:PRINT#1,A$;B$;S:CLOSE'), ('OPEN', 'OPEN "PROT.BAS" FOR INPUT AS 1:LINE INPUT#1,F1$:CLOSE'),
    ('OPEN', 'OPEN "PROT.BAS" FOR INPUT AS 1:F2$=INPUT$(40,1):CLOSE'), ('OPEN', 'OPEN "R",1,"PROT.BAS",32:FIELD 1,32 AS F3$:GET 1,1:F4$=F3$:CLOSE'),
    ('OPEN', 'OPEN "OTHERA.ASC" FOR INPUT AS 1:LINE INPUT#1,F5$:CLOSE'), ('CLOSE', 'CLOSE'), ('RESET', 'RESET'),
    ('OPEN', 'OPEN "SCRN:" FOR OUTPUT AS 1:PRINT#1,"z":CLOSE'), ('OPEN', 'OPEN "LPT1:" FOR OUTPUT AS 1:PRINT#1,"z":CLOSE'),
    ('LPRINT', 'LPRINT A$;S'), ('WRITE', 'WRITE A$,S'), ('LOC', 'PRINT LOF(1)'), ('EOF', 'PRINT EOF(1)'),
    ('SAVE-OTHER-DEVICE', 'SAVE "LPT1:",A'), ('SAVE-OTHER-DEVICE', 'SAVE "SCRN:",A'), ('SAVE-OTHER-DEVICE', 'SAVE "CAS1:SVC"'),
    ('SAVE-OTHER-DEVICE', 'SAVE "CAS1:SVD",A'),
    # screen / keys / misc
    ('KEY', 'KEY LIST'), ('KEY', 'KEY ON'), ('KEY', 'KEY OFF'), ('KEY', 'KEY 1,"LIST"+CHR$(13)'), ('CLS', 'CLS'), ('SCREEN', 'SCREEN 0'),
    ('SCREEN-FN', 'PRINT SCREEN(1,1)'), ('LOCATE', 'LOCATE 5,5'), ('WIDTH', 'WIDTH 80'), ('COLOR', 'COLOR 7,0'), ('CSRLIN', 'PRINT CSRLIN;POS(0)'),
    ('INKEY', 'Q$=INKEY$'), ('DATE', 'PRINT LEN(DATE$);LEN(TIME$)'), ('ENVIRON', 'PRINT LEN(ENVIRON$(1))'), ('RND', 'PRINT INT(RND*0)'),
    ('INP', 'PRINT INP(&H60)'), ('OUT', 'OUT &H3D9,0'), ('WAIT-LIKE', 'PRINT PEN(0);STICK(0);STRIG(0)'),
    ('PLAY', 'PLAY "MB L64 C"'), ('SOUND', 'SOUND 440,0'), ('DRAW', 'DRAW "X"+VARPTR$(A$)'),
    ('LCOPY', 'LCOPY'), ('OPTION', 'OPTION BASE 0'), ('RANDOMIZE', 'RANDOMIZE 1'), ('DEFTYPE', 'DEFINT Q'), ('TIMER', 'PRINT INT(TIMER*0)'),
    ('IOCTL', 'PRINT LEN(HEX$(VARPTR(#1)))'),
    ('DELETE', 'DELETE 60000'), ('EDIT', 'EDIT {n}'), ('EDIT', 'EDIT .'), ('NEW-LIKE', 'REM'), ('TERM', 'TERM'),
    ('PRINT-USING', 'PRINT USING "##";S'), ('INPUT-FILE', 'OPEN "OTHERA.ASC" FOR INPUT AS 2:INPUT#2,F6$:CLOSE 2'),
    ('GET-GRAPHICS', 'SCREEN 1:DIM G7%(20):GET (0,0)-(7,7),G7%:SCREEN 0'), ('PCOPY', 'PCOPY 0,1'), ('VIEW', 'VIEW PRINT 1 TO 24'),
]


def fill(text, rng, ctx):
    """Substitute placeholders; ctx gives line numbers, code addresses, segment tricks, file counter."""
    out = text
    if '{k}' in out:
        ctx['k'] += 1
        out = out.replace('{k}', '%d' % ctx['k'])
    if '{n2}' in out:
        a, b = sorted(rng.sample(ctx['lines'], 2)) if len(ctx['lines']) > 1 else (ctx['lines'][0], ctx['lines'][0])
        out = out.replace('{n2}', '%d' % b).replace('{n}', '%d' % a)
    if '{n}' in out:
        out = out.replace('{n}', '%d' % rng.choice(ctx['lines']))
    if '{m}' in out:
        while True:
            m = rng.randint(1, 9999)
            if m not in ctx['lines']:
                break
        out = out.replace('{m}', '%d' % m)
    if '{s}' in out or '{o}' in out:
        # same absolute address through another segment: s*16 + o == data_segment*16 + a
        a = rng.randrange(ctx['code_lo'], ctx['code_hi'])
        absolute = ctx['dseg'] * 16 + a
        s = rng.randint(max(0, (absolute - 65535 + 15) // 16), absolute // 16)
        o = absolute - s * 16
        out = out.replace('{s}', '&H%X' % s).replace('{o}', '%d' % o)
    if '{a}' in out:
        out = out.replace('{a}', '%d' % rng.randrange(ctx['code_lo'], ctx['code_hi']))
    return out
