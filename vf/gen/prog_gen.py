"""
Shared pieces for the program-storage group (C13 C14 C15 C17): BASIC-level observers on a
harness.Box (unwrapped listing through LIST ,"file", PEEK walk of the line links, saved file
bytes) and the generator of simple program lines with a canonical listing.
"""
import os

from ..models import c13_rprog as rprog

PRINTABLE = bytes(range(0x20, 0x7f))
STR_CHARS = bytes(c for c in PRINTABLE if c != 0x22)


# ----------------------------------------------------------------------------------------------
# observers

def read_file(box, name):
    with open(box.path(name), 'rb') as f:
        return f.read()


def list_to_file(box, name=b'LST.TXT', rng=b''):
    """LIST [range],"name" -> (output bytes of the command, list of listed lines)."""
    path = box.path(name.decode('ascii'))
    try:
        os.remove(path)
    except OSError:
        pass
    out = box.ex(b'LIST ' + rng + b',"' + name + b'"')
    try:
        with open(path, 'rb') as f:
            data = f.read()
    except (IOError, OSError):
        return out, None
    return out, rprog.parse_listing_file(data)


PEEK_WALK = (b'A=PEEK(48)+256*PEEK(49):N=PEEK(A)+256*PEEK(A+1):WHILE N<>0:'
             b'PRINT A;N;PEEK(A+2)+256*PEEK(A+3);PEEK(N-1):A=N:N=PEEK(A)+256*PEEK(A+1):WEND:PRINT A;0')


def peek_walk(box, budget=None):
    """
    Walk the next-line links with PEEK from the address stored at DS:30h (DEF SEG default).
    Returns (rows, end, raw): rows = [(addr, link, lineno, byte before link target)], end = address
    of the terminating 00 00 link, or (None, None, raw) if the output cannot be parsed.
    """
    out = box.ex(PEEK_WALK, budget)
    rows, end = [], None
    try:
        for l in out.split(b'\r\n'):
            if not l.strip():
                continue
            v = [int(x) for x in l.split()]
            if len(v) == 4:
                rows.append(tuple(v))
            elif len(v) == 2 and v[1] == 0:
                end = v[0]
            else:
                return None, None, out
    except ValueError:
        return None, None, out
    return rows, end, out


def check_walk(rows, end, numbers):
    """Problems (mechanism suffix, text) of a PEEK walk against the expected ascending line numbers."""
    if rows is None:
        return [('unparsable', 'PEEK walk output unparsable')]
    probs = []
    if end is None:
        probs.append(('no-terminator', 'walk did not reach a 00 00 link'))
    got = [r[2] for r in rows]
    if got != list(numbers):
        probs.append(('line-numbers', 'links visit lines %r.., expected %r..' % (got[:8], list(numbers)[:8])))
    prev = None
    for addr, link, lineno, endb in rows:
        if prev is not None and addr != prev:
            probs.append(('chain', 'line %d at %d but previous link says %d' % (lineno, addr, prev)))
        if link <= addr + 4:
            probs.append(('chain', 'link of line %d does not point forward' % lineno))
        if endb != 0:
            probs.append(('line-end', 'byte before the target of the link of line %d is %d, not 0' % (lineno, endb)))
        prev = link
    if rows and end is not None and end != prev:
        probs.append(('chain', 'terminator at %d but last link says %d' % (end, prev)))
    return probs


# ----------------------------------------------------------------------------------------------
# C13-style lines: canonical listing, every printing line prints its tag

def rand_text(rng, n, chars=PRINTABLE):
    s = bytes(rng.choice(chars) for _ in range(n))
    # no leading/trailing blank (entry keeps them, but they make witnesses unreadable)
    return s.strip()


def simple_line(rng, tag, maxpad=180):
    """
    (text, printed) for one program line carrying `tag` (bytes, alphanumeric): the statement text with a
    canonical listing and the bytes it prints when executed.
    """
    r = rng.random()
    if r < 0.25:
        padlen = 0
    elif r < 0.8:
        padlen = rng.randint(1, 30)
    else:
        padlen = rng.randint(min(31, maxpad), maxpad)
    pad = rand_text(rng, padlen)
    k = rng.randrange(8)
    if k == 0:
        text = b'PRINT "' + tag + b'"'
        printed = tag + b'\r\n'
        if pad:
            text += b':REM ' + pad
    elif k == 1:
        text = b'REM ' + tag + (b' ' + pad if pad else b'')
        printed = b''
    elif k == 2:
        text = b"' " + tag + (b' ' + pad if pad else b'')
        printed = b''
    elif k == 3:
        spad = rand_text(rng, padlen, STR_CHARS)
        text = b'Z$="' + spad + b'":PRINT "' + tag + b'"'
        printed = tag + b'\r\n'
    elif k == 4:
        v = rng.choice([0, 1, 9, 10, 11, 255, 256, 32767, rng.randint(0, 32767)])
        text = b'X=%d:PRINT "%s";X' % (v, tag)
        printed = tag + b' %d \r\n' % v
    elif k == 5:
        text = b'A$="' + tag + b'":PRINT A$'
        printed = tag + b'\r\n'
        if pad:
            text += b" ' " + pad
    elif k == 6:
        text = b'PRINT "' + tag + b'";:PRINT'
        printed = tag + b'\r\n'
    else:
        spad = rand_text(rng, min(padlen, 60), STR_CHARS)
        text = b'IF 1 THEN PRINT "' + tag + b'" ELSE PRINT "' + spad + b'"'
        printed = tag + b'\r\n'
    return text, printed
