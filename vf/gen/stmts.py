"""
Statement / function templates with boundary argument pools (used by C01, C16).
Placeholders:  #  numeric expression      $  string expression     @  file number
               &  line number             ?  any expression        %v numeric variable
"""

INTS = [
    b'-32769', b'-32768', b'-1', b'0', b'1', b'2', b'3', b'7', b'15', b'16', b'25', b'40', b'80', b'255', b'256',
    b'319', b'320', b'639', b'640', b'32767', b'32768', b'65535', b'65536', b'1E38', b'1.7E38', b'-1.7E38',
    b'1D-39', b'3.5', b'-.5', b'1E10', b'-1E10', b'&HFFFF', b'&H8000', b'&O177777', b'X', b'I%', b'1/3',
    b'2^15', b'-2^15', b'1D308', b'.00001',
    # machine ports and low-memory addresses with emulated behaviour
    b'&H3CF', b'&H3C5', b'&H3C4', b'&H3CE', b'&H3D8', b'&H3D9', b'&H3DA', b'&H201', b'&H60', b'&H61', b'&H3F8', b'&H378',
    b'1047', b'1050', b'1052', b'1054', b'1085', b'1097', b'1125', b'1126', b'1296', b'&H410', b'&H358', b'&H30', b'1450',
    # odd spellings of numeric literals: empty/blank-only/interrupted radix literals, dangling exponents and type signs
    b'&', b'& ', b'&O', b'&O ', b'&O  ', b'&H', b'&H ', b'&O 1 7', b'&O177 777', b'&O8', b'&HG', b'&HFFFFF', b'&O777777',
    b'&o17', b'&h1f', b'1E', b'1E+', b'1D-', b'1e-5', b'2.5d+3', b'1E 5', b'.', b'-.', b'1..2', b'1 2', b'1%', b'1#', b'1!',
    b'32768%', b'1E39', b'1D309', b'1E-50', b'00012', b'1.0000000000000000000000001',
]
STRS = [
    b'""', b'"A"', b'"ABC"', b'STRING$(255,"x")', b'CHR$(0)', b'CHR$(255)', b'CHR$(0)+CHR$(255)', b'"C:\\X"',
    b'"*.*"', b'"A:"', b'"CAS1:X"', b'"KYBD:"', b'"SCRN:"', b'"LPT1:"', b'"COM1:"', b'"LPT2:"', b'"LPT3:X"', b'"COM2:"',
    b'"CAS1:"', b'"@:"', b'"@:X"', b'"CON"', b'"nul"', b'"PRN"', b'"AUX"', b'"Z:X"', b'"B:"', b'A$', b'SPACE$(100)', b'"1,2"',
    b'"12:34:56"', b'"01-01-2000"', b'"DATA.TXT"', b'"PROG.BAS"', b'"PROGB"', b'"PROGP.BAS"', b'"RND.DAT"', b'"NOSUCH"', b'"..\\X"', b'"C:"',
    b'"AB:X"', b'":X"', b'"X=1"', b'"U10R10"', b'"CDEFGAB"', b'"MBO3L4C"', b'"###.##"', b'"&"', b'"!"',
    b'"\\  \\"', b'"a.b.c"', b'"LONGFILENAME.EXT"', b'CHR$(13)', b'CHR$(26)', b'"-1"', b'"99:99"', b'"13-32-1979"',
    b'"X"+CHR$(0)+"=Y"', b'"=Y"', b'"XA4"', b'"TA999"', b'"M+5,-5"', b'"N300"', b'"L0"', b'"T1"', b'"X"',
    b'"=A;"', b'"XA$;"', b'"BM-40000,40000"', b'"S255U255"', b'"P0,0"', b'"P1,2"',
]
FNUMS = [b'0', b'1', b'2', b'3', b'4', b'15', b'255', b'256', b'-1', b'1.5']
LINES = [b'10', b'20', b'100', b'30', b'65529', b'65530', b'0', b'5', b'65535', b'99999']

STATEMENTS = [
    b'AUTO #,#', b'AUTO', b'AUTO .', b'BEEP', b'BEEP ON', b'BEEP OFF', b'BLOAD $,#', b'BLOAD $', b'BSAVE $,#,#',
    b'CALL %v(#)', b'CALLS X(#,$)', b'CHAIN $', b'CHAIN $,&', b'CHAIN MERGE $,&,ALL,DELETE &-&', b'CHAIN $,,ALL',
    b'CHDIR $', b'CIRCLE (#,#),#', b'CIRCLE (#,#),#,#,#,#,#', b'CIRCLE STEP(#,#),#,,#,#', b'CLEAR', b'CLEAR #',
    b'CLEAR ,#', b'CLEAR ,#,#', b'CLEAR ,,,#', b'CLOSE', b'CLOSE @', b'CLOSE #@,#@', b'CLS', b'CLS #', b'COLOR #',
    b'COLOR #,#', b'COLOR #,#,#', b'COLOR ,,#', b'COM(#) ON', b'COM(#) OFF', b'COM(#) STOP', b'COMMON A,B$,C()',
    b'CONT', b'DATA 1,2,"x"', b'DATE$=$', b'DEF FNA(X)=X*#', b'DEF FNB$(X$)=X$+$', b'DEF SEG', b'DEF SEG=#',
    b'DEF USR#=#', b'DEFINT A-Z', b'DEFSTR S', b'DEFDBL D-E', b'DEFSNG A', b'DELETE &', b'DELETE &-&', b'DELETE -&',
    b'DELETE &-', b'DELETE .', b'DIM Q(#)', b'DIM Q(#,#)', b'DIM Q$(#),R%(#,#,#)', b'DRAW $', b'EDIT &', b'EDIT .',
    b'END', b'ENVIRON $', b'ERASE Q', b'ERASE A,B', b'ERROR #', b'FIELD #@,# AS F$', b'FIELD #@,# AS F$,# AS G$',
    b'FILES', b'FILES $', b'FOR I=# TO #:NEXT', b'FOR I%=# TO # STEP #:NEXT', b'FOR I=1 TO 3', b'NEXT', b'NEXT I,J',
    b'GET #@', b'GET #@,#', b'GET (#,#)-(#,#),Q', b'GOSUB &', b'GOTO &', b'IF # THEN PRINT 1 ELSE PRINT 2',
    b'IF # GOTO &', b'IF $=$ THEN &', b'INPUT X', b'INPUT "p";A$,B', b'INPUT #@,A$', b'INPUT #@,X,Y',
    b'IOCTL #@,$', b'KEY ON', b'KEY OFF', b'KEY LIST', b'KEY #,$', b'KEY(#) ON', b'KEY(#) OFF', b'KEY(#) STOP',
    b'KILL $', b'LCOPY', b'LCOPY #', b'LET X=#', b'LET A$=$', b'LET X%=#', b'LET X#=#', b'LET Q(#)=#', b'LINE (#,#)-(#,#)',
    b'LINE (#,#)-(#,#),#,B', b'LINE (#,#)-(#,#),#,BF,#', b'LINE -(#,#),#', b'LINE -STEP(#,#)', b'LINE INPUT A$',
    b'LINE INPUT #@,A$', b'LINE INPUT "p";A$', b'LIST', b'LIST &', b'LIST &-&', b'LIST -&', b'LIST &-,$', b'LIST ,$',
    b'LLIST', b'LLIST &-&', b'LOAD $', b'LOAD $,R', b'LOCATE #,#', b'LOCATE #,#,#', b'LOCATE #,#,#,#,#', b'LOCATE ,,#',
    b'LOCK #@', b'LOCK #@,#', b'LOCK #@,# TO #', b'LOCK #@, TO #', b'LPRINT #', b'LPRINT USING $;#', b'LPRINT $;',
    b'LSET A$=$', b'LSET F$=$', b'MERGE $', b'MID$(A$,#)=$', b'MID$(A$,#,#)=$', b'MKDIR $', b'MOTOR', b'MOTOR #',
    b'NAME $ AS $', b'NEW', b'NOISE #,#,#', b'ON # GOTO &,&', b'ON # GOSUB &,&,&', b'ON ERROR GOTO &', b'ON ERROR GOTO 0',
    b'ON COM(#) GOSUB &', b'ON KEY(#) GOSUB &', b'ON PEN GOSUB &', b'ON PLAY(#) GOSUB &', b'ON STRIG(#) GOSUB &',
    b'ON TIMER(#) GOSUB &', b'OPEN $ FOR INPUT AS @', b'OPEN $ FOR OUTPUT AS #@', b'OPEN $ FOR APPEND AS @',
    b'OPEN $ FOR RANDOM AS @ LEN=#', b'OPEN $ AS @', b'OPEN "R",@,$,#', b'OPEN "I",#@,$', b'OPEN "O",@,$',
    b'OPEN "A",@,$', b'OPEN $,@,$', b'OPEN $ FOR RANDOM ACCESS READ WRITE SHARED AS @ LEN=#',
    b'OPEN $ FOR INPUT ACCESS READ LOCK WRITE AS @', b'OPEN $ FOR OUTPUT LOCK READ WRITE AS @', b'OPTION BASE #',
    b'OUT #,#', b'PAINT (#,#)', b'PAINT (#,#),#,#', b'PAINT (#,#),$', b'PAINT (#,#),$,#,$', b'PAINT STEP(#,#),#',
    b'PALETTE', b'PALETTE #,#', b'PALETTE USING Q%(#)', b'PCOPY #,#', b'PEN ON', b'PEN OFF', b'PEN STOP', b'PLAY $',
    b'PLAY $,$,$', b'PLAY ON', b'PLAY OFF', b'PLAY STOP', b'POKE #,#', b'PRESET (#,#)', b'PRESET (#,#),#',
    b'PRESET STEP(#,#)', b'PRINT', b'PRINT #', b'PRINT $', b'PRINT #;$,#', b'PRINT TAB(#);SPC(#);#', b'PRINT USING $;#',
    b'PRINT USING $;$', b'PRINT USING $;#,#;$', b'PRINT #@,#;$', b'PRINT #@,USING $;#', b'PSET (#,#)', b'PSET (#,#),#',
    b'PSET STEP(#,#),#', b'PUT #@', b'PUT #@,#', b'PUT (#,#),Q', b'PUT (#,#),Q,XOR', b'PUT (#,#),Q%,PSET',
    b'PUT (#,#),Q,PRESET', b'PUT (#,#),Q,AND', b'PUT (#,#),Q,OR', b'RANDOMIZE', b'RANDOMIZE #', b'READ X', b'READ A$,B',
    b'REM x', b"' x", b'RENUM', b'RENUM &', b'RENUM &,&', b'RENUM &,&,#', b'RENUM ,,#', b'RESET', b'RESTORE', b'RESTORE &',
    b'RESUME', b'RESUME NEXT', b'RESUME &', b'RESUME 0', b'RETURN', b'RETURN &', b'RMDIR $', b'RSET A$=$', b'RUN',
    b'RUN &', b'RUN $', b'RUN $,R', b'SAVE $', b'SAVE $,A', b'SAVE $,P', b'SCREEN #', b'SCREEN #,#', b'SCREEN #,#,#,#',
    b'SCREEN ,,#,#', b'SCREEN #,#,#,#,#', b'SHELL', b'SHELL $', b'SOUND #,#', b'SOUND #,#,#', b'SOUND #,#,#,#', b'SOUND ON',
    b'SOUND OFF', b'STOP', b'STRIG ON', b'STRIG OFF', b'STRIG(#) ON', b'STRIG(#) OFF', b'STRIG(#) STOP', b'SWAP A,B',
    b'SWAP A$,B$', b'SWAP A,B$', b'SWAP Q(#),X', b'SYSTEM', b'TERM', b'TIME$=$', b'TIMER ON', b'TIMER OFF', b'TIMER STOP',
    b'TROFF', b'TRON', b'UNLOCK #@', b'UNLOCK #@,# TO #', b'VIEW', b'VIEW (#,#)-(#,#)', b'VIEW (#,#)-(#,#),#,#',
    b'VIEW SCREEN (#,#)-(#,#),#', b'VIEW PRINT', b'VIEW PRINT # TO #', b'WAIT #,#', b'WAIT #,#,#', b'WEND',
    b'WHILE #:WEND', b'WHILE #', b'WIDTH #', b'WIDTH #,#', b'WIDTH $,#', b'WIDTH #@,#', b'WIDTH LPRINT #', b'WINDOW',
    b'WINDOW (#,#)-(#,#)', b'WINDOW SCREEN (#,#)-(#,#)', b'WRITE', b'WRITE #,$', b'WRITE #@,#,$', b'A$=$+$',
    b'X=#:Y=X', b'Q(#,#)=#', b'A$(#)=$', b'ON # GOTO', b'IF', b'PRINT #,', b'FOR', b'DIM', b'OPEN', b'NAME', b'FIELD',
    b'GET', b'PUT', b'LINE', b'CIRCLE', b'DRAW', b'PLAY', b'DEF', b'DEF FN', b'ON', b'KEY', b'MID$', b'LOCATE ,',
    b'X==1', b'PRINT 1+', b'PRINT (1', b'PRINT 1)', b'PRINT "abc', b'10', b'65530 PRINT', b'65529 REM', b'1E5 PRINT',
]

FUNCTIONS = [
    b'ABS(#)', b'ASC($)', b'ATN(#)', b'CDBL(#)', b'CHR$(#)', b'CINT(#)', b'COS(#)', b'CSNG(#)', b'CSRLIN', b'CVD($)',
    b'CVI($)', b'CVS($)', b'DATE$', b'ENVIRON$($)', b'ENVIRON$(#)', b'EOF(@)', b'ERDEV', b'ERDEV$', b'ERL', b'ERR',
    b'EXP(#)', b'EXTERR(#)', b'FIX(#)', b'FNA(#)', b'FNB$($)', b'FNZ(#)', b'FRE(#)', b'FRE($)', b'HEX$(#)', b'INKEY$',
    b'INP(#)', b'INPUT$(#)', b'INPUT$(#,@)', b'INPUT$(#,#@)', b'INSTR($,$)', b'INSTR(#,$,$)', b'INT(#)', b'IOCTL$(@)',
    b'LEFT$($,#)', b'LEN($)', b'LOC(@)', b'LOF(@)', b'LOG(#)', b'LPOS(#)', b'MID$($,#)', b'MID$($,#,#)', b'MKD$(#)',
    b'MKI$(#)', b'MKS$(#)', b'OCT$(#)', b'PEEK(#)', b'PEN(#)', b'PLAY(#)', b'PMAP(#,#)', b'POINT(#)', b'POINT(#,#)',
    b'POS(#)', b'RIGHT$($,#)', b'RND', b'RND(#)', b'SCREEN(#,#)', b'SCREEN(#,#,#)', b'SGN(#)', b'SIN(#)', b'SPACE$(#)',
    b'SQR(#)', b'STICK(#)', b'STR$(#)', b'STRIG(#)', b'STRING$(#,#)', b'STRING$(#,$)', b'TAN(#)', b'TIME$', b'TIMER',
    b'USR(#)', b'USR#(#)', b'VAL($)', b'VARPTR(X)', b'VARPTR(A$)', b'VARPTR(Q(#))', b'VARPTR(#@)', b'VARPTR$(X)',
    b'VARPTR$(Q(#))', b'#+#', b'#-#', b'#*#', b'#/#', b'#\\#', b'# MOD #', b'#^#', b'# AND #', b'# OR #', b'# XOR #',
    b'# EQV #', b'# IMP #', b'NOT #', b'-#', b'#=#', b'#<#', b'#>=#', b'#<>#', b'$+$', b'$=$', b'$<$', b'$>$', b'$+#',
    b'#+$', b'# IMP $', b'$ AND #', b'-$', b'NOT $', b'(#)', b'((#))', b'Q(#)', b'Q(#,#)', b'A$(#)', b'X%', b'X#', b'X!',
]


def fill(template, rng):
    out = bytearray()
    i = 0
    t = template
    while i < len(t):
        c = t[i:i + 1]
        if c == b'#':
            # '#@' = '#' literal followed by a file number
            if t[i + 1:i + 2] == b'@':
                out += b'#' + rng.choice(FNUMS)
                i += 2
                continue
            out += rng.choice(INTS)
        elif c == b'$':
            # keep a literal '$' that belongs to a name (preceded by a letter)
            if i > 0 and (t[i - 1:i].isalpha()):
                out += b'$'
            else:
                out += rng.choice(STRS)
        elif c == b'@':
            out += rng.choice(FNUMS)
        elif c == b'&':
            out += rng.choice(LINES)
        elif c == b'?':
            out += rng.choice(INTS + STRS)
        elif c == b'%' and t[i + 1:i + 2] == b'v':
            out += rng.choice([b'X', b'I%', b'D#', b'Q'])
            i += 2
            continue
        else:
            out += c
        i += 1
    return bytes(out)


def keyword_of(template):
    w = template.split(b' ')[0].split(b'(')[0].split(b'=')[0]
    return w.decode('latin-1')
