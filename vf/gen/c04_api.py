"""
API-level access to the real values primitives with the REAL FloatErrorHandler in its
soft-handling configuration (a recording console): Overflow / Division by zero print a
message and return a payload, exactly as in a running session, so the oracle sees both the
error class and the payload ("signed maximum"). Other BASIC errors are raised.

outcome := ('ok', bytes) | ('err', code, payload-bytes | None)
"""
from .. import harness  # noqa: F401  (sets sys.path to the repo under test)
from pcbasic.basic.values import values as V
from pcbasic.basic.values import numbers as N
from pcbasic.basic.base import error


class _Console(object):
    def __init__(self):
        self.msgs = []

    def write_line(self, msg):
        self.msgs.append(msg)


CONSOLE = _Console()
VALUES = V.Values(None, False)
VALUES.set_handler(V.FloatErrorHandler(CONSOLE))

CLS = {2: N.Integer, 4: N.Single, 8: N.Double}


def num(b):
    return CLS[len(b)](None, VALUES).from_bytes(b)


def _code(msg):
    if isinstance(msg, str):
        msg = msg.encode('latin-1')
    return harness.ERRMSG.get(bytes(msg).rstrip(b'\xff'), -1)


def call(fn, *args):
    msgs = CONSOLE.msgs
    if msgs:
        del msgs[:]
    try:
        r = fn(*args)
    except error.BASICError as e:
        return ('err', e.err, None)
    if msgs:
        code = _code(msgs[0])
        extra = len(msgs) > 1
        del msgs[:]
        return ('err', code, bytes(r.to_bytes())) if not extra else ('err', code, bytes(r.to_bytes()), 'multiple-messages')
    return ('ok', bytes(r.to_bytes()))


def binop(fn, a, b):
    """fn on fresh number objects for the byte patterns a, b."""
    return call(fn, num(a), num(b))


def unop_args(fn, a):
    """functions taking an argument iterator (cint_, abs_, sgn_, ...)"""
    return call(fn, [num(a)])


def unop(fn, a):
    return call(fn, num(a))
