"""
Generator of well-formed GW-BASIC program lines with canonical separators (C17; also used by C15 for
program content).  Written from the GW-BASIC manual's statement syntax.

A line is a list of segments (kind, bytes): kind 'c' = code (keywords, names, numbers: capitalisation may be
randomised), 'v' = verbatim (string literals, REM / ' comments, DATA items).

Canonical separators = exactly the blanks a listing shows: one blank after a statement keyword that is followed
by a name / number / keyword, one blank around word operators (AND OR XOR EQV IMP MOD NOT) and around TO STEP
THEN ELSE GOTO GOSUB USING AS ..., none around symbol operators, ':' between statements.

Number literals: every token class
   one-byte constants 0..10, byte 11..255, integer 256..32767, &H hex, &O / & octal,
   single (<= 7 significant digits, exactly representable), double (<= 16, exactly representable),
   line numbers after GOTO GOSUB THEN ELSE RESTORE RUN RESUME RETURN ERL= LIST DELETE EDIT AUTO RENUM.
"""
from fractions import Fraction

from ..models import rnum

NAMES = [b'A', b'B', b'I', b'J', b'K', b'X', b'Y', b'Z', b'N', b'Q', b'A1', b'B2', b'X9', b'AB', b'XY', b'CNT', b'TOTAL', b'IDX',
         b'P.Q', b'ROW', b'COL', b'V1.2', b'LIM', b'ENDX', b'FORM', b'TOP', b'NOTE', b'ORB', b'ANDY', b'IFX', b'ONE', b'KEYS']
SNAMES = [b'A$', b'B$', b'S$', b'T$', b'NAM$', b'L1$', b'W.X$', b'KEYW$']
SIGILS = [b'', b'', b'', b'%', b'!', b'#']

STR_SAFE = bytes(c for c in range(0x20, 0x7f) if c != 0x22)
HIGH = bytes(range(0x80, 0x100))


# ----------------------------------------------------------------------------------------------
# number literals

def _dec(v):
    """Plain decimal expansion (str) of a non-negative Fraction with a power-of-ten-compatible denominator."""
    num, den = v.numerator, v.denominator
    # den = 2^a 5^b
    k = 0
    d = den
    while d % 10 == 0:
        d //= 10
        k += 1
    while d % 2 == 0:
        d //= 2
        num *= 5
        k += 1
    while d % 5 == 0:
        d //= 5
        num *= 2
        k += 1
    assert d == 1
    s = str(num)
    if k == 0:
        return s
    if len(s) <= k:
        s = '0' * (k - len(s) + 1) + s
    ip, fp = s[:-k], s[-k:].rstrip('0')
    return ip + ('.' + fp if fp else '')


def sig_digits(text):
    t = text.replace('.', '').lstrip('0')
    return len(t.rstrip('0')) or 1


def exact_value(rng, n):
    """A positive exactly representable value (Fraction) of width n (4 single / 8 double) with <= 7 / <= 16 significant digits."""
    lim = 10 ** (7 if n == 4 else 16)
    bits = 24 if n == 4 else 56
    maxk = 10 if n == 4 else 24
    maxj = 10 if n == 4 else 22
    r = rng.random()
    if r < 0.45:
        # a / 2^j
        j = rng.randint(0, maxj)
        top = min(lim // (5 ** j), (1 << bits) - 1)
        a = rng.randint(1, max(1, top)) if rng.random() < 0.7 else rng.randint(1, max(1, min(top, 999)))
        v = Fraction(a, 2 ** j)
    elif r < 0.8:
        k = rng.randint(0, maxk)
        top = min(lim - 1, ((1 << bits) - 1) // (5 ** k))
        a = rng.randint(1, max(1, top)) if rng.random() < 0.5 else rng.randint(1, max(1, min(top, 99)))
        v = Fraction(a * 10 ** k)
    else:
        # small negative binary exponents with tiny mantissa: 2^-j, 3*2^-j
        j = rng.randint(1, maxj)
        a = rng.choice([1, 3, 5, 7]) if 5 ** j * 7 < lim else 1
        v = Fraction(a, 2 ** j)
    # check the promise with R-NUM
    rnum.encode_exact(v, n)
    d = _dec(v)
    assert sig_digits(d) <= (7 if n == 4 else 16), (v, d)
    return v


def float_text(rng, v, n):
    """
    Source text (str) for the exactly representable value v meant as single (n=4) or double (n=8), and whether the
    text pins the type unambiguously ('single'/'double') or leaves it to the digit count ('auto').
    """
    d = _dec(v)
    digits = len(d.replace('.', ''))
    is_int = '.' not in d
    form = rng.randrange(5)
    mark = '!' if n == 4 else '#'
    if form == 0:
        # plain, type by digit count
        if n == 4 and digits <= 7 and not (is_int and v <= 32767):
            return (d[1:] if d.startswith('0.') and rng.random() < 0.7 else d), 'single'
        if n == 8 and 8 <= sig_digits(d) and digits <= 16 and len(d.replace('.', '').lstrip('0')) == digits:
            return d, 'double'
        form = 1
    if form in (1, 2) and digits <= 16:
        t = d[1:] if d.startswith('0.') and rng.random() < 0.5 else d
        return t + mark, ('single' if n == 4 else 'double')
    # exponent form: mantissa m, exponent e with v = m * 10^e
    s = d.replace('.', '')
    point = d.index('.') if '.' in d else len(d)
    first = len(s) - len(s.lstrip('0'))
    core = s.strip('0') or '0'
    # v = 0.core * 10^(point-first) ... write as c.ore E exp
    exp = point - first - 1
    m = core[0] + ('.' + core[1:] if len(core) > 1 else '')
    style = rng.randrange(3)
    letter = 'E' if n == 4 else 'D'
    if style == 0:
        e = '%s%+03d' % (letter, exp)
    elif style == 1:
        e = '%s%d' % (letter, exp)
    else:
        e = '%s%+d' % (letter, exp)
    return m + e, ('single' if n == 4 else 'double')


def number(rng, allow_float=True):
    """A number literal (bytes) of a random token class."""
    r = rng.random()
    if r < 0.22:
        return b'%d' % rng.randint(0, 10)
    if r < 0.36:
        return b'%d' % rng.randint(11, 255)
    if r < 0.50:
        return b'%d' % rng.choice([256, 257, 1000, 9999, 32767, 32766, rng.randint(256, 32767)])
    if r < 0.58:
        return b'&H%X' % rng.choice([0, 1, 255, 0x7fff, 0x8000, 0xffff, rng.randint(0, 0xffff)])
    if r < 0.64:
        return (b'&O%o' if rng.random() < 0.7 else b'&%o') % rng.choice([0, 7, 8, 0o177777, rng.randint(0, 0xffff)])
    if not allow_float:
        return b'%d' % rng.randint(0, 32767)
    n = 4 if r < 0.84 else 8
    t, _ = float_text(rng, exact_value(rng, n), n)
    return t.encode('ascii')


def linenum(rng):
    return b'%d' % rng.choice([0, 1, 10, 100, 255, 256, 1000, 32767, 32768, 65529, rng.randint(0, 65529)])


# ----------------------------------------------------------------------------------------------
# expressions

def var(rng):
    return rng.choice(NAMES) + rng.choice(SIGILS)


def svar(rng):
    return rng.choice(SNAMES)


def string_lit(rng, high=0.05):
    n = rng.choice([0, 1, 2, 5, 12, rng.randint(0, 30)])
    chars = STR_SAFE + (HIGH if rng.random() < high else b'')
    return ('v', b'"' + bytes(rng.choice(chars) for _ in range(n)) + b'"')


def c(b):
    return ('c', b)


def nexpr(rng, depth=0):
    """Numeric expression -> list of segments."""
    r = rng.random()
    if depth >= 3 or r < 0.30:
        return [c(number(rng))]
    if r < 0.48:
        v = var(rng)
        if rng.random() < 0.25:
            return [c(v + b'(')] + nexpr(rng, depth + 2) + ([c(b',')] + nexpr(rng, depth + 2) if rng.random() < 0.3 else []) + [c(b')')]
        return [c(v)]
    if r < 0.66:
        op = rng.choice([b'+', b'-', b'*', b'/', b'\\', b'^', b'=', b'<', b'>', b'<=', b'>=', b'<>', b'=<', b'=>', b'><'])
        return nexpr(rng, depth + 1) + [c(op)] + nexpr(rng, depth + 1)
    if r < 0.74:
        op = rng.choice([b'AND', b'OR', b'XOR', b'EQV', b'IMP', b'MOD'])
        return nexpr(rng, depth + 1) + [c(b' ' + op + b' ')] + nexpr(rng, depth + 1)
    if r < 0.79:
        return [c(b'(')] + nexpr(rng, depth + 1) + [c(b')')]
    if r < 0.83:
        return [c(rng.choice([b'-', b'NOT ', b'+']))] + nexpr(rng, depth + 1)
    if r < 0.93:
        f = rng.choice([b'ABS', b'INT', b'SQR', b'SIN', b'COS', b'TAN', b'ATN', b'LOG', b'EXP', b'SGN', b'FIX', b'CINT', b'CSNG',
                        b'CDBL', b'RND', b'PEEK', b'FRE', b'POS', b'INP', b'EOF', b'LOC', b'LOF', b'LPOS', b'PEN', b'STICK',
                        b'STRIG', b'USR', b'USR%d' % rng.randint(0, 9), b'FN' + rng.choice(NAMES), b'PMAP', b'POINT', b'SCREEN'])
        if f in (b'PMAP', b'POINT', b'SCREEN'):
            return [c(f + b'(')] + nexpr(rng, depth + 2) + [c(b',')] + nexpr(rng, depth + 2) + [c(b')')]
        return [c(f + b'(')] + nexpr(rng, depth + 1) + [c(b')')]
    if r < 0.97:
        f = rng.choice([b'LEN', b'ASC', b'VAL', b'CVI', b'CVS', b'CVD'])
        return [c(f + b'(')] + sexpr(rng, depth + 1) + [c(b')')]
    return [c(rng.choice([b'RND', b'TIMER', b'CSRLIN', b'ERR', b'EXTERR(1)', b'ERDEV', b'VARPTR(' + var(rng) + b')',
                          b'INSTR(' + svar(rng) + b',' + svar(rng) + b')']))]


def sexpr(rng, depth=0):
    r = rng.random()
    if depth >= 2 or r < 0.35:
        return [string_lit(rng)]
    if r < 0.6:
        return [c(svar(rng))]
    if r < 0.72:
        return sexpr(rng, depth + 1) + [c(b'+')] + sexpr(rng, depth + 1)
    if r < 0.86:
        f = rng.choice([b'LEFT$', b'RIGHT$', b'MID$', b'STRING$'])
        if f == b'STRING$':
            return [c(b'STRING$(')] + nexpr(rng, 2) + [c(b',')] + (sexpr(rng, 2) if rng.random() < 0.5 else nexpr(rng, 3)) + [c(b')')]
        return [c(f + b'(')] + sexpr(rng, depth + 1) + [c(b',')] + nexpr(rng, 2) + \
               ([c(b',')] + nexpr(rng, 3) if f == b'MID$' and rng.random() < 0.5 else []) + [c(b')')]
    if r < 0.96:
        f = rng.choice([b'CHR$', b'STR$', b'SPACE$', b'HEX$', b'OCT$', b'MKI$', b'MKS$', b'MKD$', b'INPUT$', b'ENVIRON$', b'ERDEV$'])
        if f == b'ERDEV$':
            return [c(b'ERDEV$')]
        return [c(f + b'(')] + nexpr(rng, 2) + [c(b')')]
    return [c(rng.choice([b'INKEY$', b'DATE$', b'TIME$', b'VARPTR$(' + var(rng) + b')']))]


def cond(rng):
    if rng.random() < 0.06:
        return [c(b'ERL=' + linenum(rng))]
    if rng.random() < 0.3:
        return sexpr(rng, 1) + [c(rng.choice([b'=', b'<>', b'<', b'>']))] + sexpr(rng, 1)
    return nexpr(rng, 1)


def comment_text(rng):
    n = rng.choice([0, 1, 5, 20, rng.randint(0, 40)])
    chars = bytes(range(0x20, 0x7f)) + (HIGH if rng.random() < 0.05 else b'')
    t = bytes(rng.choice(chars) for _ in range(n))
    return t.rstrip(b' ')


def data_items(rng):
    items = []
    for _ in range(rng.randint(1, 5)):
        k = rng.randrange(5)
        if k == 0:
            items.append(number(rng))
        elif k == 1:
            items.append(b'-' + number(rng))
        elif k == 2:
            items.append(string_lit(rng, 0)[1])
        elif k == 3:
            # unquoted text: no comma, colon, quote; no blank at the ends
            chars = bytes(ch for ch in range(0x21, 0x7f) if ch not in b',:"')
            items.append(bytes(rng.choice(chars + b'  ') for _ in range(rng.randint(1, 10))).strip() or b'x')
        else:
            items.append(b'')
    return b','.join(items)


# ----------------------------------------------------------------------------------------------
# statements

def jlist(rng, n):
    return c(b','.join(linenum(rng) for _ in range(n)))


def simple_stmt(rng, dialect='advanced', in_if=False):
    """One statement without IF -> list of segments."""
    k = rng.randrange(64)
    S = []
    if k < 6:
        S = [c((b'LET ' if rng.random() < 0.15 else b'') + var(rng) + b'=')] + nexpr(rng)
    elif k < 9:
        S = [c(svar(rng) + b'=')] + sexpr(rng)
    elif k < 14:
        S = [c(b'PRINT')]
        n = rng.randint(0, 4)
        for i in range(n):
            e = sexpr(rng, 1) if rng.random() < 0.4 else nexpr(rng, 1)
            if rng.random() < 0.1:
                e = [c(rng.choice([b'TAB(', b'SPC(']))] + nexpr(rng, 2) + [c(b')')]
            first = e[0][1][:1]
            if i == 0:
                # a blank after PRINT (the listing shows one before a name, number or keyword)
                S.append(c(b' '))
            S += e
            if i < n - 1 or rng.random() < 0.3:
                S.append(c(rng.choice([b';', b','])))
    elif k < 16:
        S = [c(b'PRINT #%d,' % rng.randint(1, 3))] + nexpr(rng, 1) + [c(b';')] + sexpr(rng, 1)
    elif k < 18:
        S = [c(b'PRINT USING '), ('v', b'"' + rng.choice([b'##.##', b'$$###,.##', b'\\  \\', b'!', b'&', b'+#.##^^^^']) + b'"'), c(b';')] + nexpr(rng, 1)
    elif k < 20:
        S = [c(b'GOTO ' + linenum(rng))]
    elif k < 22:
        S = [c(b'GOSUB ' + linenum(rng))]
    elif k < 24:
        S = [c(b'ON ')] + nexpr(rng, 2) + [c(b' ' + rng.choice([b'GOTO', b'GOSUB']) + b' '), jlist(rng, rng.randint(1, 5))]
    elif k < 26:
        v = var(rng)
        S = [c(b'FOR ' + v + b'=')] + nexpr(rng, 2) + [c(b' TO ')] + nexpr(rng, 2)
        if rng.random() < 0.5:
            S += [c(b' STEP ')] + nexpr(rng, 2)
    elif k < 27:
        S = [c(rng.choice([b'NEXT', b'NEXT ' + var(rng), b'NEXT ' + var(rng) + b',' + var(rng)]))]
    elif k < 28:
        S = [c(b'WHILE ')] + cond(rng)
    elif k < 29:
        S = [c(rng.choice([b'WEND', b'RETURN', b'RETURN ' + linenum(rng), b'END', b'STOP', b'CLS', b'BEEP', b'TRON', b'TROFF', b'CONT',
                           b'RESUME', b'RESUME NEXT', b'RESUME ' + linenum(rng), b'RANDOMIZE', b'RANDOMIZE TIMER', b'SYSTEM', b'RESET',
                           b'KEY ON', b'KEY OFF', b'KEY LIST', b'NEW', b'LLIST', b'LIST', b'CLOSE', b'RESTORE', b'RUN', b'CLEAR']))]
    elif k < 31:
        S = [c(rng.choice([b'RESTORE ', b'RUN ', b'EDIT ', b'LIST ', b'DELETE ', b'LLIST ']) + linenum(rng))]
        if S[0][1].split()[0] in (b'LIST', b'DELETE', b'LLIST') and rng.random() < 0.6:
            S.append(c(b'-' + linenum(rng)))
    elif k < 32:
        S = [c(rng.choice([b'AUTO ', b'RENUM ']) + linenum(rng) + b',' + linenum(rng))]
    elif k < 34:
        S = [c(b'ON ERROR GOTO ' + rng.choice([b'0', linenum(rng)]))]
    elif k < 36:
        ev = rng.choice([b'KEY(%d)' % rng.randint(1, 20), b'TIMER(%d)' % rng.randint(1, 100), b'PEN', b'STRIG(%d)' % rng.choice([0, 2, 4, 6]),
                         b'PLAY(%d)' % rng.randint(1, 32), b'COM(%d)' % rng.randint(1, 2)])
        if rng.random() < 0.6:
            S = [c(b'ON ' + ev + b' GOSUB ' + linenum(rng))]
        else:
            ev = rng.choice([b'KEY(%d)' % rng.randint(1, 20), b'TIMER', b'PEN', b'STRIG(%d)' % rng.choice([0, 2, 4, 6]), b'STRIG',
                             b'PLAY', b'COM(%d)' % rng.randint(1, 2)])
            S = [c(ev + b' ' + rng.choice([b'ON', b'OFF', b'STOP'] if ev != b'STRIG' else [b'ON', b'OFF']))]
    elif k < 38:
        S = [c(b'DIM ' + var(rng) + b'(')] + nexpr(rng, 2) + [c(b')')]
        if rng.random() < 0.4:
            S += [c(b',' + svar(rng) + b'(' + number(rng, False) + b',' + number(rng, False) + b')')]
    elif k < 40:
        S = [c(b'DATA '), ('v', data_items(rng))]
    elif k < 41:
        S = [c(b'READ ' + var(rng) + b',' + svar(rng))]
    elif k < 43:
        S = [c(b'INPUT ')]
        if rng.random() < 0.5:
            S += [string_lit(rng, 0), c(rng.choice([b';', b',']))]
        S += [c(var(rng) + (b',' + svar(rng) if rng.random() < 0.5 else b''))]
    elif k < 44:
        S = [c(b'LINE INPUT '), string_lit(rng, 0), c(b';' + svar(rng))]
    elif k < 45:
        S = [c(rng.choice([b'INPUT #1,', b'LINE INPUT #2,', b'WRITE #1,', b'GET #1,', b'PUT #1,']) + rng.choice([svar(rng), var(rng)]))]
    elif k < 47:
        mode = rng.choice([b'INPUT', b'OUTPUT', b'APPEND', b'RANDOM'])
        S = [c(b'OPEN '), string_lit(rng, 0), c(b' FOR ' + mode + b' AS #%d' % rng.randint(1, 3))]
        if mode == b'RANDOM' and rng.random() < 0.6:
            S += [c(b' LEN=' + number(rng, False))]
    elif k < 48:
        S = [c(b'FIELD #1,' + number(rng, False) + b' AS ' + svar(rng) + b',' + number(rng, False) + b' AS ' + svar(rng))]
    elif k < 49:
        S = [c(rng.choice([b'LSET ', b'RSET ']) + svar(rng) + b'=')] + sexpr(rng, 1)
    elif k < 50:
        S = [c(b'MID$(' + svar(rng) + b',')] + nexpr(rng, 2) + [c(b')=')] + sexpr(rng, 1)
    elif k < 52:
        S = [c(rng.choice([b'LOCATE ', b'COLOR ', b'SCREEN ', b'WIDTH ', b'POKE ', b'OUT ', b'SOUND ', b'WAIT ', b'KEY ', b'PCOPY ',
                           b'PALETTE ', b'VIEW PRINT ', b'ERROR ', b'MOTOR ', b'CLEAR ,', b'RANDOMIZE ', b'DEF SEG=']))]
        kw = S[0][1]
        if kw == b'VIEW PRINT ':
            S += nexpr(rng, 3) + [c(b' TO ')] + nexpr(rng, 3)
        elif kw == b'KEY ':
            S += [c(number(rng, False) + b',')] + sexpr(rng, 1)
        elif kw in (b'ERROR ', b'MOTOR ', b'CLEAR ,', b'RANDOMIZE ', b'DEF SEG=', b'WIDTH '):
            S += nexpr(rng, 2)
        else:
            S += nexpr(rng, 2) + [c(b',')] + nexpr(rng, 2)
            if rng.random() < 0.3:
                S += [c(b',')] + nexpr(rng, 2)
    elif k < 55:
        g = rng.choice([b'PSET', b'PRESET', b'LINE', b'CIRCLE', b'PAINT', b'GET', b'PUT', b'DRAW', b'PLAY', b'WINDOW', b'VIEW'])
        xy = lambda: [c(b'(')] + nexpr(rng, 2) + [c(b',')] + nexpr(rng, 2) + [c(b')')]
        if g in (b'PSET', b'PRESET', b'PAINT'):
            S = [c(g + b' ')] + xy() + ([c(b',')] + nexpr(rng, 2) if rng.random() < 0.6 else [])
        elif g == b'LINE':
            S = [c(b'LINE ')] + (xy() if rng.random() < 0.7 else []) + [c(b'-')] + xy() + \
                ([c(b',')] + nexpr(rng, 2) + ([c(rng.choice([b',B', b',BF']))] if rng.random() < 0.5 else []) if rng.random() < 0.6 else [])
        elif g == b'CIRCLE':
            S = [c(b'CIRCLE ')] + xy() + [c(b',')] + nexpr(rng, 2) + ([c(b',,')] + nexpr(rng, 2) + [c(b',')] + nexpr(rng, 2) if rng.random() < 0.4 else [])
        elif g == b'GET':
            S = [c(b'GET ')] + xy() + [c(b'-')] + xy() + [c(b',' + rng.choice(NAMES))]
        elif g == b'PUT':
            S = [c(b'PUT ')] + xy() + [c(b',' + rng.choice(NAMES) + rng.choice([b'', b',XOR', b',PSET', b',PRESET', b',AND', b',OR']))]
        elif g in (b'DRAW', b'PLAY'):
            S = [c(g + b' ')] + sexpr(rng, 1)
        else:
            S = [c(g + rng.choice([b' ', b' SCREEN ']))] + xy() + [c(b'-')] + xy()
    elif k < 56:
        S = [c(b'DEF FN' + rng.choice(NAMES) + b'(' + var(rng) + b')=')] + nexpr(rng, 1)
    elif k < 57:
        S = [c(rng.choice([b'DEFINT ', b'DEFSNG ', b'DEFDBL ', b'DEFSTR ']) + rng.choice([b'A-Z', b'I-N', b'A,B', b'X']))]
    elif k < 58:
        S = [c(rng.choice([b'SWAP ', b'ERASE ', b'COMMON ']) + var(rng) + b',' + var(rng))]
    elif k < 59:
        S = [c(b'OPTION BASE ' + rng.choice([b'0', b'1']))]
    elif k < 61:
        S = [c(rng.choice([b'CHDIR ', b'MKDIR ', b'RMDIR ', b'KILL ', b'FILES ', b'SHELL ', b'ENVIRON ', b'LOAD ', b'MERGE ', b'SAVE ',
                           b'CHAIN ', b'BLOAD ', b'LPRINT ', b'WRITE '])), string_lit(rng, 0)]
        if S[0][1] == b'SAVE ' and rng.random() < 0.5:
            S.append(c(rng.choice([b',A', b',P'])))
        if S[0][1] == b'CHAIN ' and rng.random() < 0.5:
            S.append(c(b',' + number(rng, False) + rng.choice([b'', b',ALL', b',ALL,DELETE ' + linenum(rng) + b'-' + linenum(rng)])))
    elif k < 62:
        S = [c(b'NAME '), string_lit(rng, 0), c(b' AS '), string_lit(rng, 0)]
    elif k < 63:
        S = [c(rng.choice([b'CALL ', b'CALLS ']) + rng.choice(NAMES) + b'(' + var(rng) + b',' + var(rng) + b')')]
    else:
        if dialect in ('pcjr', 'tandy'):
            S = [c(rng.choice([b'NOISE ', b'SOUND ']))] + nexpr(rng, 2) + [c(b',')] + nexpr(rng, 2) + [c(b',')] + nexpr(rng, 2)
            if rng.random() < 0.3:
                S = [c(b'TERM')]
        else:
            S = rng.choice([[c(b'LOCK #1')], [c(b'UNLOCK #1,1 TO 5')], [c(b'IOCTL #1,'), ('v', b'"x"')], [c(b'DATE$='), ('v', b'"01-01-1990"')],
                            [c(b'TIME$='), ('v', b'"12:00:00"')], [c(b'LCOPY')], [c(b'BSAVE '), ('v', b'"x"'), c(b',0,100')]])
    return S


def stmt(rng, dialect='advanced', depth=0):
    if depth < 2 and rng.random() < 0.14:
        S = [c(b'IF ')] + cond(rng)
        r = rng.random()
        if r < 0.25:
            S += [c(b' THEN ' + linenum(rng))]
        elif r < 0.35:
            S += [c(b' GOTO ' + linenum(rng))]
        else:
            S += [c(b' THEN ')] + stmt(rng, dialect, depth + 1)
            if rng.random() < 0.3:
                S += [c(b':')] + simple_stmt(rng, dialect)
        if rng.random() < 0.4 and not _ends_verbatim_open(S):
            S += [c(b' ELSE ')]
            if rng.random() < 0.35:
                S += [c(linenum(rng))]
            else:
                S += stmt(rng, dialect, depth + 1)
        return S
    return simple_stmt(rng, dialect)


def _ends_verbatim_open(S):
    """DATA swallows the rest of the statement up to ':', so nothing may follow it but ':' or end of line."""
    for kind, b in S:
        if kind == 'c' and b.startswith(b'DATA'):
            return True
    return False


def gen_line(rng, dialect='advanced', maxlen=230):
    """-> list of segments for the text after the line number."""
    for _ in range(20):
        S = []
        n = rng.choice([1, 1, 2, 2, 3, 4])
        for i in range(n):
            st = stmt(rng, dialect)
            if i:
                S.append(c(b':'))
            S += st
        r = rng.random()
        if r < 0.10:
            S += [c(b':REM'), ('v', (b' ' + comment_text(rng)).rstrip(b' '))] if S else []
        elif r < 0.18 and not _ends_verbatim_open(S):
            S += [c(rng.choice([b" '", b"'", b":'"])), ('v', comment_text(rng))]
        elif r < 0.22:
            S = [c(rng.choice([b'REM', b"'"])), ('v', (b' ' + comment_text(rng)).rstrip(b' '))]
        if sum(len(b) for k, b in S) <= maxlen:
            return S
    return [c(b'REM')]


def text_of(S):
    return b''.join(b for k, b in S)


def recase(rng, S):
    """Random capitalisation of the code segments."""
    out = []
    style = rng.randrange(3)
    for k, b in S:
        if k == 'v':
            out.append(b)
        elif style == 0:
            out.append(b.lower())
        elif style == 1:
            out.append(bytes((ch | 0x20) if (65 <= ch <= 90 and rng.random() < 0.5) else ch for ch in b))
        else:
            out.append(b)
    return b''.join(out)
