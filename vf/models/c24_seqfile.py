"""
R-FILE, sequential part (C24): item model for WRITE # / INPUT # and PRINT # / LINE INPUT #.

Written from the GW-BASIC description of the statements, not from pcbasic:

  WRITE #n, e1, e2, ...   writes the items separated by commas, strings enclosed in double quotes,
                          numbers in their decimal representation without padding blanks, and ends
                          the record with CR LF.
  PRINT #n, s$            writes the characters of s$ followed by CR LF.
  a closed text file may carry one trailing end-of-file byte 0x1A, which is not content.

Items are ('s', bytes) | ('%', None) | ('!', None) | ('#', None): for numbers the model does not
predict the text (number formatting is C07/C08); it *extracts* the text actually written so that
the oracle can compare the value read back with the value of that text.
"""
from fractions import Fraction

from . import rnum

EOF_BYTE = b'\x1a'

# bytes the property statement excludes from WRITE# strings: quote, NUL, end-of-file byte.
# CR and LF are not pinned by the statement in the default configuration (line-end translation
# options): they are used only in the dedicated soft-linefeed class.
EXCLUDED = {0x22, 0x00, 0x1a}
ALPHABET_PLAIN = bytes(b for b in range(256) if b not in EXCLUDED and b not in (0x0d, 0x0a))
ALPHABET_CRLF = bytes(b for b in range(256) if b not in EXCLUDED)
# lines: anything but the line terminators, the end-of-file byte and NUL
ALPHABET_LINE = bytes(b for b in range(256) if b not in (0x0d, 0x0a, 0x1a, 0x00))


class ImageMismatch(Exception):
    """The host file does not have the structure the statements must have produced."""

    def __init__(self, reason, offset):
        Exception.__init__(self, '%s at offset %d' % (reason, offset))
        self.reason = reason
        self.offset = offset


def strip_eof(raw):
    """Content of a closed text file: without the single trailing end-of-file byte, if present."""
    if raw.endswith(EOF_BYTE):
        return raw[:-1], True
    return raw, False


def parse_write_image(data, statements):
    """
    data: the bytes a list of WRITE# statements added to the file.
    statements: list of item lists. Returns (number_texts, end_offsets):
      number_texts - list (in item order, numbers only) of the byte text found for every numeric item
      end_offsets  - offset just past each statement's CR LF
    Raises ImageMismatch when the structure is not  item,item,...CRLF  with quoted strings.
    """
    pos = 0
    texts = []
    ends = []
    for items in statements:
        for k, item in enumerate(items):
            last = (k == len(items) - 1)
            if item[0] == 's':
                want = b'"' + item[1] + b'"'
                if data[pos:pos + len(want)] != want:
                    raise ImageMismatch('string-field', pos)
                pos += len(want)
            else:
                stop = pos
                while stop < len(data) and data[stop:stop + 1] not in (b',', b'\r', b'\n', b'"'):
                    stop += 1
                if stop == pos:
                    raise ImageMismatch('number-field-empty', pos)
                texts.append(data[pos:stop])
                pos = stop
            sep = b'\r\n' if last else b','
            if data[pos:pos + len(sep)] != sep:
                raise ImageMismatch('record-end' if last else 'separator', pos)
            pos += len(sep)
        if not items:
            if data[pos:pos + 2] != b'\r\n':
                raise ImageMismatch('record-end', pos)
            pos += 2
        ends.append(pos)
    if pos != len(data):
        raise ImageMismatch('trailing-bytes', pos)
    return texts, ends


def lines_image(lines):
    return b''.join(l + b'\r\n' for l in lines)


def as_build(line):
    """A line given as plain bytes = one PRINT# statement with one item."""
    if isinstance(line, (bytes, bytearray)):
        return [[[bytes(line), '']]]
    return line


def print_image(builds, width=None):
    """
    Bytes written by PRINT# statements. A build is the list of statements that make up one logical line;
    a statement is a list of [item, separator]: ';' joins the next item directly, ',' pads with blanks to
    the next 14-column print zone, '' (last item of the last statement) ends the line with CR LF; a
    statement that ends in ';' leaves the line open for the next statement.
    width None = the default file width 255, which means unlimited: nothing is ever inserted.
    With WIDTH #n, w: when an item does not fit in what is left of the line (and the line is not empty)
    a CR LF is written before it (items are never broken inside; generated items are <= w).
    Items contain printable characters only when ',' or a width is used (columns = characters).
    """
    if width == 255:
        # WIDTH #n, 255 is the default again: unlimited
        width = None
    out = bytearray()
    col = 1
    for build in builds:
        for stmt in as_build(build):
            for item, sep in stmt:
                w = sum(1 for c in item if c >= 0x20)
                if width is not None and col != 1 and col - 1 + w > width:
                    out += b'\r\n'
                    col = 1
                out += item
                col += w
                if sep == ',':
                    n = 1 + 14 * ((col - 1) // 14 + 1) - col
                    out += b' ' * n
                    col += n
                elif sep == '':
                    out += b'\r\n'
                    col = 1
    return bytes(out)


def read_units(image):
    """
    What LINE INPUT# delivers for a text image: every physical line in pieces of at most 255 characters
    (GW-BASIC line buffer); returns [(piece, ends_line)].
    """
    units = []
    lines = image.split(b'\r\n')
    assert lines[-1] == b''
    for l in lines[:-1]:
        if not l:
            units.append((b'', True))
            continue
        for i in range(0, len(l), 255):
            units.append((l[i:i + 255], i + 255 >= len(l)))
    return units


def significant_digits(text):
    """Number of significant decimal digits in the mantissa of a number text."""
    t = text.decode('ascii', 'replace').upper().lstrip('+-')
    for ch in 'ED':
        if ch in t:
            t = t.split(ch)[0]
    t = t.rstrip('!#%').replace('.', '')
    return len(t.lstrip('0'))


def number_tolerance(text, nbytes, got_bytes):
    """
    Largest |read back - exact decimal value of text| accepted.
    Integer variable: 0.  Single variable: 1 ulp(single).  Double variable: 1 ulp(double) when the
    text is a double-precision representation (more than 7 significant digits or a D exponent);
    otherwise the statement does not pin whether the text denotes a single- or a double-precision
    constant (GW-BASIC reads a short literal as single): accept 1 ulp(single).
    """
    if nbytes == 2:
        return Fraction(0)
    x = rnum.parse_decimal(text)
    got = rnum.decode(got_bytes)
    up = text.upper()
    if nbytes == 8 and (significant_digits(text) > 7 or b'D' in up or up.endswith(b'#')):
        return max(rnum.ulp(8, x), rnum.ulp(8, got))
    return max(rnum.ulp(4, x), rnum.ulp(4, got))
