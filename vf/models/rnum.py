"""
R-NUM: exact reference arithmetic for GW-BASIC number encodings, on Fractions.
Written from the format definition (Microsoft Binary Format), independent of
pcbasic/basic/values/numbers.py.

  Integer: 2 bytes little-endian two's complement.
  Single : 4 bytes; b[3] exponent byte E (0 => zero whatever the rest), bit 7 of b[2]
           sign, mantissa 0.1mmm.. = (0x800000 | low 23 bits) / 2^24; value = m * 2^(E-128)
  Double : 8 bytes; b[7] exponent, bit 7 of b[6] sign, 56-bit mantissa likewise.
"""
from fractions import Fraction

MANT_BITS = {4: 24, 8: 56}

INT_MIN, INT_MAX = -32768, 32767


def decode(b):
    """Exact value (Fraction) of the encoding b (2, 4 or 8 bytes)."""
    b = bytes(b)
    n = len(b)
    if n == 2:
        v = b[0] | (b[1] << 8)
        return Fraction(v - 65536 if v & 0x8000 else v)
    e = b[-1]
    if e == 0:
        return Fraction(0)
    bits = MANT_BITS[n]
    raw = int.from_bytes(b[:-1], 'little')
    neg = raw >> (bits - 1)
    man = raw | (1 << (bits - 1))
    val = Fraction(man, 1 << bits) * (Fraction(2) ** (e - 128))
    return -val if neg else val


def is_zero(b):
    b = bytes(b)
    if len(b) == 2:
        return b == b'\0\0'
    return b[-1] == 0


def encode_exact(value, n):
    """Encoding of an exactly representable value; raises ValueError otherwise. n = 2, 4 or 8."""
    value = Fraction(value)
    if n == 2:
        if value.denominator != 1 or not (INT_MIN <= value <= INT_MAX):
            raise ValueError('not an integer value')
        return (int(value) & 0xffff).to_bytes(2, 'little')
    if value == 0:
        return b'\0' * n
    bits = MANT_BITS[n]
    neg = value < 0
    a = -value if neg else value
    # find e with 1/2 <= a / 2^(e-128) < 1
    e = 128
    # use integer arithmetic
    num, den = a.numerator, a.denominator
    sh = num.bit_length() - den.bit_length()
    e = 128 + sh
    # adjust
    while Fraction(num, den) / (Fraction(2) ** (e - 128)) >= 1:
        e += 1
    while Fraction(num, den) / (Fraction(2) ** (e - 128)) < Fraction(1, 2):
        e -= 1
    m = a / (Fraction(2) ** (e - 128)) * (1 << bits)
    if m.denominator != 1:
        raise ValueError('not exactly representable')
    if not (1 <= e <= 255):
        raise ValueError('exponent out of range')
    man = int(m) & ((1 << (bits - 1)) - 1)
    if neg:
        man |= 1 << (bits - 1)
    return man.to_bytes(n - 1, 'little') + bytes([e])


def ulp(n, value_or_bytes):
    """One unit in the last binary place at the binade of the given value (Fraction) or encoding."""
    bits = MANT_BITS[n]
    if isinstance(value_or_bytes, (bytes, bytearray)):
        e = bytes(value_or_bytes)[-1]
        if e == 0:
            return Fraction(2) ** (1 - 128 - bits)
        return Fraction(2) ** (e - 128 - bits)
    a = abs(Fraction(value_or_bytes))
    if a == 0:
        return Fraction(2) ** (1 - 128 - bits)
    num, den = a.numerator, a.denominator
    e = 128 + num.bit_length() - den.bit_length()
    while a / (Fraction(2) ** (e - 128)) >= 1:
        e += 1
    while a / (Fraction(2) ** (e - 128)) < Fraction(1, 2):
        e -= 1
    e = max(e, 1)
    return Fraction(2) ** (e - 128 - bits)


def max_value(n):
    bits = MANT_BITS[n]
    return Fraction((1 << bits) - 1, 1 << bits) * Fraction(2) ** 127


def min_positive(n):
    """Smallest positive representable magnitude: exponent byte 1, mantissa 0.1000."""
    return Fraction(1, 2) * Fraction(2) ** (1 - 128)


def neighbours(value, n):
    """(lo, hi) closest representables (as Fractions) with lo <= value <= hi; ignoring range limits."""
    value = Fraction(value)
    if value == 0:
        return (Fraction(0), Fraction(0))
    u = ulp(n, value)
    k = value / u
    lo = (k.numerator // k.denominator) * u
    hi = lo if lo == value else lo + u
    return (lo, hi)


def mbf_from_float(x, n):
    """Nearest-ish MBF encoding for a Python float (used only to BUILD test inputs)."""
    f = Fraction(x)
    if f == 0:
        return b'\0' * n
    lo, hi = neighbours(f, n)
    v = lo if (f - lo) <= (hi - f) else hi
    try:
        return encode_exact(v, n)
    except ValueError:
        return None


# ---- integer operator semantics (16-bit) ---------------------------------------------------

def s16(v):
    v &= 0xffff
    return v - 65536 if v & 0x8000 else v


def trunc_div(a, b):
    q = abs(a) // abs(b)
    return -q if (a < 0) != (b < 0) else q


def trunc_mod(a, b):
    return a - b * trunc_div(a, b)


def round_half_away(x):
    x = Fraction(x)
    a = abs(x)
    fl = a.numerator // a.denominator
    r = fl + 1 if (a - fl) >= Fraction(1, 2) else fl
    return -r if x < 0 else r


def trunc(x):
    x = Fraction(x)
    a = abs(x)
    fl = a.numerator // a.denominator
    return -fl if x < 0 else fl


def floor(x):
    x = Fraction(x)
    return x.numerator // x.denominator


# ---- decimal text ----------------------------------------------------------------------------

def parse_decimal(text):
    """
    Exact value of a GW-BASIC decimal number representation as printed/listed:
    optional sign, digits with optional point, optional E/D exponent, optional trailing sigil.
    Returns Fraction or raises ValueError.
    """
    if isinstance(text, bytes):
        text = text.decode('ascii')
    t = text.strip().replace(' ', '')
    if t and t[-1] in '!#%':
        t = t[:-1]
    if not t:
        raise ValueError('empty')
    sign = 1
    if t[0] in '+-':
        sign = -1 if t[0] == '-' else 1
        t = t[1:]
    t = t.upper().replace('D', 'E')
    if 'E' in t:
        mant, _, ex = t.partition('E')
        ex = int(ex) if ex not in ('', '+', '-') else 0
    else:
        mant, ex = t, 0
    if mant.count('.') > 1:
        raise ValueError(text)
    ip, _, fp = mant.partition('.')
    if not (ip + fp).isdigit():
        raise ValueError(text)
    val = Fraction(int(ip + fp or '0'), 10 ** len(fp))
    return sign * val * Fraction(10) ** ex
