"""
R-GFX: pixel-grid reference helpers shared by C30..C33.

Everything here is written from the property statements / the GW-BASIC manual, not from
pcbasic/basic/display/graphics.py:

  * mode table (adapter -> SCREEN numbers, resolution, bits per pixel) from the hardware manuals;
    the resolution is cross-checked against the public Session.get_pixels() when a mode is entered
  * page snapshots (read-only), diff utilities, frame-condition test
  * trapped execution of ONE graphics statement (stored program with ON ERROR GOTO, so that no
    error message is ever printed over the pixels under observation)
  * geometric predicates: pixel count, end points, one-pixel-per-major-step, 8-connectivity,
    rectangle / outline sets (no Bresenham: the statement does not pin the rounding)
  * breadth-first 4-connected flood fill
  * pen arithmetic for DRAW on a structured command list (never parses the DRAW text)
"""
import contextlib
import logging
import signal
from collections import deque
from fractions import Fraction

from .. import harness

# ---------------------------------------------------------------------------------------
# mode table: (label, Box kwargs, SCREEN number, width, height, bits per pixel)

_EGA = [(1, 320, 200, 2), (2, 640, 200, 1), (7, 320, 200, 4), (8, 640, 200, 4), (9, 640, 350, 4)]
_JR = [(1, 320, 200, 2), (2, 640, 200, 1), (3, 160, 200, 4), (4, 320, 200, 2), (5, 320, 200, 4), (6, 640, 200, 2)]

GRAPHICS_MODES = []


def _add(label, kw, rows):
    for nr, w, h, bpp in rows:
        GRAPHICS_MODES.append({'label': '%s:%d' % (label, nr), 'kw': kw, 'screen': nr, 'w': w, 'h': h, 'bpp': bpp})


_add('cga', {'video': 'cga'}, [(1, 320, 200, 2), (2, 640, 200, 1)])
_add('ega', {'video': 'ega'}, _EGA)
_add('ega64k', {'video': 'ega', 'video_memory': 65536}, [(7, 320, 200, 4), (9, 640, 350, 2)])
_add('egamono', {'video': 'ega', 'monitor': 'mono'}, [(10, 640, 350, 2)])
_add('vga', {'video': 'vga'}, _EGA)
_add('hercules', {'video': 'hercules', 'monitor': 'mono'}, [(3, 720, 348, 1)])
_add('olivetti', {'video': 'olivetti'}, [(1, 320, 200, 2), (2, 640, 200, 1), (3, 640, 400, 1)])
_add('pcjr', {'video': 'pcjr'}, _JR)
_add('tandy', {'video': 'tandy'}, _JR)

MODE_BY_LABEL = {m['label']: m for m in GRAPHICS_MODES}

# text modes: every adapter, 40 and 80 columns
TEXT_ADAPTERS = [
    ('cga', {'video': 'cga'}), ('ega', {'video': 'ega'}), ('egamono', {'video': 'ega', 'monitor': 'mono'}),
    ('vga', {'video': 'vga'}), ('mda', {'video': 'mda', 'monitor': 'mono'}),
    ('hercules', {'video': 'hercules', 'monitor': 'mono'}), ('olivetti', {'video': 'olivetti'}),
    ('pcjr', {'video': 'pcjr'}), ('tandy', {'video': 'tandy'}),
]


def other_screens(mode):
    """SCREEN numbers of the same adapter other than `mode` (graphics modes of the table, then 0 = text)."""
    prefix = mode['label'].split(':')[0]
    nrs = [m['screen'] for m in GRAPHICS_MODES if m['label'].split(':')[0] == prefix and m['screen'] != mode['screen']]
    return nrs + [0]


def mode_cost(m):
    """Relative cost of a mode (pixels per page): used to balance shards."""
    return m['w'] * m['h']


def balanced_groups(items, ngroups, cost):
    """Greedy partition of items into ngroups of similar total cost (deterministic)."""
    groups = [[] for _ in range(ngroups)]
    load = [0] * ngroups
    for it in sorted(items, key=lambda i: (-cost(i), repr(i))):
        k = load.index(min(load))
        groups[k].append(it)
        load[k] += cost(it)
    return [g for g in groups if g]


# ---------------------------------------------------------------------------------------
# CPU-time guard around one statement (process CPU time, so machine load cannot trigger it)

class StatementHang(BaseException):
    """Raised by the guard's timer inside a statement that used up its CPU budget."""


def _on_vtalrm(signum, frame):
    raise StatementHang()


@contextlib.contextmanager
def cpu_guard(seconds):
    old = signal.signal(signal.SIGVTALRM, _on_vtalrm)
    signal.setitimer(signal.ITIMER_VIRTUAL, seconds)
    try:
        yield
    finally:
        signal.setitimer(signal.ITIMER_VIRTUAL, 0)
        signal.signal(signal.SIGVTALRM, old)


def is_hang(exc):
    """True for StatementHang itself or a harness.Internal wrapping it."""
    return isinstance(exc, StatementHang) or isinstance(getattr(exc, 'exc', None), StatementHang)


# ---------------------------------------------------------------------------------------
# snapshots

def _page_fast(page):
    return b''.join(page._pixels._rows)


def _page_public(page):
    return page.pixels[:, :].to_bytes()


class ModeMismatch(Exception):
    pass


class Corrupt(Exception):
    """
    An OBSERVATION of the session failed or returned an impossible picture (public get_pixels / get_chars /
    VideoBuffer.pixels raised, or a page buffer no longer has width*height pixels).  That is evidence about
    the code under test: checks report it as  frame:page-buffer-corrupted:<what>  and replace the session.
    """

    def __init__(self, what, detail=''):
        Exception.__init__(self, '%s %s' % (what, detail))
        self.what = what
        self.detail = detail


def _observe(fn, *args):
    try:
        return fn(*args)
    except Exception as e:       # noqa: an exception out of an accessor is a finding, not a harness failure
        raise Corrupt(type(e).__name__, 'in %s: %s' % (getattr(fn, '__name__', 'accessor'), e))


class GBox(object):
    """
    A sandboxed session put into one graphics (or text) mode, with
      .trap(stmt)   execute one statement inside a stored program under ON ERROR GOTO
                    -> BASIC error code (0 = none, -2 = Break by the harness budget)
      .snap()       list of bytes, one per video page (row-major attribute bytes)
      .active()     bytes of the active page only
    The page-buffer read is read-only; its fast path (joining the row bytearrays) is validated
    against the public accessors (VideoBuffer.pixels[:, :], Session.get_pixels) at start-up and
    falls back to them if it is unavailable or disagrees.
    """

    SCAFFOLD = [b'10 ON ERROR GOTO 90', b'20 REM', b'30 END', b'90 E%=ERR:RESUME 30']

    def __init__(self, mode=None, kw=None, wait_budget=2000000, budget=200000):
        logging.disable(logging.WARNING)     # "no 14-pixel font" warnings of the sandboxed sessions
        self.mode = mode
        kw = dict(kw if kw is not None else mode['kw'])
        self.box = harness.Box(budget=budget, wait_budget=wait_budget, **kw)
        self.fast = True
        self.w = self.h = None
        self.nattr = None
        self.npages = 1
        self.apage = 0
        self.vpage = 0
        self.fallbacks = 0
        self.box.enter(self.SCAFFOLD)
        if mode is not None:
            self.enter_mode()

    # -- context -------------------------------------------------------------------------
    def __enter__(self):
        return self

    def __exit__(self, *a):
        self.close()
        return False

    def close(self):
        self.box.close()

    # -- mode ----------------------------------------------------------------------------
    @property
    def display(self):
        return self.box.impl.display

    def enter_mode(self, apage=None, vpage=None):
        """SCREEN n[,,apage,vpage]; checks the resolution against the mode table through the public API."""
        m = self.mode
        if apage is None:
            out = self.box.ex(b'SCREEN %d' % m['screen'])
            apage = vpage = 0
        else:
            out = self.box.ex(b'SCREEN %d,,%d,%d' % (m['screen'], apage, vpage))
        code, _ = harness.err_of(out)
        if code:
            raise ModeMismatch('SCREEN %d on %s raised error %d' % (m['screen'], m['label'], code))
        self.apage, self.vpage = apage, vpage
        self.w, self.h = m['w'], m['h']
        self.nattr = 1 << m['bpp']
        self.npages = len(self.display.pages)
        px = _observe(self.box.s.get_pixels)
        if len(px) != self.h or len(px[0]) != self.w:
            raise ModeMismatch('%s: get_pixels is %dx%d, table says %dx%d' % (
                m['label'], len(px[0]), len(px), self.w, self.h))
        self.validate_fast(px)
        return px

    def round_trip(self, other, apage, vpage):
        """
        History "mode change that keeps page numbers": SCREEN other,,a,v then SCREEN m,,a,v, the pages
        named in both statements (so the active page afterwards is `apage` by the statements' own words).
        Every page is erased by the mode change.  -> False if the other mode refused those pages
        (then SCREEN m,,a,v alone was executed).
        """
        self.box.ex(b'VIEW:WINDOW')
        out = self.box.ex(b'SCREEN %d,,%d,%d' % (other, apage, vpage))
        code, _ = harness.err_of(out)
        self.enter_mode(apage, vpage)
        return not code

    def validate_fast(self, px=None):
        """Cross-check the fast snapshot path against the public accessors (which must not raise)."""
        pages = self.display.pages
        public = [_observe(_page_public, p) for p in pages]
        if px is None:
            px = _observe(self.box.s.get_pixels)
        flat = b''.join(bytes(r) for r in px)
        for i, data in enumerate(public):
            self._sized(data, i)
        try:
            ok = all(_page_fast(p) == d for p, d in zip(pages, public)) and _page_fast(pages[self.vpage]) == flat
        except Exception:
            ok = False
        if not ok:
            if public[self.vpage] != flat:
                raise Corrupt('public-views-disagree', 'Session.get_pixels differs from VideoBuffer.pixels of the visible page')
            if self.fast:
                self.fallbacks += 1
            self.fast = False
        return ok

    def _sized(self, data, page):
        if self.w is not None and len(data) != self.w * self.h:
            raise Corrupt('page-size', 'page %d holds %d pixels instead of %dx%d' % (page, len(data), self.w, self.h))
        return data

    def snap(self):
        pages = self.display.pages
        if self.fast:
            try:
                return [self._sized(b''.join(p._pixels._rows), i) for i, p in enumerate(pages)]
            except Corrupt:
                raise
            except Exception:
                self.fast = False
                self.fallbacks += 1
        return [self._sized(_observe(_page_public, p), i) for i, p in enumerate(pages)]

    def active(self):
        p = self.display.pages[self.apage]
        if self.fast:
            try:
                return self._sized(b''.join(p._pixels._rows), self.apage)
            except Corrupt:
                raise
            except Exception:
                self.fast = False
                self.fallbacks += 1
        return self._sized(_observe(_page_public, p), self.apage)

    def chars(self):
        """Characters of all pages (text-mode frame condition)."""
        return [_observe(p.get_chars) for p in self.display.pages]

    # -- execution -----------------------------------------------------------------------
    def trap(self, stmt, budget=None):
        """
        Run `stmt` (bytes, may be several statements joined by ':') as line 20 of the scaffold.
        Returns the trapped BASIC error code, 0 if none, -2 if the run was ended by the harness
        budget (Break), -3 if the line could not be stored.  harness.Internal propagates.
        """
        box = self.box
        out = box.ex(b'20 ' + stmt)
        if out:
            return -3
        out = box.ex(b'GOTO 10', budget)
        if box.stepper is not None and box.stepper.break_hit:
            return -2
        if out:
            code, _ = harness.err_of(out)
            return code or -4
        e = box.get('E%')
        return int(e or 0)

    def direct(self, stmt):
        """Direct-mode execution -> error code (0 none)."""
        out = self.box.ex(stmt)
        if not out:
            return 0
        code, _ = harness.err_of(out)
        return code or -4

    def point(self, x, y):
        return self.box.ev(b'POINT(%d,%d)' % (x, y))


# ---------------------------------------------------------------------------------------
# diffs and the frame condition

def diff_points(a, b, w, h, limit=None):
    """[(x, y)] where snapshots differ."""
    if a == b:
        return []
    out = []
    for y in range(h):
        o = y * w
        ra, rb = a[o:o + w], b[o:o + w]
        if ra != rb:
            for x in range(w):
                if ra[x] != rb[x]:
                    out.append((x, y))
                    if limit is not None and len(out) >= limit:
                        return out
    return out


def changed_outside(a, b, w, h, rect):
    """
    Pixels that differ outside rect=(x0,y0,x1,y1) (inclusive; None = nothing is allowed to change).
    Returns (count, first) with first=(x, y) or None.
    """
    if a == b:
        return 0, None
    n, first = 0, None
    if rect is None:
        pts = diff_points(a, b, w, h)
        return len(pts), (pts[0] if pts else None)
    x0, y0, x1, y1 = rect
    x0, y0 = max(0, x0), max(0, y0)
    x1, y1 = min(w - 1, x1), min(h - 1, y1)
    # rows above / below
    for (ya, yb) in ((0, y0), (y1 + 1, h)):
        if yb > ya and a[ya * w:yb * w] != b[ya * w:yb * w]:
            for y in range(ya, yb):
                o = y * w
                if a[o:o + w] != b[o:o + w]:
                    for x in range(w):
                        if a[o + x] != b[o + x]:
                            n += 1
                            if first is None:
                                first = (x, y)
    # sides
    for y in range(y0, y1 + 1):
        o = y * w
        if x0 > 0 and a[o:o + x0] != b[o:o + x0]:
            for x in range(0, x0):
                if a[o + x] != b[o + x]:
                    n += 1
                    if first is None:
                        first = (x, y)
        if x1 < w - 1 and a[o + x1 + 1:o + w] != b[o + x1 + 1:o + w]:
            for x in range(x1 + 1, w):
                if a[o + x] != b[o + x]:
                    n += 1
                    if first is None:
                        first = (x, y)
    return n, first


# ---------------------------------------------------------------------------------------
# rectangle sets and line predicates

def rect_set(x0, y0, x1, y1):
    xa, xb = min(x0, x1), max(x0, x1)
    ya, yb = min(y0, y1), max(y0, y1)
    return {(x, y) for y in range(ya, yb + 1) for x in range(xa, xb + 1)}


def outline_set(x0, y0, x1, y1):
    xa, xb = min(x0, x1), max(x0, x1)
    ya, yb = min(y0, y1), max(y0, y1)
    s = set()
    for x in range(xa, xb + 1):
        s.add((x, ya))
        s.add((x, yb))
    for y in range(ya, yb + 1):
        s.add((xa, y))
        s.add((xb, y))
    return s


def line_faults(points, p0, p1):
    """
    Which of the statement's clauses a drawn pixel set violates, for the line p0-p1:
      'pixel-count'   != max(|dx|,|dy|)+1
      'endpoints'     an end point is missing
      'major-step'    not exactly one pixel per step along the major axis (implied by the other
                      clauses; reported separately because it localises the fault)
      'connectivity'  consecutive pixels not 8-adjacent
    """
    (x0, y0), (x1, y1) = p0, p1
    dx, dy = abs(x1 - x0), abs(y1 - y0)
    n = max(dx, dy)
    faults = []
    pts = set(points)
    if len(pts) != n + 1:
        faults.append('pixel-count')
    if (x0, y0) not in pts or (x1, y1) not in pts:
        faults.append('endpoints')
    # a diagonal has two major axes; either will do
    axes = [0] if dx > dy else [1] if dy > dx else [0, 1]
    ok_major = ok_conn = False
    for ax in axes:
        lo = min(p0[ax], p1[ax])
        hi = max(p0[ax], p1[ax])
        by = {}
        good = True
        for p in pts:
            if p[ax] < lo or p[ax] > hi or p[ax] in by:
                good = False
                break
            by[p[ax]] = p[1 - ax]
        if good and len(by) == hi - lo + 1:
            ok_major = True
            if all(abs(by[k + 1] - by[k]) <= 1 for k in range(lo, hi)):
                ok_conn = True
    if not ok_major:
        faults.append('major-step')
        # connectivity by graph search
        if pts and not connected8(pts):
            faults.append('connectivity')
    elif not ok_conn:
        faults.append('connectivity')
    return faults


def connected8(pts):
    pts = set(pts)
    if not pts:
        return True
    start = next(iter(pts))
    seen = {start}
    todo = [start]
    while todo:
        x, y = todo.pop()
        for dx in (-1, 0, 1):
            for dy in (-1, 0, 1):
                q = (x + dx, y + dy)
                if q in pts and q not in seen:
                    seen.add(q)
                    todo.append(q)
    return len(seen) == len(pts)


# ---------------------------------------------------------------------------------------
# breadth-first 4-connected flood fill

def flood_region(pix, w, h, rect, seed, border):
    """
    4-connected region of pixels != border that contains seed and lies inside rect (inclusive,
    absolute page coordinates), computed on the snapshot `pix`.
    Returns a set of linear indices y*w+x (empty if the seed is outside rect or on a border pixel).
    """
    x0, y0, x1, y1 = rect
    x0, y0 = max(0, x0), max(0, y0)
    x1, y1 = min(w - 1, x1), min(h - 1, y1)
    sx, sy = seed
    if sx < x0 or sx > x1 or sy < y0 or sy > y1:
        return set()
    if pix[sy * w + sx] == border:
        return set()
    seen = {sy * w + sx}
    q = deque(seen)
    while q:
        i = q.popleft()
        y, x = divmod(i, w)
        if x > x0:
            j = i - 1
            if j not in seen and pix[j] != border:
                seen.add(j)
                q.append(j)
        if x < x1:
            j = i + 1
            if j not in seen and pix[j] != border:
                seen.add(j)
                q.append(j)
        if y > y0:
            j = i - w
            if j not in seen and pix[j] != border:
                seen.add(j)
                q.append(j)
        if y < y1:
            j = i + w
            if j not in seen and pix[j] != border:
                seen.add(j)
                q.append(j)
    return seen


# ---------------------------------------------------------------------------------------
# DRAW pen arithmetic on structured commands
#
# command forms (lists, JSON-able):
#   ['S', n]                      scale factor n/4
#   ['C', c]                      colour
#   ['mv', letter, n, b, nn]      U D L R E F G H with count n (None = no count given = 1)
#   ['mr', dx, dy, b, nn]         M+dx,dy / M-dx,dy   (relative)
#   ['ma', x, y, b, nn]           Mx,y                (absolute)
#   ['X', [commands]]             substring, executed in place
#   ['B'] / ['N']                 prefix given on its own: stays pending until the next move command,
#                                 whatever non-move commands (S, C, A 0, TA 0, move-free substrings,
#                                 blanks, ';') come in between
#   ['A', 0] / ['TA', 0]          angle zero: no turning, no effect on the pen
# b = B prefix (move without drawing), nn = N prefix (return to the start of the move)

DIRS = {'U': (0, -1), 'D': (0, 1), 'L': (-1, 0), 'R': (1, 0), 'E': (1, -1), 'F': (1, 1), 'G': (-1, 1), 'H': (-1, -1)}


def trunc_scale(v, scale):
    """v * scale / 4 truncated toward zero."""
    q = Fraction(v * scale, 4)
    return int(q) if q >= 0 else -int(-q)


def pen_run(cmds, start, scale=4, colour=None):
    """
    -> (final position, segments, scale, colour)
    segments = [(x0, y0, x1, y1, colour)] in drawing order (only moves that draw).
    """
    pos = [start[0], start[1]]
    segs = []
    state = {'scale': scale, 'colour': colour, 'b': False, 'n': False}

    def has_move(cs):
        return any(c[0] in ('mv', 'mr', 'ma') or (c[0] == 'X' and has_move(c[1])) for c in cs)

    def run(cs):
        for c in cs:
            op = c[0]
            if op == 'S':
                state['scale'] = c[1]
            elif op == 'C':
                state['colour'] = c[1]
            elif op == 'B':
                state['b'] = True
            elif op == 'N':
                state['n'] = True
            elif op in ('A', 'TA'):
                if c[1] != 0:
                    raise ValueError('turning is outside the model')
            elif op == 'X':
                if (state['b'] or state['n']) and has_move(c[1]):
                    raise ValueError('a pending prefix in front of a substring with moves is not pinned')
                run(c[1])
            else:
                if op == 'mv':
                    n = 1 if c[2] is None else c[2]
                    ux, uy = DIRS[c[1]]
                    tx = pos[0] + trunc_scale(ux * n, state['scale'])
                    ty = pos[1] + trunc_scale(uy * n, state['scale'])
                elif op == 'mr':
                    tx = pos[0] + trunc_scale(c[1], state['scale'])
                    ty = pos[1] + trunc_scale(c[2], state['scale'])
                elif op == 'ma':
                    tx, ty = c[1], c[2]
                else:
                    raise ValueError(op)
                b, nn = c[-2] or state['b'], c[-1] or state['n']
                state['b'] = state['n'] = False
                if not b:
                    segs.append((pos[0], pos[1], tx, ty, state['colour']))
                if not nn:
                    pos[0], pos[1] = tx, ty
    run(cmds)
    return (pos[0], pos[1]), segs, state['scale'], state['colour']
