"""
R-MEM for C10: dictionary model of string scalars / one-dimensional string arrays with
reference semantics for LET, MID$=, LSET, RSET, SWAP, ERASE, DIM, string functions, DEF FN calls,
plus the byte budget of the statement of C10:

    free after a collection = memory size - program - variables - arrays - live string bytes

'memory size - program' is MEASURED (FRE("") right after CLEAR, nothing allocated) and stored as f0;
variable and array records follow the GW-BASIC variable table layout (type byte, two name
characters, count + rest of the name, value / for arrays: byte length, number of dimensions, one word
per dimension, elements); 'live string bytes' are the characters of the strings that live in string
space - a string that points into the program text (a literal assigned in a stored line, or a
copy of such a variable) costs nothing until it is modified in place (then it is copied).

Statements are small tuples (ASTs) so that a history can be replayed, shrunk and printed:

 string expressions
   ('var', 'A$') ('elem', 'P$', i) ('lit', b'..') ('cat', e, e) ('left', e, n) ('right', e, n)
   ('mid', e, start, n) ('string', n, code) ('space', n) ('chr', code) ('str', n) ('fn', 'FNC$', [arg, ..])
 numeric arguments (n, start, code) are ints or numeric expressions
   ('nvar', 'K%') ('nadd', n, n) ('nmul', n, n) ('nlen', e) ('nasc', e) ('ninstr', e, e) ('ncmp', '<', e, e)
   ('nfn', 'FNQ!', [arg, ..])
 statements
   ('let', target, e) ('midset', target, start, n, e) ('lset', target, e) ('rset', target, e)
   ('swap', target, target) ('erase', 'E$') ('dim', 'E$', bound) ('newvar', 'V$')
   ('instr', e, e) ('len', e)            N% = INSTR(e, e) / LEN(e)
   ('ncalc', n)                          N% = numeric expression
   ('fre_s',) ('fre_0',) ('fre_both',)   PRINT FRE("") / FRE(0) / both
   ('fre_v', target)                     PRINT FRE(A$)
   ('deffn', 'FNC$', [params], body)     DEF FN (only in stored lines)
   ('apiset', 'A$', bytes)               Session.set_variable
"""
from . import c09_rstr as R

OOSS, OOM, IFC, TOO_LONG, SUBSCRIPT = 14, 7, 5, 15, 9


class Skip(Exception):
    """The statement's preconditions do not hold in the current state: it is not executed."""


class BasicError(Exception):
    def __init__(self, code):
        Exception.__init__(self, code)
        self.code = code


def scalar_record(name):
    """Bytes of a scalar in the variable table: type, 2 name chars, rest-count, rest of name, value."""
    chars = len(name) - 1
    size = {'$': 3, '%': 2, '!': 4, '#': 8}[name[-1]]
    return 1 + 2 + 1 + max(0, chars - 2) + size


def array_record(name, bounds):
    chars = len(name) - 1
    size = {'$': 3, '%': 2, '!': 4, '#': 8}[name[-1]]
    n = 1
    for b in bounds:
        n *= b + 1
    return 1 + 2 + 1 + max(0, chars - 2) + 2 + 1 + 2 * len(bounds) + n * size


class Mem(object):

    def __init__(self, f0=None):
        self.f0 = f0
        self.scal = {}     # 'A$' -> [bytes, in_code]
        self.ints = {}     # 'N%' -> int
        self.arr = {}      # 'P$' -> {'bound': b, 'vals': {i: [bytes, in_code]}}
        self.fns = {}      # 'FNC$' -> (params, body)
        self.fn_records = set()   # functions that own an entry in the variable table

    # -- accounting --------------------------------------------------------------------------
    def var_bytes(self):
        n = sum(scalar_record(k) for k in self.scal) + sum(scalar_record(k) for k in self.ints)
        n += sum(array_record(k, (a['bound'],)) for k, a in self.arr.items())
        # DEF FN keeps its entry in the variable table like a scalar of the function's name and type
        n += sum(scalar_record(k[2:]) for k in self.fn_records)
        return n

    def live_string_bytes(self):
        n = sum(len(v) for v, code in self.scal.values() if not code)
        for a in self.arr.values():
            n += sum(len(v) for v, code in a['vals'].values() if not code)
        return n

    def free(self):
        return self.f0 - self.var_bytes() - self.live_string_bytes()

    # -- access ----------------------------------------------------------------------------------
    def cell(self, target, create=False):
        """The [value, in_code] cell of a target; Skip if it cannot be addressed in this state."""
        if target[0] == 'var':
            c = self.scal.get(target[1])
            if c is None:
                raise Skip()
            return c
        a = self.arr.get(target[1])
        if a is None or target[2] > a['bound']:
            raise Skip()
        return a['vals'].setdefault(target[2], [b'', False])

    def snapshot(self):
        return ({k: v[0] for k, v in self.scal.items()},
                {k: [a['vals'].get(i, [b''])[0] for i in range(a['bound'] + 1)] for k, a in self.arr.items()})


class Plan(object):
    """Outcome of a statement in a given state."""
    __slots__ = ('expect', 'need', 'commit', 'kind', 'fre', 'result', 'bare_param')

    def __init__(self):
        self.expect = ('ok',)
        self.need = 0
        self.commit = lambda: None
        self.fre = None
        self.result = None
        self.bare_param = None


class Evaluator(object):
    """Reference evaluation of string expressions; sums the bytes each intermediate result needs."""

    def __init__(self, mem, mode):
        self.mem = mem
        self.mode = mode        # 'direct' or 'program': where the literals of the statement live
        self.need = 0
        self.bare_param = None  # (param name) if a called function's body is just a parameter
        self.origin = None      # variable / element whose own string the last result is (None: a fresh result)

    def alloc(self, n):
        self.need += n

    def ev(self, e, env=None, mode=None):
        """Returns (value, kind); kind 'temp' (fresh result), 'space' (a variable's string in
        string space) or 'code' (characters in the program text)."""
        mode = mode or self.mode
        op = e[0]
        if op == 'var':
            if env is not None and e[1] in env:
                v, k, self.origin = env[e[1]]
                return v, k
            self.origin = ('var', e[1])
            c = self.mem.scal.get(e[1])
            if c is None:
                return b'', 'temp'
            return c[0], ('code' if c[1] else 'space')
        if op == 'elem':
            a = self.mem.arr.get(e[1])
            if a is None or e[2] > a['bound']:
                raise Skip()
            self.origin = ('elem', e[1], e[2])
            c = a['vals'].get(e[2], [b'', False])
            return c[0], ('code' if c[1] else 'space')
        self.origin = None
        if op == 'lit':
            if mode == 'program':
                return e[1], 'code'
            self.alloc(len(e[1]))
            return e[1], 'temp'
        if op == 'cat':
            l, _ = self.ev(e[1], env, mode)
            r, _ = self.ev(e[2], env, mode)
            return self._res(R.concat(l, r))
        if op == 'left':
            v = self.ev(e[1], env, mode)[0]
            return self._res(R.left(v, self.nev(e[2], env, mode)))
        if op == 'right':
            v = self.ev(e[1], env, mode)[0]
            return self._res(R.right(v, self.nev(e[2], env, mode)))
        if op == 'mid':
            v = self.ev(e[1], env, mode)[0]
            st = self.nev(e[2], env, mode)
            return self._res(R.mid(v, st, self.nev(e[3], env, mode)))
        if op == 'string':
            n = self.nev(e[1], env, mode)
            if not 0 <= n <= 255:
                raise BasicError(IFC)
            return self._res(R.string_code(n, self.nev(e[2], env, mode)))
        if op == 'space':
            return self._res(R.space(self.nev(e[1], env, mode)))
        if op == 'chr':
            return self._res(R.chr_(self.nev(e[1], env, mode)))
        if op == 'str':
            # STR$ of an integer value: sign position (blank or minus) and the digits
            n = self.nev(e[1], env, mode)
            self.origin = None
            return self._res(('ok', (b'-%d' % -n) if n < 0 else (b' %d' % n)))
        if op == 'fn':
            return self.call(e[1], e[2], env, mode)
        raise ValueError(op)

    def call(self, name, arg_exprs, env, mode):
        """DEF FN call (string or numeric function). Parameters are ordinary variables that hold the
        arguments during the call (also for functions called from the body) and get their values back."""
        fn = self.mem.fns.get(name)
        if fn is None:
            raise Skip()
        params, body = fn
        args = []
        for prm, a in zip(params, arg_exprs):
            if prm[-1] == '$':
                v, k = self.ev(a, env, mode)
                args.append((v, 'code' if k == 'code' else 'space', self.origin))
            else:
                v = self.nev(a, env, mode)
                if not -32768 <= v <= 32767:
                    raise BasicError(6)
                args.append(('num', v))
        for prm in params:
            if prm not in self.mem.scal and prm not in self.mem.ints:
                raise Skip()    # calling would create the parameter variable
        inner = dict(env or {})
        inner.update(zip(params, args))
        bare = body[0] == 'var' and body[1] in params
        if bare:
            self.bare_param = body[1]
        # literals of the body live in the program text
        if name[-1] == '$':
            r = self.ev(body, inner, 'program')
            if not bare:
                self.origin = None
            return r
        v = self.nev(body, inner, 'program')
        self.origin = None
        if name[-1] == '%' and not -32768 <= v <= 32767:
            raise BasicError(6)
        return v

    def nev(self, e, env=None, mode=None):
        """Integer value of a numeric expression (an int or a small numeric AST)."""
        if isinstance(e, int):
            return e
        mode = mode or self.mode
        op = e[0]
        if op == 'nvar':
            if env is not None and e[1] in env:
                return env[e[1]][1]
            return self.mem.ints.get(e[1], 0)
        if op == 'nadd':
            v = self.nev(e[1], env, mode) + self.nev(e[2], env, mode)
        elif op == 'nmul':
            v = self.nev(e[1], env, mode) * self.nev(e[2], env, mode)
        elif op == 'nlen':
            v = len(self.ev(e[1], env, mode)[0])
        elif op == 'nasc':
            v = self.ev(('cat', e[1], ('lit', b'a')), env, mode)[0][0]
        elif op == 'ninstr':
            a = self.ev(e[1], env, mode)[0]
            b = self.ev(e[2], env, mode)[0]
            v = R.instr(a, b)[1]
        elif op == 'ncmp':
            a = self.ev(e[2], env, mode)[0]
            b = self.ev(e[3], env, mode)[0]
            v = R.compare(e[1], a, b)[1]
        elif op == 'nfn':
            v = self.call(e[1], e[2], env, mode)
        else:
            raise ValueError(op)
        self.origin = None
        if abs(v) > 30000:
            raise Skip()       # keep clear of the integer limits (conversion questions belong to C03)
        return v

    def _res(self, r):
        self.origin = None
        if r[0] == 'err':
            raise BasicError(r[1])
        self.alloc(len(r[1]))
        return r[1], 'temp'


def plan(mem, stmt, mode):
    """Plan of a statement in the current model state. Raises Skip."""
    p = Plan()
    op = stmt[0]
    p.kind = op
    ev = Evaluator(mem, mode)

    def store(cell, value, kind):
        """LET semantics for a string value of the given kind."""
        if not value:
            return lambda: cell.__setitem__(slice(None), [b'', False])
        if kind == 'code':
            return lambda: cell.__setitem__(slice(None), [value, True])
        if kind == 'space':
            ev.alloc(len(value))     # a variable's string is copied
        return lambda: cell.__setitem__(slice(None), [value, False])

    try:
        if op == 'let':
            cell = mem.cell(stmt[1])
            value, kind = ev.ev(stmt[2])
            p.commit = store(cell, value, kind)
        elif op == 'midset':
            cell = mem.cell(stmt[1])
            start, n = stmt[2], stmt[3]
            if stmt[4] == stmt[1]:
                raise Skip()       # same-string overlap belongs to C09
            if not 1 <= start <= len(cell[0]):
                raise BasicError(IFC)
            value, _ = ev.ev(stmt[4])
            if ev.origin == tuple(stmt[1]):
                raise Skip()       # the source IS the target's own string (through an identity function)
            r = R.mid_statement(cell[0], start, n, value)
            new = r[1]
            count = min(n, len(value), len(cell[0]) - start + 1)
            if count > 0:
                if cell[1]:
                    ev.alloc(len(cell[0]))      # characters in the program text are copied first
                p.commit = lambda: cell.__setitem__(slice(None), [new, False])
        elif op in ('lset', 'rset'):
            cell = mem.cell(stmt[1])
            value, _ = ev.ev(stmt[2])
            new = (R.lset if op == 'lset' else R.rset)(cell[0], value)[1]
            if cell[0]:
                if cell[1]:
                    ev.alloc(len(cell[0]))
                p.commit = lambda: cell.__setitem__(slice(None), [new, False])
        elif op == 'swap':
            c1, c2 = mem.cell(stmt[1]), mem.cell(stmt[2])

            def commit():
                a, b = list(c1), list(c2)
                c1[:] = b
                c2[:] = a
            p.commit = commit
        elif op == 'erase':
            if stmt[1] not in mem.arr:
                raise Skip()
            p.commit = lambda: mem.arr.pop(stmt[1])
        elif op == 'dim':
            if stmt[1] in mem.arr:
                raise Skip()
            ev.alloc(array_record(stmt[1], (stmt[2],)))
            p.commit = lambda: mem.arr.__setitem__(stmt[1], {'bound': stmt[2], 'vals': {}})
        elif op == 'newvar':
            if stmt[1] in mem.scal:
                raise Skip()
            ev.alloc(scalar_record(stmt[1]))
            p.commit = lambda: mem.scal.__setitem__(stmt[1], [b'', False])
        elif op == 'instr':
            if 'N%' not in mem.ints:
                raise Skip()
            a, _ = ev.ev(stmt[1])
            b, _ = ev.ev(stmt[2])
            p.result = R.instr(a, b)[1]
            p.commit = lambda: mem.ints.__setitem__('N%', p.result)
        elif op == 'len':
            if 'N%' not in mem.ints:
                raise Skip()
            a, _ = ev.ev(stmt[1])
            p.result = len(a)
            p.commit = lambda: mem.ints.__setitem__('N%', p.result)
        elif op == 'ncalc':
            if 'N%' not in mem.ints:
                raise Skip()
            p.result = ev.nev(stmt[1])
            p.commit = lambda: mem.ints.__setitem__('N%', p.result)
        elif op in ('fre_s', 'fre_0', 'fre_both'):
            p.fre = op
        elif op == 'fre_v':
            # FRE(x$): a collection, then the free space; the argument is a variable (no allocation)
            mem.cell(stmt[1])
            p.fre = op
        elif op == 'deffn':
            for prm in stmt[2]:
                if prm not in mem.scal and prm not in mem.ints:
                    raise Skip()       # DEF FN would create the parameter variable
            if stmt[1] not in mem.fn_records:
                ev.alloc(scalar_record(stmt[1][2:]))

            def commit():
                mem.fns[stmt[1]] = (list(stmt[2]), stmt[3])
                mem.fn_records.add(stmt[1])
            p.commit = commit
        elif op == 'apiset':
            cell = mem.cell(('var', stmt[1]))
            ev.alloc(len(stmt[2]))
            value = stmt[2]
            p.commit = lambda: cell.__setitem__(slice(None), [value, False])
        else:
            raise ValueError(op)
    except BasicError as e:
        p.expect = ('err', e.code)
        p.commit = lambda: None
    p.need = ev.need
    p.bare_param = ev.bare_param
    return p


# ---------------------------------------------------------------------------------------------
# BASIC source text

def expr_text(e):
    op = e[0]
    if op == 'var':
        return e[1].encode()
    if op == 'elem':
        return b'%s(%d)' % (e[1].encode(), e[2])
    if op == 'lit':
        return b'"' + e[1] + b'"'
    if op == 'cat':
        # + associates to the left in BASIC: a right operand that is itself a concatenation keeps its parentheses,
        # so that the order of the intermediate results is the one the model evaluates
        right = expr_text(e[2])
        if e[2][0] == 'cat':
            right = b'(' + right + b')'
        return expr_text(e[1]) + b'+' + right
    if op == 'left':
        return b'LEFT$(%s,%s)' % (expr_text(e[1]), num_text(e[2]))
    if op == 'right':
        return b'RIGHT$(%s,%s)' % (expr_text(e[1]), num_text(e[2]))
    if op == 'mid':
        return b'MID$(%s,%s,%s)' % (expr_text(e[1]), num_text(e[2]), num_text(e[3]))
    if op == 'string':
        return b'STRING$(%s,%s)' % (num_text(e[1]), num_text(e[2]))
    if op == 'space':
        return b'SPACE$(%s)' % num_text(e[1])
    if op == 'chr':
        return b'CHR$(%s)' % num_text(e[1])
    if op == 'str':
        return b'STR$(%s)' % num_text(e[1])
    if op == 'fn':
        return call_text(e[1], e[2])
    raise ValueError(op)


def call_text(name, args):
    if not args:
        return name.encode()
    return name.encode() + b'(' + b','.join(num_text(a) if (isinstance(a, int) or a[0].startswith('n')) else expr_text(a)
                                          for a in args) + b')'


def num_text(e):
    if isinstance(e, int):
        return b'%d' % e
    op = e[0]
    if op == 'nvar':
        return e[1].encode()
    if op == 'nadd':
        return b'(' + num_text(e[1]) + b'+' + num_text(e[2]) + b')'
    if op == 'nmul':
        return b'(' + num_text(e[1]) + b'*' + num_text(e[2]) + b')'
    if op == 'nlen':
        return b'LEN(' + expr_text(e[1]) + b')'
    if op == 'nasc':
        return b'ASC(' + expr_text(e[1]) + b'+"a")'
    if op == 'ninstr':
        return b'INSTR(' + expr_text(e[1]) + b',' + expr_text(e[2]) + b')'
    if op == 'ncmp':
        return b'(' + expr_text(e[2]) + e[1].encode() + expr_text(e[3]) + b')'
    if op == 'nfn':
        return call_text(e[1], e[2])
    raise ValueError(op)


def stmt_text(s):
    op = s[0]
    if op == 'let':
        return expr_text(s[1]) + b'=' + expr_text(s[2])
    if op == 'midset':
        return b'MID$(%s,%d,%d)=%s' % (expr_text(s[1]), s[2], s[3], expr_text(s[4]))
    if op == 'lset':
        return b'LSET ' + expr_text(s[1]) + b'=' + expr_text(s[2])
    if op == 'rset':
        return b'RSET ' + expr_text(s[1]) + b'=' + expr_text(s[2])
    if op == 'swap':
        return b'SWAP ' + expr_text(s[1]) + b',' + expr_text(s[2])
    if op == 'erase':
        return b'ERASE ' + s[1].encode()
    if op == 'dim':
        return b'DIM %s(%d)' % (s[1].encode(), s[2])
    if op == 'newvar':
        return s[1].encode() + b'=""'
    if op == 'instr':
        return b'N%=INSTR(' + expr_text(s[1]) + b',' + expr_text(s[2]) + b')'
    if op == 'len':
        return b'N%=LEN(' + expr_text(s[1]) + b')'
    if op == 'fre_s':
        return b'PRINT FRE("")'
    if op == 'fre_0':
        return b'PRINT FRE(0)'
    if op == 'fre_both':
        return b'PRINT FRE("");FRE(0)'
    if op == 'fre_v':
        return b'PRINT FRE(' + expr_text(s[1]) + b')'
    if op == 'ncalc':
        return b'N%=' + num_text(s[1])
    if op == 'deffn':
        params = (b'(' + b','.join(x.encode() for x in s[2]) + b')') if s[2] else b''
        body = expr_text(s[3]) if s[1][-1] == '$' else num_text(s[3])
        return b'DEF ' + s[1].encode() + params + b'=' + body
    if op == 'apiset':
        return b'[set_variable %s %d bytes]' % (s[1].encode(), len(s[2]))
    raise ValueError(op)
