"""
R-TXT: plain-text placement model for C36 (grid, cursor, wrap at the screen width, scroll window).

Written from the GW-BASIC screen-editor description (PRINT / LOCATE / CLS / VIEW PRINT / WIDTH in the
GW-BASIC User's Reference), not from pcbasic's textscreen.py.

  * grid of 25 x width character codes, blank = 32
  * scroll window = rows top..bottom; 1..24 when no VIEW PRINT is active (row 25 is the key line)
  * a character is stored at the cursor cell and the cursor advances; after the LAST column the cursor
    belongs to column 1 of the next row ("wrapped"), but when that would leave the window the scroll is
    deferred until something is actually written or a newline is output.  In that state POS reports 1
    and CSRLIN the row where the next character will appear (the next row, or the bottom row itself when
    the wrap is waiting to scroll).
  * newline: column 1 of the next row; from the bottom row of the window the window scrolls up one row
    (rows outside the window never move); a newline output in the wrapped state first completes the wrap
    (so a line of exactly `width` characters followed by a newline leaves an empty row, as on the real
    machine).
  * PRINT of a string that does not fit in the rest of the current row (cursor not in column 1) starts
    on a new line first: GW-BASIC's documented PRINT rule.  The statement of C36 only speaks of "wrapping at the screen width", so the check runs the
    model both ways (break_rule True / False) and accepts either placement.
  * The moment of the deferred scroll is not pinned by the statement either: print_(eager_final=True)
    completes the wrap as soon as the last character of a PRINT ...; has been put in the last column.
  * LOCATE r,c: cursor = (r, c), wrapped state cancelled.  CLS: window rows blank, cursor at the window's
    top-left (whole screen and 1,1 when no VIEW PRINT).  VIEW PRINT a TO b: window a..b.  WIDTH w:
    blank screen of the new width, no window.

Rows/cols are 1-based in the API.
"""


class RTxt(object):

    def __init__(self, width, height=25, break_rule=True):
        self.break_rule = break_rule
        self.h = height
        self.reset(width)

    def reset(self, width):
        self.w = width
        self.grid = [[32] * width for _ in range(self.h)]
        self.top, self.bottom = 1, self.h - 1
        self.view = False
        self.row, self.col = 1, 1
        self.wrapped = False       # a character was written in the last column; cursor logically after it
        self.scrolls = 0
        self.wraps = 0

    def copy(self):
        c = RTxt.__new__(RTxt)
        c.__dict__.update(self.__dict__)
        c.grid = [list(r) for r in self.grid]
        return c

    # -- primitives -------------------------------------------------------------------------------
    def _scroll(self):
        t, b = self.top - 1, self.bottom - 1
        self.grid[t:b + 1] = self.grid[t + 1:b + 1] + [[32] * self.w]
        self.scrolls += 1

    def _next_row(self):
        if self.row < self.bottom:
            self.row += 1
        else:
            self._scroll()
        self.col = 1

    def _resolve(self):
        if self.wrapped:
            self.wrapped = False
            self._next_row()

    def put(self, ch):
        self._resolve()
        self.grid[self.row - 1][self.col - 1] = ch
        if self.col < self.w:
            self.col += 1
        else:
            self.wrapped = True
            self.wraps += 1

    def newline(self):
        self._resolve()
        self._next_row()

    # -- statements ----------------------------------------------------------------------------------
    def print_(self, s, newline=True, eager_final=False, single_newline=False):
        """
        PRINT "s" or PRINT "s"; (s: bytes of plain printable characters).
        eager_final: when the last character lands in the last column, complete the wrap at once (scrolling
        if it is the bottom row of the window) instead of deferring it - the other plausible timing.
        """
        if s:
            # in the wrapped state the cursor already belongs to column 1 of the next row
            col = 1 if self.wrapped else self.col
            if self.break_rule and col != 1 and col - 1 + len(s) > self.w:
                self.newline()
            for ch in s:
                self.put(ch)
            if eager_final and self.wrapped and not newline:
                self._resolve()
        if newline:
            if single_newline and self.wrapped:
                # output routes that end the line with one carriage return only (WRITE, PRINT# to SCRN:):
                # the return completes the pending wrap and nothing more
                self._resolve()
            else:
                self.newline()

    def locate(self, r, c):
        self.row, self.col, self.wrapped = r, c, False

    def cls(self):
        if self.view:
            for r in range(self.top - 1, self.bottom):
                self.grid[r] = [32] * self.w
            self.locate(self.top, 1)
        else:
            self.grid = [[32] * self.w for _ in range(self.h)]
            self.locate(1, 1)

    def view_print(self, a=None, b=None):
        if a is None:
            self.top, self.bottom, self.view = 1, self.h - 1, False
        else:
            self.top, self.bottom, self.view = a, b, True
            self.locate(a, 1)

    # -- what BASIC reports -----------------------------------------------------------------------------
    def csrlin(self):
        if self.wrapped:
            return self.row + 1 if self.row < self.bottom else self.row
        return self.row

    def pos(self):
        return 1 if self.wrapped else self.col

    def screen(self, r, c):
        return self.grid[r - 1][c - 1]

    def in_window(self, r):
        return self.top <= r <= self.bottom
