"""
M-INV for the string space (used by C10 and C11): class-level wrapper around the real
StringSpace.collect_garbage that only OBSERVES:

  * counts the collections that really happened (behavioural evidence: gc_seen),
  * after each collection checks the invariants of the compacted string space:
      - every pointer handed to the collector (the live strings) dereferences to a stored string
        of exactly its length,
      - stored strings do not overlap and lie inside (current, top of string space],
      - the string space does not reach below the end of the array area,
      - (after a collection) every stored string is referred to by one of the live pointers
        (reported as a NOTE only: it names the mechanism when a BASIC-level symptom follows),
  * the same invariants can be checked at any statement boundary with check_live(memory).

The wrapper never changes arguments, results or state.  If the anchored attributes are not there
(refactoring) the monitor switches itself off and says so (monitor_unavailable); the BASIC-level
oracles of the checks do not depend on it.
"""
import struct

from .. import harness  # noqa: F401  (puts the repository on sys.path)


class State(object):
    installed = False
    available = True
    gc_count = 0
    invariant_checks = 0
    failures = []          # (key, what)
    monitor_errors = 0


STATE = State()


def _space_invariants(space, ptr_views, where, after_collection=False):
    """Returns list of (key, what)."""
    out = []
    memory = space._memory
    strings = space._strings
    top = memory.stack_start()
    var_start = memory.var_start()
    # stored strings: inside the string area, pairwise disjoint
    spans = sorted((addr, addr + len(val)) for addr, val in strings.items())
    prev_end = None
    for a, e in spans:
        if a <= space.current or e - 1 > top:
            out.append(('minv:string-outside-string-area',
                        '%s: stored string [%d,%d) outside (current=%d, top=%d]' % (where, a, e, space.current, top)))
            break
        if prev_end is not None and a < prev_end:
            out.append(('minv:stored-strings-overlap', '%s: stored string at %d overlaps the previous one ending at %d' % (
                where, a, prev_end)))
            break
        prev_end = e
    # the string space never grows into the variable / array area
    try:
        floor = memory.var_current() + memory.arrays.current
    except Exception:
        floor = None
    if floor is not None and space.current < floor:
        out.append(('minv:string-space-overruns-variable-area',
                    '%s: lowest string byte at %d but scalars and arrays end at %d (free space %d)' % (
                        where, space.current + 1, floor, space.current - floor)))
    if after_collection:
        # a collection keeps exactly the strings some live pointer refers to
        referenced = set()
        for v in ptr_views:
            length, addr = struct.unpack('<BH', bytes(v))
            if length:
                referenced.add(addr)
        extra = [a for a in strings if a not in referenced]
        if extra:
            out.append(('note:collection-keeps-string-no-live-pointer-refers-to',
                        '%s: %d stored string(s) (%d bytes) are referenced by no live pointer, e.g. %r at %d' % (
                            where, len(extra), sum(len(strings[a]) for a in extra), bytes(strings[extra[0]])[:30], extra[0])))
    # live pointers dereference
    for v in ptr_views:
        length, addr = struct.unpack('<BH', bytes(v))
        if length == 0 or addr < var_start:
            continue
        s = strings.get(addr)
        if s is None:
            out.append(('minv:live-pointer-does-not-dereference',
                        '%s: live string pointer (len %d, address %d) has no stored string' % (where, length, addr)))
            break
        if len(s) != length:
            out.append(('minv:live-pointer-length-mismatch',
                        '%s: live string pointer (len %d, address %d) points to a stored string of %d bytes' % (
                            where, length, addr, len(s))))
            break
    return out


def install():
    """Install the class-level wrapper once per process."""
    if STATE.installed:
        return STATE
    STATE.installed = True
    try:
        from pcbasic.basic.values import strings
        cls = strings.StringSpace
        orig = cls.collect_garbage
    except (ImportError, AttributeError):
        STATE.available = False
        return STATE

    def collect_garbage(self, string_ptrs):
        ptrs = list(string_ptrs)
        try:
            var_start = self._memory.var_start()
            distinct = set()
            for v in ptrs:
                length, addr = struct.unpack('<BH', bytes(v))
                if length and addr >= var_start:
                    distinct.add(addr)
        except Exception:
            distinct = None
        result = orig(self, ptrs)
        STATE.gc_count += 1
        try:
            STATE.invariant_checks += 1
            STATE.failures.extend(_space_invariants(self, ptrs, 'after a collection', after_collection=True))
            if distinct is not None and len(self._strings) > len(distinct):
                STATE.failures.append(('note:collection-stored-more-strings-than-distinct-live-strings',
                                       'after a collection: %d strings stored for %d distinct live strings' % (
                                           len(self._strings), len(distinct))))
        except Exception:  # monitor problem, never the interpreter's
            STATE.monitor_errors += 1
        return result

    collect_garbage.__doc__ = orig.__doc__
    cls.collect_garbage = collect_garbage
    return STATE


def check_live(memory, where='at a statement boundary'):
    """Invariants over all string variables / array elements now. Returns list of (key, what)."""
    try:
        ptrs = list(memory.scalars.get_strings()) + list(memory.arrays.get_strings())
        STATE.invariant_checks += 1
        return _space_invariants(memory.strings, ptrs, where)
    except Exception:
        STATE.monitor_errors += 1
        return []


def drain():
    """Failures recorded by the collection hook since the last call."""
    out = STATE.failures
    STATE.failures = []
    return out
