"""
R-EXPR for C18: expression TREES, their printers, a reference parser and an exact evaluator.

Everything here is written from the property statement:

    precedence  ^ > unary minus > * / > \\ > MOD > + - > relational > NOT > AND > OR > XOR > EQV > IMP,
    left-to-right grouping at equal precedence; arithmetic results take the widest operand type
    (/ and ^ never integer); relational operators yield integer -1 or 0; a type mismatch or a
    missing operand raises the corresponding error.

Nothing is taken from pcbasic/basic/parser: the table below is the statement's list, the parser is a
textbook precedence-climbing parser over the token list that the printer itself emitted.

Trees (JSON-able nested lists):
    ['L', type, text, value]      literal leaf; type in '%!#$'; value = int/str(Fraction)/latin-1 text
    ['V', type, name, value]      variable leaf (pre-assigned by the check)
    ['U', op, child]              op in '-', '+', 'NOT'
    ['B', op, left, right]        op in BINARY
"""
from fractions import Fraction

BINARY = ['^', '*', '/', '\\', 'MOD', '+', '-', '=', '<', '>', '<=', '>=', '<>', '=<', '=>', '><',
          'AND', 'OR', 'XOR', 'EQV', 'IMP']
UNARY = ['-', '+', 'NOT']
RELATIONAL = ('=', '<', '>', '<=', '>=', '<>', '=<', '=>', '><')
LOGICAL = ('AND', 'OR', 'XOR', 'EQV', 'IMP')

# the statement's precedence list, highest first
_LEVELS = [
    ('pow', ['^']),
    ('neg', []),                      # unary minus
    ('muldiv', ['*', '/']),
    ('intdiv', ['\\']),
    ('mod', ['MOD']),
    ('addsub', ['+', '-']),
    ('rel', list(RELATIONAL)),
    ('not', []),                      # NOT
    ('and', ['AND']),
    ('or', ['OR']),
    ('xor', ['XOR']),
    ('eqv', ['EQV']),
    ('imp', ['IMP']),
]
BPREC = {}
CLASS = {}
for _i, (_name, _ops) in enumerate(_LEVELS):
    for _o in _ops:
        BPREC[_o] = len(_LEVELS) - _i
        CLASS[('B', _o)] = _name
UPREC = {'-': BPREC['^'] - 1, 'NOT': BPREC['='] - 1,
         # unary plus is not in the statement; it is only ever printed inside its own parentheses
         # around an atom, so the value given here cannot influence any verdict
         '+': BPREC['^'] - 1}
CLASS[('U', '-')] = 'neg'
CLASS[('U', 'NOT')] = 'not'
CLASS[('U', '+')] = 'uplus'
INF = 99


def node_class(t):
    if t[0] in ('L', 'V'):
        return 'leaf'
    return CLASS[(t[0], t[1])]


# ---------------------------------------------------------------------------------------------
# printers: emit TOKEN LISTS; text = join with blanks (or tighter, see to_text)

def _leaf_tok(t):
    return ('leaf', t)


def print_full(t):
    """Fully parenthesised token list: grouping independent of any precedence or associativity."""
    k = t[0]
    if k in ('L', 'V'):
        return [_leaf_tok(t)]
    if k == 'U':
        return ['('] + [('uop', t[1])] + print_full(t[2]) + [')']
    return ['('] + print_full(t[2]) + [('bop', t[1])] + print_full(t[3]) + [')']


def _wrap(toks):
    return ['('] + toks + [')']


def _pm(t, rng=None, p=0.0):
    """
    -> (tokens, open_prec, wrapped). open_prec = lowest precedence of a prefix operator that is
    still 'open' at the right end of the text: it would swallow any following operator of higher
    precedence, so a left operand whose open_prec is below its parent's level needs parentheses.
    With rng: every subtree additionally gets superfluous parentheses with probability p.
    """
    k = t[0]
    if k in ('L', 'V'):
        toks, opn, wr = [_leaf_tok(t)], INF, False
    elif k == 'U':
        op, c = t[1], t[2]
        ctoks, copen, cwr = _pm(c, rng, p)
        if op == '+':
            # always its own parenthesised unit over an atom (the statement gives unary plus no level)
            if c[0] not in ('L', 'V') and not cwr:
                ctoks = _wrap(ctoks)
            toks, opn, wr = _wrap([('uop', '+')] + ctoks), INF, True
        else:
            u = UPREC[op]
            if c[0] == 'B' and BPREC[c[1]] < u and not cwr:
                ctoks, copen = _wrap(ctoks), INF
            toks, opn, wr = [('uop', op)] + ctoks, min(u, copen), False
    else:
        op, l, r = t[1], t[2], t[3]
        pr = BPREC[op]
        ltoks, lopen, lwr = _pm(l, rng, p)
        if not lwr and ((l[0] == 'B' and BPREC[l[1]] < pr) or lopen < pr):
            ltoks = _wrap(ltoks)
        rtoks, ropen, rwr = _pm(r, rng, p)
        if not rwr and r[0] == 'B' and BPREC[r[1]] <= pr:
            rtoks, ropen = _wrap(rtoks), INF
        toks, opn, wr = ltoks + [('bop', op)] + rtoks, ropen, False
    if rng is not None and not wr and rng.random() < p:
        return _wrap(toks), INF, True
    return toks, opn, wr


def print_min(t):
    """Token list with the fewest parentheses that still denotes tree t under the statement's table."""
    return _pm(t)[0]


def print_redundant(t, rng, p=0.35):
    """Minimal printing plus randomly added superfluous parentheses."""
    return _pm(t, rng, p)[0]


def leaf_text(t):
    return t[2]


def _need_blank(prev, s):
    """A blank is REQUIRED where gluing would change the token sequence."""
    a, b = prev[-1], s[0]
    if (a.isalnum() or a in '.%!#$"') and (b.isalnum() or b in '.&"'):
        return True
    if a.isalpha() and b == '(':
        return True
    if a in '<>=' and b in '<>=':
        return True
    return False


FEATURES = ('blank-inside-relational-operator', 'word-operator-letter-case', 'variable-name-letter-case',
            'no-blank-between-tokens', 'several-blanks-between-tokens')


def _recase(word, rng):
    r = rng.random()
    if r < 0.4:
        return word.lower()
    if r < 0.6:
        return word.capitalize()
    return ''.join(c.lower() if rng.random() < 0.5 else c for c in word)


def to_text(toks, rng=None, used=None, force=None):
    """
    bytes source text of a token list.  The SPELLING is free wherever GW-BASIC allows it and never changes the tree:
    optional blanks between any two tokens (none, one, several), blanks between the two characters of <= >= <> =< => ><,
    letter case of word operators and variable names.  rng=None: canonical spelling (one blank between tokens, upper
    case).  used: set that receives the names of the spelling features applied.  force: apply exactly that one feature
    everywhere (deterministic; used to name the feature responsible for a disagreement).
    """
    def on(feature, p):
        if force is not None:
            hit = force == feature
        else:
            hit = rng is not None and rng.random() < p
        if hit and used is not None:
            used.add(feature)
        return hit

    r_ = rng
    if force is not None and r_ is None:
        import random as _random
        r_ = _random.Random(0)
    out = []
    for tk in toks:
        if tk == '(' or tk == ')':
            out.append(tk)
        elif tk[0] == 'leaf':
            t = leaf_text(tk[1])
            if tk[1][0] == 'V' and on('variable-name-letter-case', 0.3):
                t = t.lower()
            out.append(t)
        else:
            o = tk[1]
            if o[0].isalpha():
                if on('word-operator-letter-case', 0.4):
                    o = o.lower() if force is not None else _recase(o, r_)
            elif len(o) == 2 and on('blank-inside-relational-operator', 0.35):
                o = o[0] + ' ' * (1 if force is not None else r_.randint(1, 2)) + o[1]
            out.append(o)
    text = out[0] if out else ''
    for i in range(1, len(out)):
        if _need_blank(out[i - 1], out[i]):
            text += ' '
            if on('several-blanks-between-tokens', 0.1):
                text += ' '
        elif rng is None and force is None:
            text += ' '
        elif on('no-blank-between-tokens', 0.45):
            pass
        else:
            text += ' '
            if on('several-blanks-between-tokens', 0.1):
                text += '  '
        text += out[i]
    return text.encode('latin-1')


# ---------------------------------------------------------------------------------------------
# reference parser (precedence climbing over the printer's tokens)

class RefError(Exception):
    def __init__(self, kind, at_end):
        Exception.__init__(self, kind)
        self.kind = kind
        self.at_end = at_end


class _P(object):
    def __init__(self, toks):
        self.toks = toks
        self.i = 0

    def peek(self):
        return self.toks[self.i] if self.i < len(self.toks) else None

    def expr(self, minp):
        tk = self.peek()
        if tk is None:
            raise RefError('missing-operand', True)
        if tk == '(':
            self.i += 1
            left = self.expr(0)
            if self.peek() != ')':
                raise RefError('unbalanced', self.peek() is None)
            self.i += 1
        elif tk == ')':
            raise RefError('missing-operand', False)
        elif tk[0] == 'leaf':
            self.i += 1
            left = tk[1]
        elif tk[0] in ('uop', 'bop') and tk[1] in UPREC:
            # an operator sign where an operand is expected is a prefix operator if it can be one
            self.i += 1
            operand = self.expr(UPREC[tk[1]])
            left = ['U', tk[1], operand]
        else:
            raise RefError('missing-operand', False)
        while True:
            tk = self.peek()
            if tk is None or tk == ')' or tk == '(':
                break
            if tk[0] == 'leaf':
                raise RefError('juxtaposed', False)
            op = tk[1]
            if op not in BPREC:
                # NOT in operator position: not an expression of the statement's grammar
                raise RefError('prefix-in-infix-position', False)
            if BPREC[op] <= minp:
                break
            self.i += 1
            right = self.expr(BPREC[op])
            left = ['B', op, left, right]
        return left


def ref_parse(toks):
    p = _P(toks)
    t = p.expr(0)
    if p.i != len(toks):
        raise RefError('trailing', False)
    return t


# ---------------------------------------------------------------------------------------------
# kinds and types

ORDER = {'%': 0, '!': 1, '#': 2}


def kind(t):
    """'num' / 'str' / 'mismatch' / 'unpinned' (unary sign applied to a string)."""
    k = t[0]
    if k in ('L', 'V'):
        return 'str' if t[1] == '$' else 'num'
    if k == 'U':
        c = kind(t[2])
        if c in ('mismatch', 'unpinned'):
            return c
        if t[1] == 'NOT':
            return 'num' if c == 'num' else 'mismatch'
        return 'num' if c == 'num' else 'unpinned'
    a, b = kind(t[2]), kind(t[3])
    for x in (a, b):
        if x in ('mismatch', 'unpinned'):
            return x
    op = t[1]
    if op == '+':
        if a == b:
            return a
        return 'mismatch'
    if op in RELATIONAL:
        return 'num' if a == b else 'mismatch'
    return 'num' if (a == 'num' and b == 'num') else 'mismatch'


def type_of(t, int_arith_single=False, pow_single=False, intops_integer=True):
    """Result type ('%', '!', '#', '$') of a well-kinded tree under the statement's typing rule;
    the flags switch on the two recorded deviations and select the reading for \\ and MOD."""
    k = t[0]
    if k in ('L', 'V'):
        return t[1]
    f = (int_arith_single, pow_single, intops_integer)
    if k == 'U':
        c = type_of(t[2], *f)
        if t[1] == 'NOT':
            return '%'
        if t[1] == '-' and c == '%' and int_arith_single:
            return '!'
        return c
    op = t[1]
    a, b = type_of(t[2], *f), type_of(t[3], *f)
    if op in RELATIONAL or op in LOGICAL:
        return '%'
    if a == '$' or b == '$':
        return '$'
    widest = a if ORDER[a] >= ORDER[b] else b
    if op in ('+', '-', '*'):
        if widest == '%' and int_arith_single:
            return '!'
        return widest
    if op == '/':
        return '!' if widest == '%' else widest
    if op == '^':
        if pow_single:
            return '!'
        return '!' if widest == '%' else widest
    if op in ('\\', 'MOD'):
        return '%' if intops_integer else widest
    raise ValueError(op)


def accepted_types(t):
    """{type: frozenset(deviation keys needed)}; the smallest deviation set wins for each type."""
    out = {}
    for dev_int in (False, True):
        for dev_pow in (False, True):
            for intops in (True, False):
                ty = type_of(t, dev_int, dev_pow, intops)
                devs = frozenset((['int-arith-result-is-single'] if dev_int else []) +
                                 (['pow-double-operand-result-is-single'] if dev_pow else []))
                if ty not in out or len(devs) < len(out[ty]):
                    out[ty] = devs
    return out


# ---------------------------------------------------------------------------------------------
# exact evaluation (R-NUM) of "safe" trees

class Unsafe(Exception):
    """The tree leaves the region where the statement + exact arithmetic pin the value."""


LIMIT = 32767


def _leaf_value(t):
    if t[1] == '$':
        return t[3].encode('latin-1')
    if t[3] is None:
        raise Unsafe('leaf without an exactly known value')
    return Fraction(t[3])


def _cmp(op, a, b):
    if op == '=':
        r = a == b
    elif op == '<':
        r = a < b
    elif op == '>':
        r = a > b
    elif op in ('<=', '=<'):
        r = a <= b
    elif op in ('>=', '=>'):
        r = a >= b
    else:
        r = a != b
    return Fraction(-1 if r else 0)


def round_half_away(x):
    """Nearest integer, exact halves away from zero (the conversion GW-BASIC applies to operands of integer operators)."""
    a = abs(x)
    fl = a.numerator // a.denominator
    r = fl + 1 if (a - fl) >= Fraction(1, 2) else fl
    return -r if x < 0 else r


def _int16(x):
    """Operand of \\ MOD NOT AND OR XOR EQV IMP: rounded to an integer first; outside -32768..32767 is not judged."""
    r = round_half_away(x)
    if not (-32768 <= r <= 32767):
        raise Unsafe('integer operator on an out-of-range operand')
    return r


def _fits_single(r):
    """Exactly representable with a 24-bit mantissa: then every correct arithmetic yields exactly r."""
    n = abs(r.numerator)
    d = r.denominator
    if d & (d - 1):
        return False
    if n == 0:
        return True
    tz = (n & -n).bit_length() - 1
    return n.bit_length() - tz <= 24


def _s16(v):
    v &= 0xffff
    return v - 65536 if v & 0x8000 else v


def eval_exact(t):
    """Fraction / bytes value of a tree, or raise Unsafe / TypeMismatch."""
    k = t[0]
    if k in ('L', 'V'):
        return _leaf_value(t)
    if k == 'U':
        c = eval_exact(t[2])
        if isinstance(c, bytes):
            if t[1] == 'NOT':
                raise TypeMismatch()
            raise Unsafe('unary sign on a string')
        if t[1] == '-':
            return -c
        if t[1] == '+':
            return c
        return Fraction(_s16(~(_int16(c) & 0xffff)))
    op = t[1]
    a = eval_exact(t[2])
    b = eval_exact(t[3])
    sa, sb = isinstance(a, bytes), isinstance(b, bytes)
    if sa or sb:
        if not (sa and sb):
            raise TypeMismatch()
        if op == '+':
            if len(a) + len(b) > 255:
                raise Unsafe('string longer than 255')
            return a + b
        if op in RELATIONAL:
            return _cmp(op, a, b)
        raise TypeMismatch()
    if op in RELATIONAL:
        return _cmp(op, a, b)
    if op == '+':
        r = a + b
    elif op == '-':
        r = a - b
    elif op == '*':
        r = a * b
    elif op == '/':
        if b == 0:
            raise Unsafe('division by zero')
        r = a / b
        d = r.denominator
        if d & (d - 1) or d > 1024:
            raise Unsafe('quotient not exactly representable')
    elif op == '^':
        if b.denominator != 1 or not (-4 <= b <= 8) or a.denominator != 1:
            raise Unsafe('power outside the exact region')
        if a == 0 and b <= 0:
            raise Unsafe('0^0 or 0^negative')
        r = a ** int(b)
        d = r.denominator
        if d & (d - 1) or d > 1024:
            raise Unsafe('power not exactly representable')
    elif op in ('\\', 'MOD'):
        ia, ib = _int16(a), _int16(b)
        if ib == 0:
            raise Unsafe('division by zero')
        q = abs(ia) // abs(ib)
        if (ia < 0) != (ib < 0):
            q = -q
        if not (-32768 <= q <= 32767):
            raise Unsafe('quotient overflow')
        r = Fraction(q) if op == '\\' else Fraction(ia - ib * q)
    elif op in LOGICAL:
        ua, ub = _int16(a) & 0xffff, _int16(b) & 0xffff
        if op == 'AND':
            v = ua & ub
        elif op == 'OR':
            v = ua | ub
        elif op == 'XOR':
            v = ua ^ ub
        elif op == 'EQV':
            v = ~(ua ^ ub)
        else:
            v = (~ua) | ub
        r = Fraction(_s16(v))
    else:
        raise ValueError(op)
    if abs(r) > LIMIT:
        raise Unsafe('intermediate value beyond 32767')
    if not _fits_single(r):
        raise Unsafe('result needs more than 24 mantissa bits')
    return r


class TypeMismatch(Exception):
    pass


def depth(t):
    if t[0] in ('L', 'V'):
        return 0
    if t[0] == 'U':
        return 1 + depth(t[2])
    return 1 + max(depth(t[2]), depth(t[3]))


def size(t):
    if t[0] in ('L', 'V'):
        return 1
    if t[0] == 'U':
        return 1 + size(t[2])
    return 1 + size(t[2]) + size(t[3])


def subtrees(t):
    yield t
    if t[0] == 'U':
        for s in subtrees(t[2]):
            yield s
    elif t[0] == 'B':
        for s in subtrees(t[2]):
            yield s
        for s in subtrees(t[3]):
            yield s
