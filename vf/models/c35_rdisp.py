"""
R-DISP: reference consumer of pcbasic's video signals (C35).

Consumes ONLY the logged signals (event_type, params) with the semantics of the interface plugin
base class (pcbasic/interface/video.py: set_mode, update, clear_rows, scroll, set_palette,
set_cursor_shape, show_cursor, move_cursor, set_border_attr, set_caption, set_clipboard_text) as the
pixel reference consumer (video_sdl2) and the text consumers (video_curses / video_ansi) realise
them:

  set_mode(canvas_h, canvas_w, text_h, text_w)  blank canvas (attribute 0), blank text grid;
                                                cell height = ceil(canvas_h / text_h), width = canvas_w // text_w
  update(row, col, text, attrs, y0, x0, sprite) store text[i][j] at cell (row+i, col+j); blit sprite at pixel
                                                (x0, y0), clipped to the canvas
  clear_rows(back, start, stop)                 text rows start..stop become spaces; pixel rows of those text
                                                rows become `back`
  scroll(direction, from_line, to_line, back)   -1: rows from_line+1..to_line move up one, row to_line vacated;
                                                +1: rows from_line..to_line-1 move down one, row from_line vacated;
                                                the vacated row is blank text / `back` pixels
  cursor / palette / border / caption           recorded (they are overlays, not part of the picture that
                                                Session.get_pixels / get_chars report)

Nothing here looks at the interpreter's state.
"""


class RDisp(object):

    def __init__(self):
        self.mode_set = False
        self.h = self.w = self.th = self.tw = 0
        self.fh = self.fw = 0
        self.pix = []
        self.text = []
        self.cursor = {'row': 1, 'col': 1, 'attr': None, 'width': None, 'visible': None, 'blinks': None,
                       'from': None, 'to': None}
        self.border = None
        self.palette = None
        self.caption = None
        self.counts = {}
        self.unknown = []
        self.anomalies = []     # signals a consumer cannot apply (outside the canvas / before set_mode)
        self.notes = {}         # oddities that the reference consumers tolerate (counted, not refuting)

    # -- dispatch --------------------------------------------------------------------------------
    def apply(self, signal):
        et = signal.event_type
        self.counts[et] = self.counts.get(et, 0) + 1
        fn = getattr(self, 'on_' + et, None)
        if fn is None:
            self.unknown.append(et)
            return
        fn(*signal.params)

    def apply_all(self, signals):
        for s in signals:
            self.apply(s)

    # -- handlers ---------------------------------------------------------------------------------
    def on_set_mode(self, canvas_height, canvas_width, text_height, text_width):
        self.mode_set = True
        self.h, self.w, self.th, self.tw = canvas_height, canvas_width, text_height, text_width
        self.fh = -(-canvas_height // text_height)
        self.fw = canvas_width // text_width
        self.pix = [bytearray(canvas_width) for _ in range(canvas_height)]
        self.text = [[u' '] * text_width for _ in range(text_height)]

    def on_update(self, row, col, unicode_matrix, attr_matrix, y0, x0, sprite):
        if not self.mode_set:
            self.anomalies.append('update-before-set_mode')
            return
        # text
        for i, line in enumerate(unicode_matrix):
            r = row - 1 + i
            if not (0 <= r < self.th):
                self.anomalies.append('update-text-row-outside-screen')
                continue
            for j, ch in enumerate(line):
                c = col - 1 + j
                if not (0 <= c < self.tw):
                    self.anomalies.append('update-text-col-outside-screen')
                    continue
                self.text[r][c] = ch
        # pixels
        if sprite is None:
            return
        sh, sw = sprite.height, sprite.width
        if not sh or not sw:
            return
        if y0 < 0 or x0 < 0:
            self.anomalies.append('update-negative-origin')
            return
        data = sprite.to_bytes()
        for i in range(sh):
            y = y0 + i
            if y >= self.h:
                break
            n = min(sw, self.w - x0)
            if n <= 0:
                break
            self.pix[y][x0:x0 + n] = data[i * sw:i * sw + n]

    def on_clear_rows(self, back_attr, start, stop):
        if not self.mode_set:
            self.anomalies.append('clear_rows-before-set_mode')
            return
        for r in range(start - 1, stop):
            if 0 <= r < self.th:
                self.text[r] = [u' '] * self.tw
            else:
                self.anomalies.append('clear_rows-outside-screen')
        for y in range((start - 1) * self.fh, min(self.h, stop * self.fh)):
            self.pix[y] = bytearray([back_attr]) * self.w

    def on_scroll(self, direction, from_line, scroll_height, back_attr):
        if not self.mode_set:
            self.anomalies.append('scroll-before-set_mode')
            return
        if not (1 <= from_line <= self.th and 1 <= scroll_height <= self.th):
            self.anomalies.append('scroll-rows-outside-screen')
            return
        if from_line > scroll_height:
            # degenerate range: the reference consumers move nothing (empty slices / no scroll region) and
            # still blank the row they take for the vacated one
            self.notes['scroll_with_reversed_rows'] = self.notes.get('scroll_with_reversed_rows', 0) + 1
            vac = scroll_height if direction == -1 else from_line
            self.text[vac - 1] = [u' '] * self.tw
            for y in range((vac - 1) * self.fh, min(self.h, vac * self.fh)):
                self.pix[y] = bytearray([back_attr]) * self.w
            return
        fh, H = self.fh, self.h
        hi_y0, hi_y1 = (from_line - 1) * fh, (scroll_height - 1) * fh
        lo_y0, lo_y1 = from_line * fh, scroll_height * fh
        blank = bytearray([back_attr]) * self.w
        old = list(self.pix)
        n = hi_y1 - hi_y0
        if direction == -1:
            # text rows from_line+1..scroll_height move up one; row scroll_height vacated
            self.text[from_line - 1:scroll_height] = self.text[from_line:scroll_height] + [[u' '] * self.tw]
            # pixels[hi_y0:hi_y1] = pixels[lo_y0:lo_y1] (rows beyond the canvas do not exist: clipped)
            for i in range(n):
                src, dst = lo_y0 + i, hi_y0 + i
                if dst < H and src < H:
                    self.pix[dst] = bytearray(old[src])
            for y in range(hi_y1, min(H, lo_y1)):
                self.pix[y] = bytearray(blank)
        else:
            # text rows from_line..scroll_height-1 move down one; row from_line vacated
            self.text[from_line - 1:scroll_height] = [[u' '] * self.tw] + self.text[from_line - 1:scroll_height - 1]
            # pixels[lo_y0:lo_y1] = copy of pixels[hi_y0:hi_y1]
            for i in range(n):
                src, dst = hi_y0 + i, lo_y0 + i
                if dst < H and src < H:
                    self.pix[dst] = bytearray(old[src])
            for y in range(hi_y0, min(H, lo_y0)):
                self.pix[y] = bytearray(blank)

    def on_set_palette(self, attributes, pack_pixels):
        self.palette = attributes

    def on_set_border_attr(self, attr):
        self.border = attr

    def on_set_cursor_shape(self, from_line, to_line):
        self.cursor['from'], self.cursor['to'] = from_line, to_line

    def on_show_cursor(self, cursor_on, cursor_blinks):
        self.cursor['visible'], self.cursor['blinks'] = cursor_on, cursor_blinks

    def on_move_cursor(self, row, col, attr, width):
        self.cursor.update(row=row, col=col, attr=attr, width=width)
        if self.mode_set and not (1 <= row <= self.th and 1 <= col <= self.tw):
            # the cursor is an overlay: a position outside the screen does not change the picture
            self.notes['move_cursor_outside_screen'] = self.notes.get('move_cursor_outside_screen', 0) + 1

    def on_set_caption(self, msg):
        self.caption = msg

    def on_set_clipboard_text(self, text):
        pass

    # -- comparison helpers ---------------------------------------------------------------------------
    def diff_pixels(self, rows):
        """rows: sequence of sequences of int (Session.get_pixels()). -> None | ('size', ...) | ('pixel', y, x, shown, reported)"""
        if len(rows) != self.h or (rows and len(rows[0]) != self.w):
            return ('size', len(rows), len(rows[0]) if rows else 0, self.h, self.w)
        for y, row in enumerate(rows):
            b = bytes(row)
            if b != self.pix[y]:
                mine = self.pix[y]
                x = next(i for i in range(self.w) if mine[i] != b[i])
                return ('pixel', y, x, mine[x], b[x])
        return None

    def diff_bytes(self, chars):
        """
        chars: tuple of tuples of bytes (Session.get_chars()). Codepage-independent part only: a cell the
        session reports as a printable ASCII character (32..126) must show that character.
        """
        if len(chars) != self.th or (chars and len(chars[0]) != self.tw):
            return ('size', len(chars), len(chars[0]) if chars else 0, self.th, self.tw)
        for r, row in enumerate(chars):
            mine = self.text[r]
            for c, b in enumerate(row):
                o = b[0] if b else 32
                if 32 <= o <= 126 and mine[c] != chr(o):
                    # a blank cell may be shown as NUL-less space only
                    return ('cell', r + 1, c + 1, mine[c], chr(o))
        return None

    def diff_text(self, chars):
        """chars: tuple of tuples of unicode (Session.get_chars(as_type=str))."""
        if len(chars) != self.th or (chars and len(chars[0]) != self.tw):
            return ('size', len(chars), len(chars[0]) if chars else 0, self.th, self.tw)
        for r, row in enumerate(chars):
            if list(row) != self.text[r]:
                c = next(i for i in range(self.tw) if row[i] != self.text[r][i])
                return ('cell', r + 1, c + 1, self.text[r][c], row[c])
        return None
