"""
R-STR: reference definitions of the GW-BASIC string functions and statements on Python bytes.

Written from the GW-BASIC manual entries (LEFT$, RIGHT$, MID$, INSTR, STRING$, SPACE$, LEN, ASC,
CHR$, +, relational operators on strings, MID$ statement, LSET, RSET), not from the interpreter.

Every function returns ('ok', value) or ('err', code); numeric arguments are Python ints that have
already been converted to a 16-bit integer (the callers never pass anything else to these
definitions: what an argument outside -32768..32767 gives is not pinned by the property).
"""

IFC = 5
STRING_TOO_LONG = 15
MAXLEN = 255


def left(s, n):
    if not 0 <= n <= 255:
        return ('err', IFC)
    return ('ok', s[:n])


def right(s, n):
    if not 0 <= n <= 255:
        return ('err', IFC)
    if n >= len(s):
        return ('ok', s)
    return ('ok', s[len(s) - n:])


def mid(s, start, n=None):
    """MID$(s, start[, n]): n characters from position start (1-based); to the end if n omitted."""
    if not 1 <= start <= 255:
        return ('err', IFC)
    if n is not None and not 0 <= n <= 255:
        return ('err', IFC)
    if start > len(s):
        return ('ok', b'')
    rest = s[start - 1:]
    if n is None:
        return ('ok', rest)
    return ('ok', rest[:n])


def instr(big, small, start=None):
    """INSTR([start,] big, small): manual rules in their stated order."""
    if start is not None and not 1 <= start <= 255:
        return ('err', IFC)
    n = 1 if start is None else start
    if n > len(big):
        return ('ok', 0)
    if big == b'':
        return ('ok', 0)
    if small == b'':
        return ('ok', n)
    # first occurrence at or after position n, by direct comparison of every window
    for pos in range(n, len(big) - len(small) + 2):
        if big[pos - 1:pos - 1 + len(small)] == small:
            return ('ok', pos)
    return ('ok', 0)


def string_code(n, code):
    if not 0 <= n <= 255 or not 0 <= code <= 255:
        return ('err', IFC)
    return ('ok', bytes([code]) * n)


def string_char(n, s):
    """STRING$(n, s$) for non-empty s$ (the empty case is not pinned)."""
    assert s
    if not 0 <= n <= 255:
        return ('err', IFC)
    return ('ok', s[:1] * n)


def space(n):
    if not 0 <= n <= 255:
        return ('err', IFC)
    return ('ok', b' ' * n)


def length(s):
    return ('ok', len(s))


def asc(s):
    if not s:
        return ('err', IFC)
    return ('ok', s[0])


def chr_(n):
    if not 0 <= n <= 255:
        return ('err', IFC)
    return ('ok', bytes([n]))


def concat(a, b):
    if len(a) + len(b) > MAXLEN:
        return ('err', STRING_TOO_LONG)
    return ('ok', a + b)


def order(a, b):
    """-1, 0, 1: byte-wise lexicographic, a proper prefix orders first."""
    for x, y in zip(a, b):
        if x != y:
            return -1 if x < y else 1
    if len(a) == len(b):
        return 0
    return -1 if len(a) < len(b) else 1


def compare(op, a, b):
    """BASIC truth value (-1 / 0) of a <op> b."""
    o = order(a, b)
    r = {'=': o == 0, '<>': o != 0, '<': o < 0, '>': o > 0, '<=': o <= 0, '>=': o >= 0}[op]
    return ('ok', -1 if r else 0)


def mid_statement(target, start, n, source, same_string=False):
    """
    MID$(target, start[, n]) = source.  Returns new target value (same length) or error.
    With n = 0 nothing is replaced and no error is raised whatever the start position (also on an empty
    target); otherwise start must lie in 1..LEN(target).
    same_string: the source expression is the target variable itself (the characters are then
    moved one by one from left to right inside the one string, as GW-BASIC does).
    """
    if n is not None and not 0 <= n <= 255:
        return ('err', IFC)
    count = 255 if n is None else n
    in_range = 1 <= start <= len(target)
    if count == 0:
        # a length of 0 replaces nothing: the statement is a no-op and the start position is not looked at
        return ('ok', target)
    if not in_range:
        return ('err', IFC)
    count = min(count, len(source), len(target) - start + 1)
    t = bytearray(target)
    if same_string:
        for i in range(count):
            t[start - 1 + i] = t[i]
    else:
        t[start - 1:start - 1 + count] = source[:count]
    return ('ok', bytes(t))


def lset(target, source):
    n = len(target)
    return ('ok', source[:n] + b' ' * (n - len(source[:n])))


def rset(target, source):
    n = len(target)
    return ('ok', b' ' * (n - len(source[:n])) + source[:n])
