"""
Fast exact reference for MBF numbers on plain Python integers (used by C03..C06 for volume).

Written from the format definition only (see vf/models/rnum.py header):
  value(b) = sign * M * 2^k   with  M = hidden-bit mantissa as an integer (24 / 56 bits),
                                   k = E - 128 - bits,   E = exponent byte (E == 0 -> value 0)
  Integer: two's-complement 16 bit.

Everything here is cross-checked against the Fraction model rnum.decode() by selftest(),
which every shard that uses this module runs first (a disagreement aborts the shard).
"""
from fractions import Fraction

from . import rnum

BITS = {4: 24, 8: 56}
TYPENAME = {2: 'integer', 4: 'single', 8: 'double'}


def parts(b):
    """(sign, M, k): value = sign*M*2^k. sign in (-1, 0, 1); M = 0, k = 0 for zero."""
    n = len(b)
    if n == 2:
        v = b[0] | (b[1] << 8)
        if v & 0x8000:
            return (-1, 65536 - v, 0)
        return ((1, v, 0) if v else (0, 0, 0))
    e = b[-1]
    if e == 0:
        return (0, 0, 0)
    bits = BITS[n]
    raw = int.from_bytes(b[:-1], 'little')
    top = 1 << (bits - 1)
    if raw & top:
        return (-1, raw, e - 128 - bits)
    return (1, raw | top, e - 128 - bits)


def frac(b):
    """Exact value as a Fraction (faster than rnum.decode)."""
    s, m, k = parts(b)
    if s == 0:
        return Fraction(0)
    if k >= 0:
        return Fraction(s * (m << k))
    return Fraction(s * m, 1 << -k)


def pack(n, e, mant, neg):
    """Encoding with exponent byte e, stored mantissa field mant (bits-1 bits, no hidden bit), sign."""
    bits = BITS[n]
    raw = (mant & ((1 << (bits - 1)) - 1)) | ((1 << (bits - 1)) if neg else 0)
    return raw.to_bytes(n - 1, 'little') + bytes((e,))


def int_bytes(i):
    return (i & 0xffff).to_bytes(2, 'little')


def from_int(i, n):
    """Encoding (n = 4 or 8) of the integer i, which must be exactly representable."""
    if n == 2:
        return int_bytes(i)
    if i == 0:
        return b'\0' * n
    bits = BITS[n]
    a = abs(i)
    l = a.bit_length()
    if l > bits:
        if a & ((1 << (l - bits)) - 1):
            raise ValueError('integer not representable')
        m = a >> (l - bits)
    else:
        m = a << (bits - l)
    # value = m * 2^(l-bits) ; E - 128 - bits = l - bits
    return pack(n, 128 + l, m, i < 0)


def is_integral(b):
    s, m, k = parts(b)
    return s == 0 or k >= 0 or (m & ((1 << -k) - 1)) == 0


def trunc_int(b):
    """Integer part toward zero, as Python int."""
    s, m, k = parts(b)
    if k >= 0:
        return s * (m << k)
    return s * (m >> -k)


def floor_int(b):
    s, m, k = parts(b)
    if k >= 0:
        return s * (m << k)
    q = m >> -k
    if s < 0 and (m & ((1 << -k) - 1)):
        return -q - 1
    return s * q


def round_half_away_int(b):
    s, m, k = parts(b)
    if k >= 0:
        return s * (m << k)
    return s * ((m + (1 << (-k - 1))) >> -k)


def is_tie(b):
    """value is exactly an integer + 1/2"""
    s, m, k = parts(b)
    if s == 0 or k >= 0:
        return False
    return (m & ((1 << -k) - 1)) == (1 << (-k - 1))


def value_eq_int(b, i):
    """decode(b) == i (Python int), exactly."""
    s, m, k = parts(b)
    if k >= 0:
        return s * (m << k) == i
    if m & ((1 << -k) - 1):
        return False
    return s * (m >> -k) == i


def widen(b):
    """Exact double encoding of a single (canonical zero for any zero)."""
    s, m, k = parts(b)
    if s == 0:
        return b'\0' * 8
    return pack(8, b[-1], (m & 0x7fffff) << 32, s < 0)


def single_neighbours(d):
    """
    For a double encoding d (non-zero): (lo, hi, rem) where lo/hi are the magnitudes'
    single encodings (same sign as d) enclosing |d| (hi is None when it would need
    exponent byte 256), and rem in [0, 2^32) is the position of |d| between them in units
    of 2^-32 single-ulp (rem == 0: d is exactly lo).
    """
    s, m, k = parts(d)
    e = d[-1]
    neg = s < 0
    mlo = m >> 32
    rem = m & 0xffffffff
    lo = pack(4, e, mlo & 0x7fffff, neg)
    mhi = mlo + 1
    if mhi == (1 << 24):
        if e == 255:
            hi = None
        else:
            hi = pack(4, e + 1, 0, neg)
    else:
        hi = pack(4, e, mhi & 0x7fffff, neg)
    return lo, hi, rem


MAXV = {4: rnum.max_value(4), 8: rnum.max_value(8)}
MINPOS = rnum.min_positive(4)   # same for both precisions: 2^-129
POS_MAX = {4: b'\xff\xff\x7f\xff', 8: b'\xff' * 6 + b'\x7f\xff'}
NEG_MAX = {4: b'\xff\xff\xff\xff', 8: b'\xff' * 8}


def ulp_of(b):
    """unit in the last place at the binade of encoding b (zero: the smallest binade)"""
    n = len(b)
    e = b[-1] or 1
    return Fraction(2) ** (e - 128 - BITS[n])


def selftest(rng, n=400):
    """Cross-check this module against the Fraction model; raises AssertionError on disagreement."""
    for i in range(n):
        for size in (4, 8):
            b = bytes(rng.getrandbits(8) for _ in range(size))
            if i % 3 == 0:
                b = b[:-1] + bytes((rng.randint(0x70, 0x9c),))
            if i % 50 == 0:
                b = b[:-1] + b'\0'
            v = rnum.decode(b)
            assert frac(b) == v, b
            assert trunc_int(b) == rnum.trunc(v), b
            assert floor_int(b) == rnum.floor(v), b
            assert round_half_away_int(b) == rnum.round_half_away(v), b
            assert is_integral(b) == (v.denominator == 1), b
            assert is_tie(b) == ((v * 2).denominator == 1 and v.denominator == 2), b
            if v != 0:
                assert pack(size, b[-1], int.from_bytes(b[:-1], 'little'), v < 0) == b
                assert ulp_of(b) == rnum.ulp(size, b)
            if size == 4:
                assert rnum.decode(widen(b)) == v
            elif v != 0:
                lo, hi, rem = single_neighbours(b)
                rlo, rhi = rnum.neighbours(abs(v), 4)
                assert abs(rnum.decode(lo)) == rlo, b
                if hi is not None:
                    assert abs(rnum.decode(hi)) == (rhi if rem else rlo + rnum.ulp(4, lo)), b
                assert (abs(v) - rlo) == Fraction(rem, 1 << 32) * rnum.ulp(4, lo), b
        i16 = rng.randint(-32768, 32767)
        assert rnum.decode(from_int(i16, 4)) == i16 and rnum.decode(from_int(i16, 8)) == i16
        assert from_int(i16, 4) == rnum.encode_exact(i16, 4) and from_int(i16, 8) == rnum.encode_exact(i16, 8)
        assert value_eq_int(from_int(i16, 4), i16) and not value_eq_int(from_int(i16, 8), i16 + 1)
    return True
