"""
R-PLAY: what a PLAY music string must sound like, written from the statement of property C42
(and the GW-BASIC manual's PLAY entry for the command letters), not from pcbasic/basic/sound.py.

A music string is handled here as a TOKEN LIST (the generator renders the same list to text), so
that no second parser with shared misreadings is involved:

    ['note', letter, accidental, length|None, dots]   letter 'A'..'G', accidental '' '#' '+' '-'
    ['N', n, dots]                                    note by number, 1..84
    ['P', length, dots]                               pause
    ['L', v] ['T', v] ['O', v]                        set length 1..64, tempo 32..255, octave 0..6
    ['>'] ['<']                                       octave up / down, clamped to 0..6
    ['M', 'N'|'L'|'S'|'F'|'B']                        normal / legato / staccato / foreground / background
    ['V', v]                                          volume (PCjr/Tandy only; no effect on pitch or time)
    ['X', [tokens]]                                   substring, executed in place

Semantics (statement C42):
    note number   n = octave*12 + semitone + 1      semitone: C=0 C#=1 D=2 D#=3 E=4 F=5 F#=6 G=7 G#=8 A=9 A#=10 B=11,
                                                     '#'/'+' one up, '-' one down
    frequency     440 * 2^((n-33)/12)
    duration      d = (60*4/T)/len * 1.5^dots        len = the note's own length or the current L
    sound         tone of d*7/8, d, d*3/4 followed by silence of d*1/8, 0, d*1/4 under MN, ML, MS
    pause         silence of (60*4/T)/len * 1.5^dots

The result is a list of segments ('tone', n, seconds) / ('rest', seconds) with adjacent rests merged
and zero-length segments dropped - the audible timeline.  Frequencies are left as note numbers so
that the caller can evaluate the statement's formula (and the recorded deviation) itself.
"""
from fractions import Fraction

SEMITONE = {'C': 0, 'D': 2, 'E': 4, 'F': 5, 'G': 7, 'A': 9, 'B': 11}
FILL = {'N': Fraction(7, 8), 'L': Fraction(1), 'S': Fraction(3, 4)}


def formula_frequency(n, shift=0):
    """The statement's closed formula; shift=-1 gives the recorded one-semitone-lower deviation."""
    return 440.0 * 2.0 ** ((n + shift - 33) / 12.0)


class State(object):
    def __init__(self):
        # no defaults are pinned by the statement: every generated string sets T, L, O and M first
        self.octave = None
        self.length = None
        self.tempo = None
        self.fill = None
        self.clamps = 0


def _emit(out, kind, n, seconds):
    if seconds == 0:
        return
    if kind == 'rest' and out and out[-1][0] == 'rest':
        out[-1] = ('rest', out[-1][1] + seconds)
    elif kind == 'rest':
        out.append(('rest', seconds))
    else:
        out.append(('tone', n, seconds))


def run(tokens, state=None, out=None, stats=None):
    """Execute a token list. Returns (segments, state, stats)."""
    st = state or State()
    out = out if out is not None else []
    stats = stats if stats is not None else {}

    def cnt(k, v=1):
        stats[k] = stats.get(k, 0) + v

    for tk in tokens:
        op = tk[0]
        if op in ('note', 'N'):
            if op == 'note':
                _, letter, acc, length, dots = tk
                semi = SEMITONE[letter] + (1 if acc in ('#', '+') else -1 if acc == '-' else 0)
                n = st.octave * 12 + semi + 1
                ln = length if length else st.length
                if acc:
                    cnt('accidentals')
                if length:
                    cnt('own_lengths')
            else:
                _, n, dots = tk
                ln = st.length
                cnt('numbered_notes')
            d = Fraction(240, st.tempo) / ln * Fraction(3, 2) ** dots
            fill = FILL[st.fill]
            _emit(out, 'tone', n, d * fill)
            _emit(out, 'rest', None, d * (1 - fill))
            cnt('notes')
            cnt('notes_M' + st.fill)
            if dots:
                cnt('dotted')
        elif op == 'P':
            _, length, dots = tk
            d = Fraction(240, st.tempo) / length * Fraction(3, 2) ** dots
            _emit(out, 'rest', None, d)
            cnt('pauses')
        elif op == 'L':
            st.length = tk[1]
        elif op == 'T':
            st.tempo = tk[1]
        elif op == 'O':
            st.octave = tk[1]
        elif op == '>':
            if st.octave >= 6:
                cnt('octave_clamps')
            st.octave = min(6, st.octave + 1)
        elif op == '<':
            if st.octave <= 0:
                cnt('octave_clamps')
            st.octave = max(0, st.octave - 1)
        elif op == 'M':
            if tk[1] in FILL:
                st.fill = tk[1]
            else:
                cnt('mode_' + tk[1])
        elif op == 'V':
            cnt('volumes')
        elif op == 'X':
            cnt('substrings')
            run(tk[1], st, out, stats)
        else:
            raise ValueError(tk)
    return out, st, stats


def canonical_observed(events, voice):
    """
    Audible timeline of one voice from recorded tone events (voice, frequency, seconds, loop, volume):
    list of ('tone', frequency, seconds) / ('rest', seconds), rests merged, zero-length dropped.
    """
    out = []
    for v, freq, seconds, loop, volume in events:
        if v != voice:
            continue
        if seconds == 0:
            continue
        if freq == 0:
            if out and out[-1][0] == 'rest':
                out[-1] = ('rest', out[-1][1] + seconds)
            else:
                out.append(('rest', seconds))
        else:
            out.append(('tone', freq, seconds))
    return out
