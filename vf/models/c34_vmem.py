"""
R-GFX / video-memory encoders for C34, written from the hardware memory layouts
(IBM CGA / EGA / MDA technical references, Hercules, Olivetti M24, PCjr / Tandy 1000
video gate array), NOT from pcbasic's framebuffer.py.

A *layout* maps a linear byte offset (relative to the segment base of the mode, i.e.
page 0 byte 0; pages are contiguous: page p starts at p * page_size) to the screen
content that byte backs:

    layout.locate(off)                 -> Loc or None   (None: byte backs nothing - unused tail)
    layout.expected(content, off, plane=None) -> int    byte value the hardware layout prescribes
    layout.poke_effect(off, value, mask=None)  -> list of (target, fn(old)->new)
    layout.offset_of(page, y, x) / offset_of_cell(page, row, col) -> offsets encoding that pixel / cell
    layout.relation(start, off)        -> 'within-row' | 'row-crossing' | 'bank-tail' | 'bank-crossing' | 'page-crossing'
    layout.span_class(off, n)          -> same vocabulary, for a whole block
    layout.landmarks()                 -> offsets (within page 0) of row/bank/page boundaries and tails

`content` is any object with  char(page,row,col) attr(page,row,col) pixel(page,y,x).

Layouts
  Text      cell (row, col) of page p at p*page_size + 2*(row*cols+col): character byte, then attribute
            byte. page_size 4096 (80 columns) / 2048 (40 columns); bytes 2*cols*25.. of a page back nothing.
  Packed    CGA-style packed pixels: `banks` interleaved banks of 8192 bytes; scan line y lives in bank
            y % banks, at row y // banks of that bank; bytes_per_row = width*bpp/8; leftmost pixel in
            the most significant bits. Used rows of a bank: height/banks (rounded up); the rest of
            the 8192 bytes is an unused tail.
  Tandy6    PCjr/Tandy 640x200x4: 4 banks, 160 bytes per scan line; byte pair (2k, 2k+1) of a line
            holds 8 pixels: even byte = bit 0 of each pixel's attribute, odd byte = bit 1, leftmost
            pixel in bit 7.
  Planar    EGA/VGA planar: offset y*(width/8) + x//8 in every plane, leftmost pixel in bit 7; plane k
            holds bit k of the attribute. Read plane chosen by the read-map-select register, written
            planes by the map-mask register.
"""

SEG_MDA = 0xB000
SEG_CGA = 0xB800
SEG_EGA = 0xA000

ORDER = ['within-row', 'row-crossing', 'bank-tail', 'bank-crossing', 'page-crossing']


class Loc(object):
    """What one video-memory byte backs."""
    __slots__ = ('kind', 'page', 'row', 'col', 'y', 'x0', 'npix', 'plane')

    def __init__(self, kind, page, row=0, col=0, y=0, x0=0, npix=0, plane=None):
        self.kind = kind        # 'char' | 'attr' | 'pixels'
        self.page = page
        self.row, self.col = row, col
        self.y, self.x0, self.npix = y, x0, npix
        self.plane = plane      # Tandy6: attribute bit held by this byte; else None

    def __repr__(self):
        if self.kind == 'pixels':
            return 'Loc(pixels page=%d y=%d x=%d..%d plane=%r)' % (self.page, self.y, self.x0, self.x0 + self.npix - 1, self.plane)
        return 'Loc(%s page=%d row=%d col=%d)' % (self.kind, self.page, self.row, self.col)


class _Layout(object):
    family = None
    segment = None
    page_size = None
    is_text = False
    planes = None     # planar only

    def backed(self, off):
        return self.locate(off) is not None

    def _rowkey(self, off):
        """(page, bank, row-in-bank) of an offset; None parts where not applicable."""
        raise NotImplementedError

    def relation(self, start, off):
        """How byte `off` of a block relates to the block's first byte `start`."""
        p0, b0, r0, t0 = self._rowkey(start)
        p1, b1, r1, t1 = self._rowkey(off)
        if p1 != p0:
            return 'page-crossing'
        if b1 != b0:
            return 'bank-crossing'
        if t1 or t0:
            return 'bank-tail'
        if r1 != r0:
            return 'row-crossing'
        return 'within-row'

    def span_class(self, off, n):
        """Most far-reaching relation of any byte in [off, off+n) to the first one."""
        best = 0
        seen_tail = False
        # walk over row starts only (cheap): candidates are off, every row/bank/page boundary inside, and the end
        pts = set([off, off + n - 1])
        step = self.row_bytes
        a = (off // step + 1) * step
        while a < off + n:
            pts.add(a)
            a += step
        for a in self._boundaries_between(off, off + n):
            pts.add(a)
        for a in pts:
            best = max(best, ORDER.index(self.relation(off, a)))
        return ORDER[best]

    def _boundaries_between(self, lo, hi):
        return []


class Text(_Layout):
    family = 'text'
    is_text = True

    def __init__(self, segment, cols, rows=25):
        self.segment = segment
        self.cols, self.rows = cols, rows
        self.page_size = 0x1000 if cols == 80 else 0x800
        self.row_bytes = 2 * cols
        self.used = 2 * cols * rows

    def locate(self, off):
        page, o = divmod(off, self.page_size)
        if o >= self.used:
            return None
        cell, part = divmod(o, 2)
        row, col = divmod(cell, self.cols)
        return Loc('attr' if part else 'char', page, row=row, col=col)

    def expected(self, content, off, plane=None):
        loc = self.locate(off)
        if loc.kind == 'char':
            return content.char(loc.page, loc.row, loc.col)
        return content.attr(loc.page, loc.row, loc.col)

    def offset_of_cell(self, page, row, col):
        base = page * self.page_size + 2 * (row * self.cols + col)
        return [base, base + 1]

    def _rowkey(self, off):
        page, o = divmod(off, self.page_size)
        return page, 0, o // self.row_bytes, o >= self.used

    def _boundaries_between(self, lo, hi):
        out = []
        p = (lo // self.page_size) * self.page_size
        while p < hi:
            for a in (p, p + self.used):
                if lo <= a < hi:
                    out.append(a)
            p += self.page_size
        return out

    def landmarks(self):
        rb = self.row_bytes
        return sorted(set([0, 1, rb - 1, rb, rb + 1, 2 * rb, 12 * rb + 7, self.used - rb, self.used - 2, self.used - 1,
                           self.used, self.page_size - 1, self.page_size]))


class Packed(_Layout):
    family = 'packed'

    def __init__(self, segment, width, height, bpp, banks, bank_size=0x2000):
        self.segment = segment
        self.width, self.height, self.bpp, self.banks = width, height, bpp, banks
        self.bank_size = bank_size
        self.page_size = banks * bank_size
        self.ppb = 8 // bpp
        self.row_bytes = width * bpp // 8
        self.rows_per_bank = -(-height // banks)
        self.used = self.rows_per_bank * self.row_bytes

    def locate(self, off):
        page, o = divmod(off, self.page_size)
        bank, o = divmod(o, self.bank_size)
        r, b = divmod(o, self.row_bytes)
        y = r * self.banks + bank
        if y >= self.height or r >= self.rows_per_bank:
            return None
        return Loc('pixels', page, y=y, x0=b * self.ppb, npix=self.ppb)

    def expected(self, content, off, plane=None):
        loc = self.locate(off)
        v = 0
        for i in range(self.ppb):
            v = (v << self.bpp) | (content.pixel(loc.page, loc.y, loc.x0 + i) & ((1 << self.bpp) - 1))
        return v

    def poke_effect(self, off, value, mask=None):
        loc = self.locate(off)
        out = []
        m = (1 << self.bpp) - 1
        for i in range(self.ppb):
            pv = (value >> (8 - self.bpp * (i + 1))) & m
            out.append(((loc.page, loc.y, loc.x0 + i), (lambda old, pv=pv: pv)))
        return out

    def offset_of(self, page, y, x):
        bank, r = y % self.banks, y // self.banks
        return [page * self.page_size + bank * self.bank_size + r * self.row_bytes + x // self.ppb]

    def _rowkey(self, off):
        page, o = divmod(off, self.page_size)
        bank, o = divmod(o, self.bank_size)
        return page, bank, o // self.row_bytes, o >= self.used

    def _boundaries_between(self, lo, hi):
        out = []
        b = (lo // self.bank_size) * self.bank_size
        while b < hi:
            for a in (b, b + self.used):
                if lo <= a < hi:
                    out.append(a)
            b += self.bank_size
        return out

    def landmarks(self):
        rb, bs = self.row_bytes, self.bank_size
        s = set([0, 1, rb - 1, rb, rb + 1, 3 * rb + rb // 2, self.used - rb, self.used - 1, self.used, self.used + 1])
        for k in range(1, self.banks + 1):
            s.update([k * bs - 1, k * bs, k * bs - 256, k * bs + rb])
        return sorted(s)


class Tandy6(Packed):
    family = 'tandy6'

    def __init__(self, segment=SEG_CGA):
        Packed.__init__(self, segment, 640, 200, 2, 4)
        # 160 bytes per line; each byte covers 8 pixels (one attribute bit each)
        assert self.row_bytes == 160

    def locate(self, off):
        page, o = divmod(off, self.page_size)
        bank, o = divmod(o, self.bank_size)
        r, b = divmod(o, self.row_bytes)
        y = r * self.banks + bank
        if y >= self.height or r >= self.rows_per_bank:
            return None
        return Loc('pixels', page, y=y, x0=(b // 2) * 8, npix=8, plane=b % 2)

    def expected(self, content, off, plane=None):
        loc = self.locate(off)
        v = 0
        for i in range(8):
            v = (v << 1) | ((content.pixel(loc.page, loc.y, loc.x0 + i) >> loc.plane) & 1)
        return v

    def poke_effect(self, off, value, mask=None):
        loc = self.locate(off)
        out = []
        bit = 1 << loc.plane
        for i in range(8):
            b = (value >> (7 - i)) & 1
            out.append(((loc.page, loc.y, loc.x0 + i), (lambda old, b=b, bit=bit: (old & ~bit & 0xff) | (bit if b else 0))))
        return out

    def offset_of(self, page, y, x):
        bank, r = y % self.banks, y // self.banks
        base = page * self.page_size + bank * self.bank_size + r * self.row_bytes + (x // 8) * 2
        return [base, base + 1]


class Planar(_Layout):
    family = 'planar'

    def __init__(self, width, height, page_size, planes=(0, 1, 2, 3), segment=SEG_EGA):
        self.segment = segment
        self.width, self.height = width, height
        self.page_size = page_size
        self.row_bytes = width // 8
        self.used = self.row_bytes * height
        self.planes = tuple(planes) if planes is not None else None

    def locate(self, off):
        page, o = divmod(off, self.page_size)
        if o >= self.used:
            return None
        y, b = divmod(o, self.row_bytes)
        return Loc('pixels', page, y=y, x0=b * 8, npix=8)

    def expected(self, content, off, plane=0):
        loc = self.locate(off)
        v = 0
        for i in range(8):
            v = (v << 1) | ((content.pixel(loc.page, loc.y, loc.x0 + i) >> plane) & 1)
        return v

    def poke_effect(self, off, value, mask=0xf):
        loc = self.locate(off)
        bits = 0
        for p in (self.planes or ()):
            if mask & (1 << p):
                bits |= 1 << p
        out = []
        for i in range(8):
            b = (value >> (7 - i)) & 1
            out.append(((loc.page, loc.y, loc.x0 + i), (lambda old, b=b, bits=bits: (old & ~bits & 0xff) | (bits if b else 0))))
        return out

    def offset_of(self, page, y, x):
        return [page * self.page_size + y * self.row_bytes + x // 8]

    def _rowkey(self, off):
        page, o = divmod(off, self.page_size)
        return page, 0, o // self.row_bytes, o >= self.used

    def _boundaries_between(self, lo, hi):
        out = []
        p = (lo // self.page_size) * self.page_size
        while p < hi:
            for a in (p, p + self.used):
                if lo <= a < hi:
                    out.append(a)
            p += self.page_size
        return out

    def landmarks(self):
        rb = self.row_bytes
        return sorted(set([0, 1, rb - 1, rb, rb + 1, 5 * rb + 3, self.used - rb, self.used - 1, self.used, self.used + 1,
                           self.page_size - 1, self.page_size, self.page_size + rb]))


# ---------------------------------------------------------------------------------------
# the modes of each adapter (SCREEN number, text width) -> layout, from the adapters' documentation

def _cga1(seg=SEG_CGA):
    return Packed(seg, 320, 200, 2, 2)


def _cga2(seg=SEG_CGA):
    return Packed(seg, 640, 200, 1, 2)


def layouts_for(adapter):
    """
    {(screen, width): layout} for an adapter name as used in this file:
    cga ega ega64k egamono vga mda hercules olivetti pcjr tandy
    """
    colour_text = {(0, 40): Text(SEG_CGA, 40), (0, 80): Text(SEG_CGA, 80)}
    mono_text = {(0, 40): Text(SEG_MDA, 40), (0, 80): Text(SEG_MDA, 80)}
    cga = {(1, 40): _cga1(), (2, 80): _cga2()}
    out = {}
    if adapter == 'cga':
        out.update(colour_text)
        out.update(cga)
    elif adapter in ('ega', 'vga', 'ega64k'):
        out.update(colour_text)
        out.update(cga)
        out[(7, 40)] = Planar(320, 200, 0x2000)
        out[(8, 80)] = Planar(640, 200, 0x4000)
        if adapter == 'ega64k':
            # 64K EGA: 640x350 with 4 attributes. Which planes carry them is adapter-specific
            # (chained plane pairs); only model-free checks are applied (planes=None).
            out[(9, 80)] = Planar(640, 350, 0x8000, planes=None)
        else:
            out[(9, 80)] = Planar(640, 350, 0x8000)
    elif adapter == 'egamono':
        out.update(mono_text)
        # EGA monochrome 640x350: two of the four planes are used; plane assignment not pinned -> model-free only
        out[(10, 80)] = Planar(640, 350, 0x8000, planes=None)
    elif adapter == 'mda':
        out.update(mono_text)
    elif adapter == 'hercules':
        out.update(mono_text)
        out[(3, 80)] = Packed(SEG_CGA, 720, 348, 1, 4)
    elif adapter == 'olivetti':
        out.update(colour_text)
        out.update(cga)
        out[(3, 80)] = Packed(SEG_CGA, 640, 400, 1, 4)
    elif adapter in ('pcjr', 'tandy'):
        out.update(colour_text)
        out.update(cga)
        out[(3, 20)] = Packed(SEG_CGA, 160, 200, 4, 2)
        out[(4, 40)] = Packed(SEG_CGA, 320, 200, 2, 2)
        out[(5, 40)] = Packed(SEG_CGA, 320, 200, 4, 4)
        out[(6, 80)] = Tandy6()
    else:
        raise ValueError(adapter)
    return out


def bsave_file(segment, offset, data, tandy=False):
    """A BSAVE-format memory image file: FD seg off len, data, [Tandy: header again], EOF 1A."""
    import struct
    hdr = b'\xfd' + struct.pack('<HHH', segment, offset, len(data) & 0xffff)
    return hdr + bytes(data) + (hdr if tandy else b'') + b'\x1a'


def parse_bsave(blob, tandy=False):
    """-> (segment, offset, length, data) of a BSAVE file, or None if malformed."""
    import struct
    if len(blob) < 8 or blob[:1] != b'\xfd':
        return None
    seg, off, length = struct.unpack('<HHH', blob[1:7])
    body = blob[7:]
    if body[-1:] == b'\x1a':
        body = body[:-1]
    if tandy:
        if body[-7:] != blob[:7]:
            return None
        body = body[:-7]
    return seg, off, length, body
