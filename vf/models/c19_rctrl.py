"""
R-CTRL: independent reference interpreter for the generated structured-program subset.

Written from the property statements of C19/C21/C22 and the GW-BASIC manual, not from
pcbasic's interpreter: the program is an AST in "lines form" (JSON-able), the matching of
FOR/NEXT and WHILE/WEND is given by construction (loop ids put there by the generator, never found
by scanning text), there is ONE control stack holding FOR, WHILE and GOSUB frames, the DATA pointer
is an index into the list of items, the statement pointer is (line index, operation index).

Program (lines form)
--------------------
    prog = {'lines': [[number, [stmt, ...]], ...],      # ascending line numbers
            'direct': [stmt, ...] or None,              # a direct-mode line executed INSTEAD of RUN
            'after': [[stmt, ...], ...] or None}        # direct-mode lines typed AFTER the run has stopped
    stmt (lists, first element is the kind):
      ['print', tag, [item, ...]]     PRINT "tag";item;item   item = expr | ['s', 'A$'] (printed as "[";A$;"]")
      ['let', target, expr]           target = 'I%' | ['arr', 'A%', expr]
      ['lets', 'A$', 'text']          A$="text"
      ['for', var, start, stop, step|None, lid]
      ['next', [lid|None, ...], [name|None, ...]]       NEXT / NEXT I% / NEXT J%,I% ; lid None = no FOR belongs to it
      ['while', cond, lid] ['wend', lid|None]
      ['goto', n] ['gosub', n] ['return']
      ['if', cond, [then...], [else...]|None, style]    style '' | 'line' (THEN n / ELSE n) | 'goto' (IF c GOTO n)
      ['on', expr, 'goto'|'gosub', [n, ...]]
      ['end'] ['stop']
      ['error', expr] ['onerror', n] ['resume', None|0|'next'|n]
      ['read', [target, ...]] ['data', [[raw, sval|None, nval|None], ...]] ['restore', n|None]
      ['dim', 'A%', size]
      ['nop', basic_text] / ['nop', basic_text, 'dead']   no visible effect / only ever skipped over
      ['rem', text] / ['rem', text, "'"]   REM text / ' text (last statement of its line)
      ['fault', basic_text, code]     opaque statement that always raises `code` (documented GW-BASIC error)
      ['deffn', 'FNA', body_text, code|None, 'soft'?]   DEF FNA(X)=body_text ; calling it raises `code` (None: no error)
      ['fncall', basic_text, 'FNA']   a statement that calls FNA once: the error of the body is an error of THIS statement
      ['fault', basic_text, code, 'soft']   the same, but pinned only while a trap is armed (1/0)
    expr: int | float (dyadic) | 'I%' (variable) | [op, a, b] with op in + - * \\ = <> < > <= >= |
          ['err'] | ['erl'] | ['arr', name, expr]

Every executed operation is one step. An IF is one step, the first statement of the branch taken is
the next one; the ELSE keyword reached at the end of a THEN branch is a step of its own (it skips the
rest of the line) - this mirrors statement boundaries, so a machine can be suspended after any step
(`snapshot()` / `restore()`), and `steps` can be put next to the harness' boundary counter.

Situations that the property statements do not pin raise Unpinned: the caller discards that program
(it is a generator matter, never a verdict).
"""
import copy
from fractions import Fraction

# GW-BASIC manual, appendix A (own copy; codes without a message print "Unprintable error")
MESSAGES = {
    1: b'NEXT without FOR', 2: b'Syntax error', 3: b'RETURN without GOSUB', 4: b'Out of DATA',
    5: b'Illegal function call', 6: b'Overflow', 7: b'Out of memory', 8: b'Undefined line number',
    9: b'Subscript out of range', 10: b'Duplicate Definition', 11: b'Division by zero',
    12: b'Illegal direct', 13: b'Type mismatch', 14: b'Out of string space', 15: b'String too long',
    16: b'String formula too complex', 17: b"Can't continue", 18: b'Undefined user function',
    19: b'No RESUME', 20: b'RESUME without error', 22: b'Missing operand',
    23: b'Line buffer overflow', 24: b'Device Timeout', 25: b'Device Fault', 26: b'FOR without NEXT',
    27: b'Out of paper', 29: b'WHILE without WEND', 30: b'WEND without WHILE', 50: b'FIELD overflow',
    51: b'Internal error', 52: b'Bad file number', 53: b'File not found', 54: b'Bad file mode',
    55: b'File already open', 57: b'Device I/O error', 58: b'File already exists', 61: b'Disk full',
    62: b'Input past end', 63: b'Bad record number', 64: b'Bad file name',
    66: b'Direct statement in file', 67: b'Too many files', 68: b'Device Unavailable',
    69: b'Communication buffer overflow', 70: b'Permission Denied', 71: b'Disk not Ready',
    72: b'Disk media error', 73: b'Advanced Feature', 74: b'Rename across disks',
    75: b'Path/File access error', 76: b'Path not found', 77: b'Deadlock',
}
DEFINED_CODES = sorted(MESSAGES)
UNDEFINED_CODES = [c for c in range(1, 256) if c not in MESSAGES]


def message(code):
    return MESSAGES.get(code, b'Unprintable error')


class Unpinned(Exception):
    """The program reached a situation the property statement does not pin."""


class BasicError(Exception):
    def __init__(self, code, line=None):
        Exception.__init__(self, code)
        self.code = code
        self.line = line      # explicit line number (DATA line for a READ type error)


UNKNOWN = 'unknown'


def canon(name):
    """Variable identity: no sigil means single precision (no DEFtype in these programs)."""
    return name if name[-1] in '%!#$' else name + '!'


def fmt_num(v):
    """
    PRINT form of a number, only for the short exact values the generators use:
    magnitude below 32768 for integral values, below 1000 with a fraction that is a multiple of 1/16.
    """
    if v is UNKNOWN:
        raise Unpinned('printing a value the statement does not pin')
    v = Fraction(v)
    sign = b'-' if v < 0 else b' '
    a = abs(v)
    ip = a.numerator // a.denominator
    fp = a - ip
    if fp:
        if (fp * 16).denominator != 1 or ip >= 1000:
            raise Unpinned('number outside the printable exact subset: %s' % v)
    elif ip >= 10 ** 7:
        raise Unpinned('number outside the printable exact subset: %s' % v)
    s = b''
    while fp:
        fp *= 10
        d = fp.numerator // fp.denominator
        s += b'%d' % d
        fp -= d
    body = (b'%d' % ip if (ip or not s) else b'') + (b'.' + s if s else b'')
    return sign + body + b' '


class Machine(object):

    def __init__(self, prog, on_oob='error'):
        """
        on_oob: what ON n GOTO/GOSUB does for n < 0 or n > 255 (not pinned by the C19 statement):
        'error' = Illegal function call, 'fall' = fall through. `oob_seen` tells whether it mattered.
        """
        self.on_oob = on_oob
        self.lines = []        # [(number, ops)]
        self.index = {}        # line number -> line index
        for li, (num, stmts) in enumerate(prog['lines']):
            ops = []
            self._compile(stmts, ops)
            self.lines.append((num, ops))
            self.index[num] = li
        self.after = []
        for stmts in prog.get('after') or []:
            ops = []
            self._compile(stmts, ops)
            self.after.append(ops)
        self.after_idx = 0
        self.direct = None
        if prog.get('direct'):
            ops = []
            self._compile(prog['direct'], ops)
            self.direct = ops
        # where the NEXT / WEND of each loop id sits: lid -> (li, oi, k)
        self.next_of = {}
        self.wend_of = {}
        self.data = []         # [(line number, raw, sval, nval)]
        for li, ops in self._all_lines():
            for oi, op in enumerate(ops):
                st = op[1]
                if op[0] == 'next':
                    for k, lid in enumerate(st[1]):
                        if lid is not None:
                            self.next_of[lid] = (li, oi, k)
                elif op[0] == 'wend' and st[1] is not None:
                    self.wend_of[st[1]] = (li, oi)
                elif op[0] == 'data' and li >= 0:
                    for raw, sval, nval in st[1]:
                        self.data.append((self.lines[li][0], raw, sval, nval))
        self.vars = {}
        self.arrays = {}       # name -> [size, {index: value}]
        self.stack = []        # ('for', lid, var, limit, step) | ('while', lid) | ('gosub', (li, oi))
        self.on_error = 0
        self.in_handler = False
        self.resume_pc = None
        self.err = 0            # fresh run: 0; inside a handler: the error; after RESUME: not pinned
        self.erl = 0
        self.dptr = 0
        self.dmoved = 'start'
        self.out = bytearray()
        self.steps = 0
        self.done = None       # ('end',) | ('error', code, line|None) | ('stop', line)
        self.oob_seen = False
        self.error_origin = None
        self.fns = {}          # DEF FN executed so far: name -> (code | None, soft)
        self.log = []          # (output length before the step, event name)
        self.counts = {}
        self.max_gosub = 0
        if self.direct is not None:
            self.pc = (-1, 0)
        else:
            self.pc = (0, 0)
            if not self.lines:
                self.done = ('end',)

    # -- compile -------------------------------------------------------------------------
    def _compile(self, stmts, ops):
        for st in stmts:
            if st[0] == 'if':
                # op = ['if', stmt, index of the ELSE branch | None | ('line', n)]
                op = ['if', st, None]
                ops.append(op)
                style = st[4] if len(st) > 4 else ''
                if style not in ('line', 'goto'):
                    # (IF c THEN n / IF c GOTO n jump inside the IF statement itself)
                    self._compile(st[2], ops)
                if st[3] is not None:
                    if style == 'line' and len(st[3]) == 1 and st[3][0][0] == 'goto':
                        op[2] = ('line', st[3][0][1])
                    else:
                        ops.append(['else', st])
                        op[2] = len(ops)
                        self._compile(st[3], ops)
            else:
                ops.append([st[0], st])

    def _all_lines(self):
        for li, (num, ops) in enumerate(self.lines):
            yield li, ops
        if self.direct is not None:
            yield -1, self.direct

    def _ops(self, li):
        return self.direct if li < 0 else self.lines[li][1]

    def _lineno(self, li):
        return None if li < 0 else self.lines[li][0]

    # -- suspend / resume ------------------------------------------------------------------
    def snapshot(self):
        keep = ('vars', 'arrays', 'stack', 'on_error', 'in_handler', 'resume_pc', 'err', 'erl', 'dptr',
                'steps', 'done', 'oob_seen', 'pc', 'counts', 'max_gosub', 'dmoved', 'error_origin', 'fns')
        snap = {k: copy.deepcopy(getattr(self, k)) for k in keep}
        snap['out'] = bytes(self.out)
        snap['log'] = list(self.log)
        return snap

    def restore(self, snap):
        for k, v in snap.items():
            setattr(self, k, copy.deepcopy(v))
        self.out = bytearray(snap['out'])

    # -- values ------------------------------------------------------------------------------
    def _get(self, name):
        name = canon(name)
        return self.vars.get(name, 0)

    def _convert(self, name, v):
        if v is UNKNOWN:
            return v
        sig = canon(name)[-1]
        if sig == '%':
            f = Fraction(v)
            if f.denominator != 1:
                if (f * 2).denominator == 1:
                    raise Unpinned('rounding of a half into an integer variable')
                f = Fraction((f + Fraction(1, 2)).__floor__())
            if not (-32768 <= f <= 32767):
                raise BasicError(6)
            return int(f)
        if sig == '!':
            f = Fraction(v)
            n = abs(f.numerator)
            # exact in a 24-bit mantissa?
            while n and n % 2 == 0:
                n //= 2
            if n >= (1 << 24) or f.denominator & (f.denominator - 1):
                raise Unpinned('value not exact in single precision')
            return int(f) if f.denominator == 1 else f
        return v

    def _set(self, name, v):
        self.vars[canon(name)] = self._convert(name, v)

    def _array(self, name):
        name = canon(name)
        if name not in self.arrays:
            self.arrays[name] = [10, {}]
        return self.arrays[name]

    def _index(self, name, idx):
        i = self.ev(idx)
        if i is UNKNOWN or Fraction(i).denominator != 1:
            raise Unpinned('array index')
        i = int(i)
        if not (-32768 <= i <= 32767):
            raise BasicError(6)
        if i < 0:
            raise BasicError(5)
        arr = self._array(name)
        if i > arr[0]:
            raise BasicError(9)
        return arr, i

    def ev(self, e):
        if isinstance(e, bool):
            raise TypeError(e)
        if isinstance(e, int):
            return e
        if isinstance(e, float):
            return Fraction(e)
        if isinstance(e, str):
            return self._get(e)
        op = e[0]
        if op == 'err':
            return self.err
        if op == 'erl':
            return self.erl
        if op == 'arr':
            arr, i = self._index(e[1], e[2])
            return arr[1].get(i, 0)
        a, b = self.ev(e[1]), self.ev(e[2])
        if a is UNKNOWN or b is UNKNOWN:
            raise Unpinned('using a value the statement does not pin')
        if op == '+':
            r = a + b
        elif op == '-':
            r = a - b
        elif op == '*':
            r = a * b
        elif op == '\\':
            if Fraction(a).denominator != 1 or Fraction(b).denominator != 1:
                raise Unpinned('integer division of fractions')
            if not (-32768 <= a <= 32767 and -32768 <= b <= 32767):
                raise BasicError(6)
            if b == 0:
                if not self.on_error:
                    # without a trap, division by zero is announced and execution continues: not pinned here
                    raise Unpinned('soft-handled division by zero without a trap')
                raise BasicError(11)
            q = abs(int(a)) // abs(int(b))
            r = q if (a >= 0) == (b >= 0) else -q
        elif op == '=':
            r = -1 if a == b else 0
        elif op == '<>':
            r = -1 if a != b else 0
        elif op == '<':
            r = -1 if a < b else 0
        elif op == '>':
            r = -1 if a > b else 0
        elif op == '<=':
            r = -1 if a <= b else 0
        elif op == '>=':
            r = -1 if a >= b else 0
        else:
            raise ValueError(op)
        if isinstance(r, Fraction) and r.denominator == 1:
            r = int(r)
        return r

    # -- bookkeeping ---------------------------------------------------------------------------
    def _ev(self, name, detail=''):
        # `name` is the mechanism (goes into violation keys); `detail` only refines the counters
        self.log.append((len(self.out), name))
        self.counts[name + detail] = self.counts.get(name + detail, 0) + 1

    def _goto_line(self, n):
        if n not in self.index:
            raise BasicError(8)
        self.pc = (self.index[n], 0)

    def _advance(self, li, oi):
        """The statement after (li, oi): next op of the line, else first of the next line."""
        self.pc = (li, oi + 1)

    def _normalise_pc(self):
        """Move over line ends; program end / end of the direct line ends the run."""
        while self.done is None:
            li, oi = self.pc
            if li < 0:
                if oi >= len(self.direct):
                    self.done = ('end',)
                return
            if li >= len(self.lines):
                self.done = ('end',)
                return
            if oi < len(self.lines[li][1]):
                return
            self.pc = (li + 1, 0)

    # -- run -----------------------------------------------------------------------------------------
    def run(self, max_steps=None, until_len=None):
        """Run until the program ends, max_steps more steps were made or the output is longer than until_len.
        prog['after'] (direct-mode lines typed after the run has stopped, variables and DATA pointer kept) follow."""
        n = 0
        while True:
            while self.done is None:
                if max_steps is not None and n >= max_steps:
                    return self
                if until_len is not None and len(self.out) > until_len:
                    return self
                self.step()
                n += 1
            if self.after_idx >= len(self.after):
                return self
            # the next direct-mode line
            self.direct = self.after[self.after_idx]
            self.after_idx += 1
            self.pc = (-1, 0)
            self.done = None
            self.in_handler = False

    def step(self):
        self._normalise_pc()
        if self.done is not None:
            return
        li, oi = self.pc
        op = self._ops(li)[oi]
        self.steps += 1
        try:
            getattr(self, '_x_' + op[0])(li, oi, op)
        except BasicError as e:
            # the code of ERROR n / of an opaque fault is the generator's choice, not a mechanism
            self.error_origin = 'chosen' if op[0] in ('error', 'fault', 'fncall') else 'semantic'
            self._raise(li, oi, e)
        self._normalise_pc()
        if self.done is not None and self.done[0] == 'end' and self.in_handler and li >= 0 \
                and self._ops(li)[oi][0] != 'end':
            # the program text ends inside an error handler: No RESUME, named after the last line
            last = self.lines[-1][0]
            self._ev('fatal:no-resume')
            self.error_origin = 'semantic'
            self.out += message(19) + b' in %d\xff\r\n' % last
            self.done = ('error', 19, last)

    def _raise(self, li, oi, e):
        line = e.line if e.line is not None else self._lineno(li)
        code = e.code
        if self.on_error and not self.in_handler:
            if self.on_error not in self.index:
                raise Unpinned('handler line vanished')
            self.err, self.erl = code, (65535 if line is None else line)
            self.resume_pc = (li, oi)
            self.in_handler = True
            self._ev('trap:error-on-data-line' if e.line is not None else 'trap', ':err%d' % code)
            self.pc = (self.index[self.on_error], 0)
            return
        # no handler, or an error inside the handler: the program stops with that error's message
        self._ev(('fatal-in-handler' if self.in_handler else 'fatal') + (':error-on-data-line' if e.line is not None else ''),
                 ':err%d' % code)
        if line is None:
            self.out += message(code) + b'\xff\r\n'
        else:
            self.out += message(code) + b' in %d\xff\r\n' % line
        self.done = ('error', code, line)

    # -- statements -------------------------------------------------------------------------------------
    def _x_print(self, li, oi, op):
        st = op[1]
        s = st[1].encode('ascii')
        for item in st[2]:
            if isinstance(item, list) and item[0] == 's':
                if isinstance(item[1], list):
                    arr, i = self._index(item[1][1], item[1][2])
                    v = arr[1].get(i, '')
                else:
                    v = self.vars.get(item[1], '')
                if v is UNKNOWN:
                    raise Unpinned('printing a string the statement does not pin')
                s += b'[' + v.encode('latin-1') + b']'
            else:
                s += fmt_num(self.ev(item))
        if len(s) > 78:
            raise Unpinned('print line too long for the 80-column model')
        self.out += s + b'\r\n'
        self._advance(li, oi)

    def _x_let(self, li, oi, op):
        st = op[1]
        v = self.ev(st[2])
        if isinstance(st[1], list):
            arr, i = self._index(st[1][1], st[1][2])
            arr[1][i] = self._convert(st[1][1], v)
        else:
            self._set(st[1], v)
        self._ev('let')
        self._advance(li, oi)

    def _x_lets(self, li, oi, op):
        self.vars[op[1][1]] = op[1][2]
        self._advance(li, oi)

    def _x_dim(self, li, oi, op):
        name = canon(op[1][1])
        if name in self.arrays:
            raise BasicError(10)
        self.arrays[name] = [op[1][2], {}]
        self._advance(li, oi)

    def _x_fault(self, li, oi, op):
        if len(op[1]) > 3 and op[1][3] == 'soft' and not self.on_error:
            raise Unpinned('soft-handled arithmetic error without a trap')
        raise BasicError(op[1][2])

    def _x_deffn(self, li, oi, op):
        st = op[1]
        if li < 0:
            raise BasicError(12)
        self.fns[st[1]] = (st[3], len(st) > 4 and st[4] == 'soft')
        self._advance(li, oi)

    def _x_fncall(self, li, oi, op):
        name = op[1][2]
        if name not in self.fns:
            raise BasicError(18)
        code, soft = self.fns[name]
        if code is None:
            self._ev('fn:returns')
            self._advance(li, oi)
            return
        if soft and not self.on_error:
            raise Unpinned('soft-handled arithmetic error in a DEF FN body without a trap')
        # the failing statement is the CALLING one: ERL, RESUME and RESUME NEXT refer to it
        self._ev('fn:body-raises')
        raise BasicError(code)

    def _x_error(self, li, oi, op):
        n = self.ev(op[1][1])
        if n is UNKNOWN or Fraction(n).denominator != 1 or not (1 <= n <= 255):
            raise Unpinned('ERROR argument outside 1..255')
        raise BasicError(int(n))

    def _x_end(self, li, oi, op):
        self._ev('end')
        self.done = ('end',)

    def _x_stop(self, li, oi, op):
        self._ev('stop')
        line = self._lineno(li)
        if line is None:
            raise Unpinned('STOP in direct mode')
        self.out += b'Break in %d\xff\r\n' % line
        self.done = ('stop', line)

    # jumps
    def _x_goto(self, li, oi, op):
        self._ev('goto')
        self._goto_line(op[1][1])

    def _x_gosub(self, li, oi, op):
        n = op[1][1]
        if n not in self.index:
            raise BasicError(8)
        self._ev('gosub')
        self._push_gosub(li, oi)
        self.pc = (self.index[n], 0)

    def _push_gosub(self, li, oi):
        self.stack.append(('gosub', (li, oi + 1)))
        depth = sum(1 for f in self.stack if f[0] == 'gosub')
        self.max_gosub = max(self.max_gosub, depth)

    def _x_return(self, li, oi, op):
        # the frames of loops begun inside the subroutine go with it
        k = len(self.stack) - 1
        while k >= 0 and self.stack[k][0] != 'gosub':
            k -= 1
        if k < 0:
            raise BasicError(3)
        frame = self.stack[k]
        del self.stack[k:]
        self._ev('return')
        self.pc = frame[1]

    def _x_if(self, li, oi, op):
        st = op[1]
        c = self.ev(st[1])
        if c is UNKNOWN:
            raise Unpinned('condition on an unpinned value')
        style = st[4] if len(st) > 4 else ''
        if c != 0:
            self._ev('if:then')
            if style in ('line', 'goto'):
                self._goto_line(st[2][0][1])
            else:
                self.pc = (li, oi + 1)
        elif isinstance(op[2], tuple):
            self._ev('if:else')
            self._goto_line(op[2][1])
        elif op[2] is not None:
            self._ev('if:else')
            self.pc = (li, op[2])
        else:
            self._ev('if:false-skips-line')
            self.pc = (li, len(self._ops(li)))

    def _x_else(self, li, oi, op):
        # ELSE met at the end of a THEN branch: the rest of the line is skipped
        self.pc = (li, len(self._ops(li)))

    def _x_on(self, li, oi, op):
        st = op[1]
        n = self.ev(st[1])
        if n is UNKNOWN or Fraction(n).denominator != 1:
            raise Unpinned('ON selector')
        kind = 'on-' + st[2]
        if n < 0 or n > 255:
            self.oob_seen = True
            if self.on_oob == 'error':
                raise BasicError(5)
            self._ev(kind + ':out-of-range')
            self._advance(li, oi)
            return
        if n == 0 or n > len(st[3]):
            self._ev(kind + (':fallthrough-zero' if n == 0 else ':fallthrough-beyond'))
            self._advance(li, oi)
            return
        target = st[3][n - 1]
        if target not in self.index:
            raise BasicError(8)
        self._ev(kind + ':select')
        if st[2] == 'gosub':
            self._push_gosub(li, oi)
        self.pc = (self.index[target], 0)

    # loops
    def _frames_in_routine(self):
        """Indices of the frames above the innermost GOSUB frame, top first."""
        k = len(self.stack) - 1
        while k >= 0 and self.stack[k][0] != 'gosub':
            yield k
            k -= 1

    def _x_for(self, li, oi, op):
        _, var, start, stop, step, lid = op[1]
        a, b = self.ev(start), self.ev(stop)
        c = 1 if step is None else self.ev(step)
        if UNKNOWN in (a, b, c):
            raise Unpinned('loop bound on an unpinned value')
        a, b, c = self._convert(var, a), self._convert(var, b), self._convert(var, c)
        if lid not in self.next_of:
            raise BasicError(26)
        # an earlier activation of this same FOR that was left open (jumped out of) is abandoned,
        # together with the loops begun inside it
        for k in self._frames_in_routine():
            f = self.stack[k]
            if f[0] == 'for' and f[1] == lid:
                del self.stack[k:]
                break
        self.vars[canon(var)] = a
        if c == 0:
            if a != b:
                raise Unpinned('zero step with start different from end')
            past = False
        else:
            past = (a > b) if c > 0 else (a < b)
        if past:
            # the body runs zero times; the counter's value is not pinned afterwards
            self.vars[canon(var)] = UNKNOWN
            nli, noi, k = self.next_of[lid]
            nst = self._ops(nli)[noi][1]
            if k + 1 < len(nst[1]):
                self._ev('for:empty-skip:multi-next')
                # NEXT J%,I%: the rest of the list is executed as NEXT I%
                self.pc = (nli, noi)
                try:
                    self._next_from(nli, noi, k + 1)
                except BasicError:
                    raise Unpinned('error in the rest of a NEXT list reached from an empty FOR')
                self.log.append((len(self.out), 'for:empty-skip:multi-next'))
            elif canon(var)[-1] == '%' and not (-32768 <= a + c <= 32767):
                # (an implementation that steps the counter once on the way out would overflow here)
                self._ev('for:empty-skip:start-plus-step-beyond-integer-range')
                self.pc = (nli, noi + 1)
            else:
                self._ev('for:empty-skip')
                self.pc = (nli, noi + 1)
            return
        self._ev('for:enter')
        self.stack.append(('for', lid, canon(var), b, c, (li, oi + 1)))
        self.pc = (li, oi + 1)

    def _x_next(self, li, oi, op):
        self._next_from(li, oi, 0)

    def _next_from(self, li, oi, k0):
        st = self._ops(li)[oi][1]
        lids = st[1]
        for k in range(k0, len(lids)):
            lid = lids[k]
            found = None
            if lid is not None:
                for idx in self._frames_in_routine():
                    f = self.stack[idx]
                    if f[0] == 'for' and f[1] == lid:
                        found = idx
                        break
            if found is None:
                if lid is None and any(self.stack[i][0] == 'for' for i in self._frames_in_routine()):
                    raise Unpinned('stray NEXT while an abandoned FOR is open')
                raise BasicError(1)
            # loops begun inside this one and left open are abandoned
            del self.stack[found + 1:]
            _, _, var, limit, step, body = self.stack[found]
            v = self.vars.get(var, 0)
            if v is UNKNOWN:
                raise Unpinned('NEXT on an unpinned counter')
            nv = v + step
            if var[-1] == '%' and not (-32768 <= nv <= 32767):
                self._ev('next:overflow')
                raise BasicError(6)
            self.vars[var] = self._convert(var, nv)
            if step > 0:
                past = nv > limit
            elif step < 0:
                past = nv < limit
            else:
                if nv != limit:
                    raise Unpinned('zero step with counter different from end')
                past = False
            if not past:
                self._ev('next:iterate')
                self.pc = body
                return
            self._ev('next:exit')
            self.stack.pop()
        self._advance(li, oi)

    def _x_while(self, li, oi, op):
        _, cond, lid = op[1]
        if lid not in self.wend_of:
            raise BasicError(29)
        c = self.ev(cond)
        if c is UNKNOWN:
            raise Unpinned('condition on an unpinned value')
        # an earlier, abandoned activation of this same loop is dropped
        for k in self._frames_in_routine():
            f = self.stack[k]
            if f[0] == 'while' and f[1] == lid:
                del self.stack[k:]
                break
        if c != 0:
            self._ev('while:enter')
            self.stack.append(('while', lid, (li, oi)))
            self.pc = (li, oi + 1)
        else:
            self._ev('while:skip')
            wli, woi = self.wend_of[lid]
            self.pc = (wli, woi + 1)

    def _x_wend(self, li, oi, op):
        lid = op[1][1]
        found = None
        if lid is not None:
            for idx in self._frames_in_routine():
                f = self.stack[idx]
                if f[0] == 'while' and f[1] == lid:
                    found = idx
                    break
        if found is None:
            if lid is None and any(self.stack[i][0] == 'while' for i in self._frames_in_routine()):
                raise Unpinned('stray WEND while an abandoned WHILE is open')
            raise BasicError(30)
        # loops begun inside this one and left open are abandoned
        del self.stack[found + 1:]
        wli, woi = self.stack[found][2]
        c = self.ev(self._ops(wli)[woi][1][1])
        if c is UNKNOWN:
            raise Unpinned('condition on an unpinned value')
        if c != 0:
            self._ev('wend:iterate')
            self.pc = (wli, woi + 1)
        else:
            self._ev('wend:exit')
            self.stack.pop()
            self._advance(li, oi)

    # error trapping
    def _x_onerror(self, li, oi, op):
        n = op[1][1]
        if self.in_handler:
            raise Unpinned('ON ERROR inside a handler')
        if n != 0 and n not in self.index:
            raise BasicError(8)
        self.on_error = n
        self._ev('onerror:set' if n else 'onerror:off')
        self._advance(li, oi)

    def _x_resume(self, li, oi, op):
        where = op[1][1]
        if not self.in_handler:
            # RESUME without error stops the program, also while a trap is armed (it is never trapped)
            self._ev('resume:outside-handler' + (':trap-armed' if self.on_error else ''))
            self.on_error = 0
            raise BasicError(20)
        rli, roi = self.resume_pc
        self.in_handler = False
        self.resume_pc = None
        self.err = self.erl = UNKNOWN
        if where is None or where == 0:
            self._ev('resume:same')
            self.pc = (rli, roi)
        elif where == 'next':
            self._ev('resume:next')
            self.pc = (rli, roi + 1)
        else:
            if where not in self.index:
                # whether the Undefined line number of the RESUME itself counts as an error inside the handler
                # (stops) or as an ordinary error (trapped again) is not pinned
                raise Unpinned('RESUME to a missing line')
            self._ev('resume:line')
            self.pc = (self.index[where], 0)

    # DATA
    def _x_nop(self, li, oi, op):
        # a statement without effect on anything the trace shows (scratch variables X9, X9$, X9%);
        # marked 'dead' it stands in a region that is never executed
        if len(op[1]) > 2 and op[1][2] == 'dead':
            raise Unpinned('a statement placed in a never-executed region was reached')
        self._advance(li, oi)

    def _x_rem(self, li, oi, op):
        # a remark takes the rest of its line
        self.pc = (li, len(self._ops(li)))

    def _x_data(self, li, oi, op):
        self._advance(li, oi)

    def _x_restore(self, li, oi, op):
        n = op[1][1]
        if n is None:
            self.dptr = 0
            self.dmoved = 'restore'
            self._ev('restore')
        else:
            if n not in self.index:
                # Undefined line number; a RESTORE that fails leaves the pointer where it was
                self._ev('restore:missing-line')
                raise BasicError(8)
            self.dptr = len(self.data)
            for i, item in enumerate(self.data):
                if item[0] >= n:
                    self.dptr = i
                    break
            self.dmoved = 'restore-line'
            self._ev('restore:line')
        self._advance(li, oi)

    def _x_read(self, li, oi, op):
        for target in op[1][1]:
            name = target[1] if isinstance(target, list) else target
            if self.dptr >= len(self.data):
                self._ev('read:out-of-data')
                raise BasicError(4)
            dline, raw, sval, nval = self.data[self.dptr]
            def store(value):
                if isinstance(target, list):
                    arr, i = self._index(target[1], target[2])
                    arr[1][i] = value
                else:
                    self.vars[canon(name)] = value
            if canon(name)[-1] == '$':
                if sval is None:
                    raise Unpinned('item without a pinned string reading')
                store(sval)
            else:
                if nval is None:
                    # the READ fails and the item is NOT consumed; what the variable holds now is not pinned
                    store(UNKNOWN)
                    self._ev('read:non-numeric')
                    raise BasicError(2, dline)
                v = Fraction(nval) if isinstance(nval, float) else nval
                try:
                    v = self._convert(name, v)
                except BasicError:
                    store(UNKNOWN)
                    self._ev('read:overflow')
                    raise
                store(v)
            self.dptr += 1
            # the mechanism of a wrong value is whatever last moved the data pointer
            self.log.append((len(self.out), 'read:after-' + self.dmoved))
            self.counts['read'] = self.counts.get('read', 0) + 1
        self._advance(li, oi)


def event_before(machine, pos):
    """Name of the last control event the reference logged before producing output byte `pos`."""
    name = 'start'
    for p, ev in machine.log:
        if p > pos:
            break
        name = ev
    return name


# ---------------------------------------------------------------------------------------------------
# oracle: compare an observed output with the reference trace

import re

_BREAK_TAIL = re.compile(br'\^C\r\n(Break(?: in \d+)?)\xff\r\n$')
_LAST_LINE = re.compile(br'([^\r\n]*?)(?: in (\d+))?\xff\r\n$')


class Verdict(object):
    """ok | discard (not pinned) | mismatch (key = mechanism, what = sentence)."""

    def __init__(self, status, key=None, what=None, machine=None):
        self.status = status
        self.key = key
        self.what = what
        self.machine = machine


def _end_name(done):
    if done is None:
        return 'running'
    if done[0] == 'error':
        return 'err%d' % done[1]
    return done[0]


def _end_key(m):
    """Name of the expected ending for a violation key: the code only when the model's semantics chose it."""
    if m.done is not None and m.done[0] == 'error' and m.error_origin == 'chosen':
        return 'error'
    return _end_name(m.done)


def _observed_end(out):
    m = _LAST_LINE.search(out)
    if not m:
        return 'end', None
    msg, line = m.group(1), m.group(2)
    line = int(line) if line else None
    if msg.startswith(b'Break'):
        return 'stop', line
    for code, text in MESSAGES.items():
        if text == msg:
            return 'err%d' % code, line
    if msg == b'Unprintable error':
        return 'err-unprintable', line
    return 'end', None


def judge(prog, out, broke, budget, boundaries=None):
    """
    out: bytes the implementation printed for RUN (or for the direct line); broke: the run was ended by
    the step budget (Break delivered by the harness). The reference runs until it has produced more
    output than the implementation (budget case) or ends.
    """
    body = out
    if broke:
        mt = _BREAK_TAIL.search(out)
        if mt is None:
            return Verdict('mismatch', 'budget:break-not-announced', 'run ended by the step budget without ^C / Break message: %r' % out[-60:])
        body = out[:mt.start()]
    first = None
    for mode in ('error', 'fall'):
        m = Machine(prog, on_oob=mode)
        try:
            m.run(max_steps=4 * budget + 64, until_len=(len(body) if broke else None))
        except Unpinned as e:
            return Verdict('discard', what=str(e), machine=m)
        v = _compare(m, body, out, broke, budget)
        if v.status == 'ok' or not m.oob_seen:
            return v
        if first is None:
            first = v
    return first


def _compare(m, body, out, broke, budget):
    exp = bytes(m.out)
    if broke:
        if exp.startswith(body):
            if m.done is not None and len(exp) == len(body) and m.steps * 3 < budget:
                return Verdict('mismatch', 'termination:reference-ended-implementation-ran-on',
                               'reference ended (%s) after %d steps with the same output, the implementation used up %d steps'
                               % (_end_name(m.done), m.steps, budget), m)
            return Verdict('ok', machine=m)
    else:
        if m.done is None:
            return Verdict('mismatch', 'termination:implementation-ended-reference-runs-on',
                           'implementation ended within %d steps, the reference is still running after %d' % (budget, m.steps), m)
        if exp == out:
            return Verdict('ok', machine=m)
        # ON n with n outside 0..255: any error at that line is accepted
        if m.oob_seen and m.on_oob == 'error' and m.done[0] == 'error' and m.log and m.log[-1][1].startswith('fatal'):
            cut = exp.rfind(b'\r\n', 0, len(exp) - 2) + 2
            got_end, got_line = _observed_end(out)
            if out[:cut] == exp[:cut] and len(out) > cut and got_end.startswith('err') and got_line == m.done[2] \
                    and out.count(b'\xff') == 1:
                return Verdict('ok', machine=m)
    # ---- a difference: name the mechanism
    p = 0
    n = min(len(exp), len(body))
    while p < n and exp[p] == body[p]:
        p += 1
    ev = event_before(m, p)
    got_end, got_line = _observed_end(out) if not broke else ('budget', None)
    exp_tail_start = exp.rfind(b'\r\n', 0, max(0, len(exp) - 2)) + 2
    if m.done is not None and m.done[0] in ('error', 'stop') and p >= exp_tail_start:
        # everything up to the final message agrees: the ending differs
        want = _end_name(m.done)
        if got_end == want:
            key = 'end:%s:reported-line-differs' % _end_key(m)
        elif _end_key(m) == 'error':
            key = 'end:expected-error:got-%s' % ('other-error' if got_end.startswith('err') else got_end)
        else:
            key = 'end:expected-%s:got-%s' % (want, got_end)
        if ev.startswith('trap') or ev.startswith('fatal-in-handler'):
            key += ':' + ev.split(':')[0]
        if ev.endswith(':error-on-data-line'):
            key += ':error-on-data-line'
    elif m.done is not None and m.done[0] == 'end' and p == len(exp):
        key = 'end:expected-end:got-%s' % got_end
    else:
        key = 'diverge-after:%s' % ev
    what = 'at output offset %d (after reference event %s): expected ...%r, got ...%r' % (
        p, ev, exp[max(0, p - 40):p + 60], body[max(0, p - 40):p + 60])
    return Verdict('mismatch', key, what, m)
