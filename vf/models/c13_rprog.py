"""
R-PROG: reference model of the stored program as {line number: text}, an independent scanner
of the tokenised program image, and M-INV for Program (class-level wrapper that compares the
incremental line index with a fresh scan of the bytecode after every mutating method).

Written from the GW-BASIC program-memory format (documented): a program is a sequence of lines
   <next-line address:2> <line number:2> <tokens...> 00
ended by a next-line address of 00 00.  Number tokens carry a payload that may contain 00 bytes:
   0B octal:2  0C hex:2  0D line pointer:2  0E line number:2  0F byte:1  11..1B none
   1C integer:2  1D single:4  1F double:8
Nothing here is derived from pcbasic/basic/program.py.
"""
import struct

MAX_LINE = 65529

PAYLOAD = {0x0b: 2, 0x0c: 2, 0x0d: 2, 0x0e: 2, 0x0f: 1, 0x1c: 2, 0x1d: 4, 0x1f: 8}


# ----------------------------------------------------------------------------------------------
# edit model

class RProg(object):
    """{lineno: text}; text is the statement text after the single separating space."""

    def __init__(self, lines=None):
        self.lines = dict(lines or {})

    def copy(self):
        return RProg(self.lines)

    def numbers(self):
        return sorted(self.lines)

    def store(self, n, text):
        self.lines[n] = text

    def delete_line(self, n):
        """Empty-line delete; returns False if n does not exist (program unchanged)."""
        if n in self.lines:
            del self.lines[n]
            return True
        return False

    def in_range(self, a, b):
        return [n for n in self.lines if a <= n <= b]

    def delete_range(self, a, b):
        for n in self.in_range(a, b):
            del self.lines[n]

    def new(self):
        self.lines = {}

    def merge(self, pairs):
        for n, text in pairs:
            self.lines[n] = text

    def load(self, pairs):
        self.lines = {}
        self.merge(pairs)

    def renum_map(self, new=10, old=0, inc=10):
        """
        old->new map of RENUM new,old,inc or None if the renumbering is impossible
        (would collide with / not stay above the lines below `old`, or exceed 65529).
        """
        below = [n for n in self.lines if n < old]
        moved = sorted(n for n in self.lines if n >= old)
        if inc < 1:
            return None
        if moved and below and new <= max(below):
            return None
        m = {}
        cur = new
        for n in moved:
            if cur > MAX_LINE:
                return None
            m[n] = cur
            cur += inc
        return m

    def apply_map(self, m, rewrite=None):
        """Renumber by old->new map; rewrite(text, map) rewrites references inside a line."""
        out = {}
        for n, text in self.lines.items():
            if rewrite is not None:
                text = rewrite(n, text, m)
            out[m.get(n, n)] = text
        self.lines = out

    def listing(self, a=None, b=None):
        """Expected LIST output lines (bytes), ascending."""
        out = []
        for n in self.numbers():
            if a is not None and n < a:
                continue
            if b is not None and n > b:
                continue
            out.append(b'%d %s' % (n, self.lines[n]))
        return out


def parse_listing_file(data):
    """Lines of a LIST ,"file" / SAVE ,A file: CR LF separated, ended by an optional ^Z."""
    if data.endswith(b'\x1a'):
        data = data[:-1]
    if not data:
        return []
    if not data.endswith(b'\r\n'):
        return data.split(b'\r\n') + [b'<no final CRLF>']
    return data[:-2].split(b'\r\n')


# ----------------------------------------------------------------------------------------------
# image scanner

def scan_image(img, base):
    """
    Scan a program image `img` (bytes starting at the first line's link field, i.e. what a
    tokenised SAVE writes after its FF magic byte, or memory from the address at DS:30h) whose
    first byte has address `base`.
    Returns (lines, problems): lines = [(offset, link, lineno, body_bytes)], problems = [str].
    base=None: links are not compared with the line ends (image of unknown load address).
    The scan follows the TOKEN structure (skipping number payloads) to find each line end and
    checks every link against it.
    """
    lines, problems = [], []
    p = 0
    n = len(img)
    while True:
        if p + 2 > n:
            problems.append('image ends without terminator at offset %d' % p)
            break
        link = img[p] | (img[p + 1] << 8)
        if link == 0:
            break
        if p + 4 > n:
            problems.append('truncated line header at offset %d' % p)
            break
        lineno = img[p + 2] | (img[p + 3] << 8)
        q = p + 4
        while q < n and img[q] != 0:
            q += 1 + PAYLOAD.get(img[q], 0)
        if q >= n:
            problems.append('line %d at offset %d has no end' % (lineno, p))
            break
        if base is not None and link != base + q + 1:
            problems.append('link of line %d is %d, next line starts at %d' % (lineno, link, base + q + 1))
        lines.append((p, link, lineno, bytes(img[p + 4:q])))
        p = q + 1
    return lines, problems


# ----------------------------------------------------------------------------------------------
# M-INV on Program

class ProgramInvariant(object):
    """
    Class-level wrapper of the mutating Program methods.  After each call (normal return or BASIC
    error) the incremental index `line_numbers` must equal a fresh scan of the bytecode:
       keys   = scanned line numbers + the 65536 sentinel
       values = offset of the 00 byte preceding each line; sentinel -> the 00 preceding the terminator
    and the links must chain the lines and end in 00 00.
    Only observes; failures are appended to .failures as (mechanism key, text).
    """

    METHODS = ('store_line', 'delete', 'renum', 'load', 'merge', 'erase')

    def __init__(self, ascending=True):
        self.failures = []
        self.checks = 0
        self.ascending = ascending
        self._installed = None
        self._depth = 0

    def install(self):
        from pcbasic.basic import program as _program
        cls = _program.Program
        self._installed = (cls, {})
        for name in self.METHODS:
            orig = getattr(cls, name)
            self._installed[1][name] = orig
            setattr(cls, name, self._wrap(name, orig))
        return self

    def uninstall(self):
        if self._installed:
            cls, origs = self._installed
            for name, orig in origs.items():
                setattr(cls, name, orig)
            self._installed = None

    def _wrap(self, name, orig):
        inv = self

        def wrapper(prog, *args, **kwargs):
            inv._depth += 1
            try:
                return orig(prog, *args, **kwargs)
            finally:
                inv._depth -= 1
                # nested calls (load -> merge -> store_line): store_line is checked each time,
                # the outer ones once more on return
                if hasattr(prog, 'line_numbers') and hasattr(prog, 'code_start'):
                    inv.check(prog, name)
        wrapper.__name__ = name
        return wrapper

    def check(self, prog, where):
        self.checks += 1
        code = prog.bytecode.getvalue()
        if not code or code[0] != 0:
            self.failures.append(('inv:%s:image-start' % where, 'bytecode does not start with 00'))
            return
        lines, problems = scan_image(code[1:], prog.code_start + 1)
        for pr in problems:
            self.failures.append(('inv:%s:links' % where, pr))
        fresh = {}
        last = -1
        for off, link, lineno, body in lines:
            if lineno in fresh:
                self.failures.append(('inv:%s:duplicate-line' % where, 'line %d stored twice' % lineno))
            elif self.ascending and lineno <= last:
                self.failures.append(('inv:%s:order' % where, 'line %d stored after %d' % (lineno, last)))
            fresh.setdefault(lineno, off)   # off is relative to code[1:], i.e. position of the preceding 00
            last = max(last, lineno)
        if lines:
            off, link, lineno, body = lines[-1]
            # `code` coordinates: 4 header bytes at off+1..off+4, body from off+5, then the ending 00
            end = off + 5 + len(body)
        else:
            end = 0
        fresh[65536] = end
        if problems:
            return
        idx = prog.line_numbers
        if idx != fresh:
            missing = sorted(set(fresh) - set(idx))[:4]
            extra = sorted(set(idx) - set(fresh))[:4]
            moved = sorted(k for k in fresh if k in idx and idx[k] != fresh[k])[:4]
            self.failures.append((
                'inv:%s:index-differs-from-scan' % where,
                'line index != fresh scan: missing %r extra %r wrong offset %r' % (missing, extra, moved)))

    def report(self, res, case=None):
        """Flush failures into a Result."""
        for key, text in self.failures:
            res.violation(key, text, case)
        n = len(self.failures)
        self.failures = []
        return n
