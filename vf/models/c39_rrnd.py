"""
R-RND: the GW-BASIC RND generator as plain integers.

Written from documentation, not from pcbasic/basic/values/randomiser.py:

  * Microsoft Knowledge Base Q28150 ("RND and RANDOMIZE Alternatives for Generating Random
    Numbers", BASIC compilers / QuickBASIC / GW-BASIC):  x1 = (x0 * a + c) MOD 2^24 with
    a = 214013, c = 2531011; RND returns x1 / 2^24.   The PC-BASIC reference manual (RND,
    notes) states the same three constants.
  * the first values GW-BASIC 3.23 prints after start-up, .1213501 .651861 .8688611 .7297625
    .798853 (INT(RND*100) = 12 65 86 72 79) - used to DERIVE the start-up seed, see
    derive_fresh_seed(): the unique 24-bit state whose five successors print as those numbers.

Everything is a plain Python int; M = 2^24 states.
"""
from fractions import Fraction

M = 1 << 24
A = 214013        # 0x343FD
C = 2531011       # 0x269EC3

# what GW-BASIC prints for PRINT RND;RND;RND;RND;RND after start-up (7 significant digits)
DOC_FIRST_PRINTED = ['.1213501', '.651861', '.8688611', '.7297625', '.798853']
DOC_FIRST_INT100 = [12, 65, 86, 72, 79]


def step(s):
    """Successor state."""
    return (A * s + C) % M


def _affine_pow(n):
    """(a, c) of the n-fold composition of step."""
    ra, rc = 1, 0          # identity
    ba, bc = A, C
    while n:
        if n & 1:
            ra, rc = (ba * ra) % M, (ba * rc + bc) % M
        ba, bc = (ba * ba) % M, (ba * bc + bc) % M
        n >>= 1
    return ra, rc


def jump(s, n):
    """State after n steps from s (n >= 0)."""
    a, c = _affine_pow(n)
    return (a * s + c) % M


A_INV = pow(A, -1, M)


def pred(s):
    """Predecessor state (A is odd, so the map is invertible)."""
    return ((s - C) * A_INV) % M


def predicts_full_period():
    """Hull-Dobell for modulus 2^k: full period iff c odd and a = 1 (mod 4)."""
    return (C % 2 == 1) and (A % 4 == 1)


def derive_constants(s1, s2, s3):
    """(a, c) of the unique affine map mod 2^24 through three consecutive states, or None if s2-s1 is even."""
    d = (s2 - s1) % M
    if d % 2 == 0:
        return None
    a = ((s3 - s2) * pow(d, -1, M)) % M
    c = (s2 - a * s1) % M
    return a, c


def _prints_as(s, text):
    """
    Is s/2^24 compatible with the printed `text` (leading '.', up to 7 significant digits, value in
    [.1, 1))?  GW-BASIC's binary-to-decimal output is not correctly rounded (it is computed in single
    precision), so one unit of the 7th digit is allowed.
    """
    digits = text[1:]
    want = Fraction(int(digits), 10 ** len(digits))
    return abs(Fraction(s, M) - want) <= Fraction(1, 10 ** 7)


def derive_fresh_seed():
    """All start-up states whose first five successors print as the documented numbers (expected: exactly one)."""
    d0 = DOC_FIRST_PRINTED[0][1:]
    centre = int(Fraction(int(d0), 10 ** len(d0)) * M)
    out = []
    for s1 in range(centre - 4, centre + 5):
        s, ok = s1, True
        for text in DOC_FIRST_PRINTED:
            if not _prints_as(s, text):
                ok = False
                break
            s = step(s)
        if ok:
            out.append(pred(s1))
    return out


def seed_of_single(b):
    """
    For the 4 bytes of an MBF single: the integer v * 2^24 if the value v lies in [0, 1) and
    v * 2^24 is an integer; otherwise a string naming what is wrong ('negative', 'ge-one',
    'fraction').  Format: b[3] exponent byte E (0 => zero), bit 7 of b[2] sign,
    mantissa (0x800000 | low 23 bits) / 2^24, value = mantissa/2^24 * 2^(E-128).
    """
    e = b[3]
    if e == 0:
        return 0
    if b[2] & 0x80:
        return 'negative'
    if e > 128:
        return 'ge-one'
    man = ((b[2] | 0x80) << 16) | (b[1] << 8) | b[0]
    sh = 128 - e
    if sh >= 24 or man & ((1 << sh) - 1):
        return 'fraction'
    return man >> sh


def neg_single_bytes(mant, expbyte=152):
    """Bytes of the negative single with the 24-bit mantissa `mant` (bit 23 set); expbyte 152 => value = -mant."""
    assert (1 << 23) <= mant < M and 1 <= expbyte <= 255
    return bytes([mant & 0xff, (mant >> 8) & 0xff, ((mant >> 16) & 0x7f) | 0x80, expbyte])


def cycle_boundaries(start, nseg, total):
    """
    Cut the predicted orbit of `start` of length `total` into nseg segments whose inner boundaries
    can be reached through RND(-x): boundary k (k>=1) is the successor of a state with bit 23 set.
    Returns [(offset_k, mant_k)] with offset_0 = 0, mant_0 = None.
    """
    out = [(0, None)]
    seg = total // nseg
    for k in range(1, nseg):
        off = k * seg
        q = jump(start, off - 1)
        while q < (1 << 23):
            q = step(q)
            off += 1
        out.append((off, q))
    return out


def randomize_n(b):
    """
    The 16-bit signed number RANDOMIZE takes from its argument, from the PC-BASIC reference manual (RANDOMIZE):
    "The random seed is formed of the last two bytes of that integer or expr. If expr is a float (4 or 8 bytes),
    these are XORed with the preceding 2. The first 4 bytes of a double are ignored."
    b = the argument's bytes (2 integer, 4 single, 8 double) as MKI$ / MKS$ / MKD$ give them.
    """
    b = bytes(b)
    lo, hi = b[-2], b[-1]
    if len(b) >= 4:
        lo ^= b[-4]
        hi ^= b[-3]
    n = lo | (hi << 8)
    return n - 65536 if n & 0x8000 else n
