"""
Decimal-text side of R-NUM for C07 (also used by C08 / C43).

Written from the GW-BASIC manual's description of how numbers are shown and typed:

  * shown numbers: [-| ]digits[.digits]  or  [-| ]d[.ddd]E|D(+|-)dd, optionally followed by a
    type character (! #) when a program is LISTed;
  * numeric constants: "integer constants -32768..32767, no decimal point";
    single precision = "seven or fewer digits, or exponential form using E, or a trailing !";
    double precision = "eight or more digits, or exponential form using D, or a trailing #".

Nothing here looks at pcbasic.
"""
from fractions import Fraction
import re

from . import rnum

SIG = {4: 7, 8: 16}
# integers below this magnitude fit the digits a type can show => must be shown exactly
EXACT_LIMIT = {4: 10 ** 7, 8: 10 ** 16}

_SHOWN = re.compile(
    rb'^(?P<sign>[- ]?)(?P<ip>[0-9]*)(?:(?P<pt>\.)(?P<fp>[0-9]*))?'
    rb'(?:(?P<el>[ED])(?P<es>[-+])(?P<ex>[0-9]{2}))?(?P<sigil>[!#%]?)$')


class Shown(object):
    """A number as shown: exact value, unit of the last digit shown, number of significant digits."""
    __slots__ = ('value', 'unit', 'sig', 'sign', 'ip', 'fp', 'point', 'expletter', 'exp', 'sigil', 'text')

    def form(self):
        if self.expletter:
            return 'sci'
        if self.point:
            return 'fixed'
        return 'int'


def parse_shown(text):
    """
    Strict parse of a shown number (no surrounding blanks other than the one leading sign blank).
    Returns Shown or None if the text is not a well-formed shown number.
    """
    text = bytes(text)
    m = _SHOWN.match(text)
    if not m:
        return None
    ip, fp = m.group('ip'), m.group('fp') or b''
    if not ip and not fp:
        return None
    s = Shown()
    s.text = text
    s.sign = -1 if m.group('sign') == b'-' else 1
    s.ip, s.fp = ip, fp
    s.point = m.group('pt') is not None
    s.expletter = (m.group('el') or b'').decode()
    s.exp = 0
    if s.expletter:
        s.exp = int(m.group('ex'))
        if m.group('es') == b'-':
            s.exp = -s.exp
    s.sigil = (m.group('sigil') or b'').decode()
    digits = ip + fp
    s.unit = Fraction(10) ** (s.exp - len(fp))
    s.value = s.sign * int(digits) * s.unit
    # significant digits: from the first non-zero digit to the last non-zero digit
    # (trailing zeros of a whole number carry no claim of precision: lenient count)
    s.sig = len(digits.strip(b'0'))
    return s


def magnitude_band(value):
    """Coarse decimal-exponent band of a value, for mechanism keys."""
    a = abs(Fraction(value))
    if a == 0:
        return 'zero'
    if a < Fraction(1, 10 ** 30):
        return 'mag<1e-30'
    if a < Fraction(1, 10 ** 8):
        return 'mag-1e-30..1e-8'
    if a < 1:
        return 'mag-1e-8..1'
    if a < 10 ** 8:
        return 'mag-1..1e8'
    if a < 10 ** 17:
        return 'mag-1e8..1e17'
    if a < 10 ** 30:
        return 'mag-1e17..1e30'
    return 'mag>=1e30'


def size_class(err_units):
    """Error size class in units (of the last shown digit / of the last binary place)."""
    if err_units < 2:
        return 'err-1..2'
    if err_units < 4:
        return 'err-2..4'
    if err_units < 16:
        return 'err-4..16'
    return 'err>=16'


def check_shown(text, n, value, leading_space, type_sign):
    """
    Oracle for the print direction. text: shown bytes for a number of type n (2/4/8 bytes) whose
    exact stored value is `value` (Fraction). Returns (list of (mechanism-suffix, message), Shown|None).
    leading_space / type_sign: which form the path promises (PRINT/STR$: blank for non-negative;
    LIST: may carry a type character).
    """
    bad = []
    s = parse_shown(text)
    if s is None:
        return [('malformed', 'not a well-formed shown number: %r' % (text,))], None
    # sign
    if value < 0:
        if s.sign != -1:
            bad.append(('sign', 'negative value shown without minus: %r' % (text,)))
    else:
        lead = text[:1]
        if lead == b'-':
            bad.append(('sign', 'non-negative value shown with minus: %r' % (text,)))
        elif leading_space and lead != b' ':
            bad.append(('malformed', 'no leading blank for a non-negative number: %r' % (text,)))
        elif not leading_space and lead == b' ':
            bad.append(('malformed', 'unexpected leading blank: %r' % (text,)))
    if s.sigil:
        want = {2: '%', 4: '!', 8: '#'}[n]
        if not type_sign:
            bad.append(('malformed', 'type character in a PRINT/STR$/WRITE form: %r' % (text,)))
        elif s.sigil != want:
            bad.append(('type-character', 'type character %s shown for a %d-byte number: %r' % (s.sigil, n, text)))
    if n == 2:
        if s.value != value or s.form() != 'int':
            bad.append(('integer-not-exact', 'integer %d shown as %r' % (value, text)))
        return bad, s
    # accuracy: strictly less than one unit of the last digit shown
    err = abs(s.value - value)
    if value != 0 and s.value != 0 and Fraction(9, 100) < s.value / value < Fraction(11, 100):
        # a recognisable mechanism of its own: digits right, decimal point one place off
        bad.append(('shown-is-one-tenth-of-stored', '%r is a tenth of the stored value %.17g' % (text, float(value))))
    elif err >= s.unit:
        bad.append(('error>=1unit:%s' % size_class(err / s.unit),
                    '%r differs from the stored value by %.3f units of the last digit shown' % (text, float(err / s.unit))))
    if s.sig > SIG[n]:
        bad.append(('too-many-digits', '%r has %d significant digits (limit %d)' % (text, s.sig, SIG[n])))
    if value.denominator == 1 and abs(value) < EXACT_LIMIT[n] and s.value != value:
        bad.append(('integer-not-exact', 'integer value %d shown as %r' % (value, text)))
    return bad, s


# ---------------------------------------------------------------------------------------------
# reading direction

_LIT = re.compile(
    r'^(?P<sign>[-+]?)(?P<ip>[0-9]*)(?:(?P<pt>\.)(?P<fp>[0-9]*))?'
    r'(?:(?P<el>[EDed])(?P<es>[-+]?)(?P<ex>[0-9]*))?(?P<sigil>[!#%]?)$')


class Literal(object):
    __slots__ = ('value', 'types', 'mantissa', 'scale', 'digits_lo', 'digits_hi', 'sigil', 'expletter',
                 'plain_digits', 'signed')


def literal_info(text):
    """
    Exact value and admissible type(s) of decimal text read as a number. Blanks are ignored
    (GW-BASIC ignores blanks inside numbers). Returns Literal or None when the text is outside
    the grammar this model pins.

    types: set of byte sizes {2}, {4}, {8} or a union where the manual's rule does not decide:
      - trailing ! -> single, trailing # -> double, exponent letter D -> double
      - digits only (no sign, point, exponent, blanks), value <= 32767 -> integer
      - 7 or fewer significant digits -> single, 8 or more -> double; leading zeros never count;
        trailing zeros may or may not count (either accepted when that changes the outcome)
      - exponent letter E with 8 or more digits: either single or double
      - signed digits in integer range, or digits with embedded blanks: integer or single
    """
    if isinstance(text, bytes):
        text = text.decode('latin-1')
    had_blank = (' ' in text.strip(' '))
    t = text.replace(' ', '')
    m = _LIT.match(t)
    if not m:
        return None
    ip, fp = m.group('ip'), m.group('fp') or ''
    if not ip and not fp:
        return None
    lit = Literal()
    lit.sigil = m.group('sigil')
    lit.expletter = (m.group('el') or '').upper()
    lit.signed = m.group('sign') != ''
    ex = 0
    if lit.expletter:
        ex = int(m.group('ex') or '0')
        if m.group('es') == '-':
            ex = -ex
    digits = ip + fp
    lit.mantissa = int(digits)
    lit.scale = ex - len(fp)
    sign = -1 if m.group('sign') == '-' else 1
    lit.value = sign * lit.mantissa * Fraction(10) ** lit.scale
    lit.mantissa *= sign
    nolead = digits.lstrip('0')
    lit.digits_hi = len(nolead)
    lit.digits_lo = len(nolead.rstrip('0'))
    lit.plain_digits = (m.group('pt') is None and not lit.expletter and not lit.sigil)
    if lit.sigil == '!':
        lit.types = {4}
    elif lit.sigil == '#':
        lit.types = {8}
    elif lit.sigil == '%':
        # the manual only defines % on whole numbers in range; the type of the result is not observable
        # apart from its value, so nothing is demanded of it here
        lit.types = {2, 4, 8}
    elif lit.expletter == 'D':
        lit.types = {8}
    else:
        if lit.digits_hi <= 7:
            ft = {4}
        elif lit.digits_lo >= 8:
            ft = {8} if not lit.expletter else {4, 8}
        else:
            ft = {4, 8}
        if lit.plain_digits and abs(lit.value) <= 32767:
            if lit.signed or had_blank:
                lit.types = {2} | ft
            else:
                lit.types = {2}
        else:
            lit.types = ft
    return lit


def check_read(lit, n, got):
    """
    Oracle for the reading direction: a number of n bytes with exact value `got` was stored for
    the literal `lit`. Returns list of (mechanism-suffix, message); [] if fine; None if the case lies
    in a region the statement does not pin (beyond the type's range).
    """
    bad = []
    if n not in lit.types:
        bad.append(('type', 'stored as %d-byte number, rule gives %s' % (n, sorted(lit.types))))
    if n == 2:
        if got != lit.value:
            bad.append(('integer-value', 'integer %d stored for value %s' % (got, lit.value)))
        return bad
    exact = lit.value
    a = abs(exact)
    if a >= rnum.max_value(n):
        return None
    u = max(rnum.ulp(n, exact), rnum.ulp(n, got))
    if a < rnum.min_positive(n):
        # below the smallest magnitude: zero or the smallest binade are both within one unit
        if got == 0 or abs(got - exact) < u:
            return bad
    err = abs(got - exact)
    if err >= u:
        bad.append(('error>=1ulp:%s' % size_class(err / u),
                    'stored value differs from the decimal value by %.3f units in the last binary place' % float(err / u)))
    return bad
