"""
R-FILE, lock table part (C26). Written from the property statement:

  * a lock is (file number, range); a range is [lo, hi] in record numbers or the whole file
  * two ranges overlap iff  a <= d and c <= b ; the whole file overlaps everything
  * the table holds what BASIC *reported* as granted (successful LOCK, not yet UNLOCKed, number
    not yet CLOSEd); the statement demands that the table never contains two overlapping ranges
  * LOCK of a range overlapping a held one must fail with error 70
  * GET / PUT of a record inside a range held through ANOTHER number must fail
  * a successful UNLOCK must name exactly the bounds of a range held through that number
"""

WHOLE = 'whole'


def overlaps(x, y):
    if x == WHOLE or y == WHOLE:
        return True
    return x[0] <= y[1] and y[0] <= x[1]


def allen(x, y):
    """Allen relation of discrete interval x=[a,b] to y=[c,d] ('meets' = adjacent records)."""
    if x == WHOLE and y == WHOLE:
        return 'equals'
    if x == WHOLE:
        return 'contains'
    if y == WHOLE:
        return 'during'
    a, b = x
    c, d = y
    if b + 1 < c:
        return 'before'
    if b + 1 == c:
        return 'meets'
    if d + 1 < a:
        return 'after'
    if d + 1 == a:
        return 'met-by'
    if a == c and b == d:
        return 'equals'
    if a == c:
        return 'starts' if b < d else 'started-by'
    if b == d:
        return 'finishes' if a > c else 'finished-by'
    if c < a and b < d:
        return 'during'
    if a < c and d < b:
        return 'contains'
    return 'overlaps' if a < c else 'overlapped-by'


OVERLAPPING = ('equals', 'starts', 'started-by', 'finishes', 'finished-by', 'during', 'contains', 'overlaps', 'overlapped-by')
DISJOINT = ('before', 'meets', 'after', 'met-by')


def relation_examples(base=(10, 20)):
    """One range for each of the 13 relations to `base`."""
    c, d = base
    return {
        'before': (c - 6, c - 3), 'meets': (c - 4, c - 1), 'overlaps': (c - 3, c + 2), 'starts': (c, c + 3),
        'during': (c + 2, d - 2), 'finishes': (d - 3, d), 'equals': (c, d), 'finished-by': (c - 3, d),
        'contains': (c - 1, d + 1), 'started-by': (c, d + 4), 'overlapped-by': (d - 2, d + 5),
        'met-by': (d + 1, d + 4), 'after': (d + 3, d + 9),
    }


class LockTable(object):

    def __init__(self):
        self.held = []   # (number, range)

    def conflicts(self, rng):
        return [(n, r) for n, r in self.held if overlaps(r, rng)]

    def add(self, number, rng):
        self.held.append((number, rng))

    def holds(self, number, rng):
        return (number, rng) in self.held

    def holders_of(self, rng):
        return [n for n, r in self.held if r == rng]

    def remove(self, number, rng):
        self.held.remove((number, rng))

    def drop_number(self, number):
        self.held = [(n, r) for n, r in self.held if n != number]

    def overlapping_pairs(self):
        out = []
        for i in range(len(self.held)):
            for j in range(i + 1, len(self.held)):
                if overlaps(self.held[i][1], self.held[j][1]):
                    out.append((self.held[i], self.held[j]))
        return out

    def locked_by_other(self, number, record):
        return [(n, r) for n, r in self.held if n != number and overlaps(r, (record, record))]

    def locked_by_self(self, number, record):
        return [(n, r) for n, r in self.held if n == number and overlaps(r, (record, record))]
