"""
Reference model of PRINT USING format fields (C08), written from the property statement and the
GW-BASIC manual's description of PRINT USING - not from pcbasic/basic/devices/formatter.py.

Numeric field grammar covered (what the property quantifies over):

    [+] [ $$ | ** | **$ ] { # | , }* [ . #* ] [ ^^^^ ] [ + | - ]

  #      digit position; the number is right-justified in the field
  .      decimal point position; the digits after it are always shown, the number is rounded
  +      at the start or the end: the sign (+ or -) is shown there
  -      at the end: negative numbers get a trailing minus (others a blank)
  **     leading blanks are filled with asterisks; two more digit positions
  $$     a dollar sign directly left of the number; two more positions, one of them the $
  **$    both; three more positions, one of them the $
  ,      left of the point: a comma every third digit left of the point; one more position
  ^^^^   exponential form: the digits are left-justified, the exponent adjusted; unless a leading +
         or a trailing + / - is given, one digit position left of the point holds a blank or a minus
  %      shown in front of a number that does not fit the field (also when rounding makes it so)

String fields:  !  first character;  &  whole string;  \\ n blanks \\  2+n characters, longer strings
cut, shorter ones left-justified and padded with blanks.
"""
from fractions import Fraction
import re

SIG = {2: 7, 4: 7, 8: 16}     # an integer is shown with single precision


class NumField(object):

    def __init__(self, plus_lead=False, prefix='', ipos='', dot=False, decimals=0, expo=False, trail=''):
        self.plus_lead, self.prefix, self.ipos = plus_lead, prefix, ipos
        self.dot, self.decimals, self.expo, self.trail = dot, decimals, expo, trail
        assert not (plus_lead and trail)
        assert prefix in ('', '$$', '**', '**$')
        assert set(ipos) <= set('#,') and not ipos.startswith(',')
        assert dot or not decimals

    @property
    def spec(self):
        return (('+' if self.plus_lead else '') + self.prefix + self.ipos + ('.' if self.dot else '') +
                '#' * self.decimals + ('^^^^' if self.expo else '') + self.trail)

    @property
    def width(self):
        return len(self.spec)

    @property
    def dollar(self):
        return '$' in self.prefix

    @property
    def star(self):
        return '*' in self.prefix

    @property
    def comma(self):
        return ',' in self.ipos

    @property
    def positions_before(self):
        """Character positions left of the point that can hold digits / fill / sign (the $ excluded)."""
        return len(self.ipos) + {'': 0, '$$': 1, '**': 2, '**$': 2}[self.prefix]

    @property
    def manual_digit_count(self):
        """Digit positions as the manual counts them (limit 24)."""
        return len(self.ipos) + len(self.prefix) + self.decimals

    def to_json(self):
        return [self.plus_lead, self.prefix, self.ipos, self.dot, self.decimals, self.expo, self.trail]

    @classmethod
    def from_json(cls, j):
        return cls(*j)


_FIXED = re.compile(rb'^(?P<s1>[-+]?)(?P<dollar>\$?)(?P<s2>[-+]?)(?P<ip>[0-9,]*)(?P<pt>\.?)(?P<fp>[0-9]*)(?P<ts>[-+ ]?)$')
_SCI = re.compile(rb'^(?P<s1>[-+]?)(?P<dollar>\$?)(?P<s2>[-+]?)(?P<ip>[0-9]*)(?P<pt>\.?)(?P<fp>[0-9]*)'
                  rb'(?P<el>[ED])(?P<es>[-+])(?P<ex>[0-9]{2,3})(?P<ts>[-+ ]?)$')
_GROUPED = re.compile(rb'^[0-9]{1,3}(,[0-9]{3})*$')


def decimal_exponent(a):
    """floor(log10(a)) for a positive Fraction."""
    e = len(str(a.numerator)) - len(str(a.denominator))
    while Fraction(10) ** e > a:
        e -= 1
    while Fraction(10) ** (e + 1) <= a:
        e += 1
    return e


def check_numeric(field, n, value, out):
    """
    Oracle for one numeric field. n = byte size of the number's type (2/4/8), value = its exact
    value (Fraction), out = the bytes PRINT USING emitted for the field.
    Returns (list of (mechanism-suffix, message), info dict).
    """
    bad = []
    info = {'overflow': False, 'tie': False}
    width = field.width
    fill = b'*' if field.star else b' '
    if out.startswith(b'%'):
        info['overflow'] = True
        body = out[1:]
        if len(body) <= width:
            bad.append(('percent-on-fitting-number', '%r: %% shown but the rest has %d characters for a field of %d'
                        % (out, len(body), width)))
        if body[:1] in (b' ', b'*'):
            bad.append(('percent-with-fill', '%r: fill characters after %%' % (out,)))
            body = body.lstrip(b' *')
    else:
        if len(out) != width:
            bad.append(('width', '%r has %d characters, the field %r declares %d' % (out, len(out), field.spec, width)))
        body = out.lstrip(fill)
        if not field.star and body[:1] == b'*':
            bad.append(('fill', '%r: asterisk fill in a field without **' % (out,)))
    m = (_SCI if field.expo else _FIXED).match(body)
    if m and not field.expo and not (m.group('ip') or m.group('fp')):
        # a bare point: a field without decimals whose value rounds to zero, shown without the optional
        # leading zero. The statement does not require that zero, so this is accepted (and counted) as
        # long as the value really rounds to zero at the field's (zero) decimals.
        info['no_digits'] = True
        if abs(value) > Fraction(1, 2):
            bad.append(('digits:none-shown', 'field %r value %.17g shown as %r: no digit at all' % (field.spec, float(value), out)))
        return bad, info
    if not m or not (m.group('ip') or m.group('fp')):
        bad.append(('malformed', 'field %r value %s: cannot read %r as a %s number'
                    % (field.spec, float(value), out, 'exponential' if field.expo else 'fixed-point')))
        return bad, info
    ip, fp, ts = m.group('ip'), m.group('fp'), m.group('ts')
    s1, s2 = m.group('s1'), m.group('s2')
    neg = value < 0
    # ---- digits and value ------------------------------------------------------------------------
    ex = 0
    if field.expo:
        ex = int(m.group('ex'))
        if m.group('es') == b'-':
            ex = -ex
        info['exp_letter'] = m.group('el')
        want = b'D' if n == 8 else b'E'
        if m.group('el') != want:
            bad.append(('exponent-letter', '%r: exponent letter %r for a %d-byte number' % (out, m.group('el'), n)))
    digits_ip = ip.replace(b',', b'')
    unit = Fraction(10) ** (ex - len(fp))
    shown = int(digits_ip + fp or b'0') * unit
    a = abs(value)
    if a == 0:
        tol = Fraction(0)
    else:
        tol = Fraction(10) ** (decimal_exponent(a) - SIG[n] + 1)
    err = abs(shown - a)
    if err > unit / 2 + tol:
        units = float(err / unit)
        bad.append(('digits:%s' % ('off-by-power-of-ten' if (a and shown and (Fraction(9, 100) < shown / a < Fraction(11, 100)
                                                                           or 9 < shown / a < 11))
                                   else ('err<=1unit' if units <= 1 else ('err<=10units' if units <= 10 else 'err>10units'))),
                    'field %r value %.17g shown as %r: off by %.3f units of the last shown place' % (
                        field.spec, float(value), out, units)))
    if a and (a / unit - (a / unit).numerator // (a / unit).denominator) == Fraction(1, 2) and not field.expo:
        info['tie'] = True
    allzero = (shown == 0)
    # ---- point and decimals ----------------------------------------------------------------------
    if bool(m.group('pt')) != field.dot:
        bad.append(('point', 'field %r: %r %s a decimal point' % (field.spec, out, 'lacks' if field.dot else 'has')))
    if len(fp) != field.decimals:
        bad.append(('decimals', 'field %r: %r shows %d decimals, field has %d' % (field.spec, out, len(fp), field.decimals)))
    # ---- integer part: canonical digits, commas ---------------------------------------------------
    if len(digits_ip) > 1 and digits_ip[:1] == b'0':
        bad.append(('leading-zeros', '%r: superfluous leading zeros' % (out,)))
    if b',' in ip:
        if field.expo or not field.comma:
            bad.append(('comma', 'field %r: %r has commas the field does not ask for' % (field.spec, out)))
        elif not _GROUPED.match(ip):
            bad.append(('comma', 'field %r: %r commas not every third digit left of the point' % (field.spec, out)))
    elif field.comma and not field.expo and len(digits_ip) > 3:
        bad.append(('comma', 'field %r: %r lacks thousands commas' % (field.spec, out)))
    # ---- exponential form: digits left-justified over the positions the field gives ----------------
    if field.expo and info['overflow'] and not (field.dollar and neg and not field.plus_lead and not field.trail):
        # (a negative number in a $ field without a sign position: the manual rules that combination out)
        # % only when the number does not fit: an exponential form can always shed digits left of the
        # point, so it fits whenever sign + $ + one mantissa digit (or the decimals) + exponent part fit
        least = ((1 if (neg and not field.plus_lead and not field.trail) else 0) + (1 if field.plus_lead else 0) +
                 (1 if field.dollar else 0) + (0 if field.decimals else 1) +
                 ((1 + field.decimals) if field.dot else 0) + 4 + (1 if field.trail else 0))
        if least <= width:
            bad.append(('percent-on-fitting-number', 'field %r value %.17g shown as %r: an exponential form of %d characters fits'
                        % (field.spec, float(value), out, least)))
    if field.expo and not field.dollar:
        # (with $ the manual rules exponential form out: how many positions hold digits is not pinned there)
        signspec = field.plus_lead or field.trail
        want_ip = max(0, field.positions_before - (0 if signspec else 1))
        if not (len(ip) == want_ip or (want_ip == 0 and ip == b'0')):
            bad.append(('exponent-digit-positions', 'field %r: %r shows %d digits left of the point, the field gives %d'
                        % (field.spec, out, len(ip), want_ip)))
        lead = fp if want_ip == 0 else ip + fp
        if not allzero and lead[:1] == b'0':
            bad.append(('exponent-not-normalised', 'field %r: %r significant digits are not left-justified' % (field.spec, out)))
    # ---- signs -----------------------------------------------------------------------------------
    lead_signs = s1 + s2
    if field.plus_lead:
        want = b'-' if neg else b'+'
        if lead_signs != want or ts:
            bad.append(('sign', 'field %r value %s: %r should carry a leading %s' % (field.spec, float(value), out, want.decode())))
    elif field.trail:
        want = (b'-' if neg else (b'+' if field.trail == '+' else b' '))
        if lead_signs or ts != want:
            bad.append(('sign', 'field %r value %s: %r should end in %r' % (field.spec, float(value), out, want)))
    else:
        if ts:
            bad.append(('sign', 'field %r: %r has a trailing sign position the field does not declare' % (field.spec, out)))
        if neg:
            if lead_signs != b'-' and not (allzero and lead_signs == b''):
                bad.append(('sign', 'field %r negative value %s shown as %r' % (field.spec, float(value), out)))
        elif lead_signs:
            bad.append(('sign', 'field %r non-negative value %s shown as %r' % (field.spec, float(value), out)))
    # ---- dollar ----------------------------------------------------------------------------------
    if bool(m.group('dollar')) != field.dollar:
        bad.append(('dollar', 'field %r: %r %s a dollar sign' % (field.spec, out, 'lacks' if field.dollar else 'has')))
    # ---- % only when it really does not fit ---------------------------------------------------------
    if info['overflow'] and digits_ip == b'0' and fp and len(body) - 1 <= width:
        bad.append(('percent-on-fitting-number', '%r: only the optional leading zero makes it too long' % (out,)))
    return bad, info


# ---------------------------------------------------------------------------------------------------

class StrField(object):

    def __init__(self, kind, inner=0):
        self.kind, self.inner = kind, inner        # kind: '!', '&', '\\'

    @property
    def spec(self):
        return self.kind if self.kind != '\\' else '\\' + ' ' * self.inner + '\\'

    def to_json(self):
        return [self.kind, self.inner]


def check_string(field, s, out):
    """Oracle for a string field; s = the string value (bytes). Returns list of (suffix, message)."""
    if field.kind == '&':
        if out != s:
            return [('string:&', '& shows %r for %r' % (out[:40], s[:40]))]
        return []
    if field.kind == '!':
        # a field of width one: the first character, one blank for the empty string (like any string
        # field it emits exactly its declared width)
        if out != s[:1].ljust(1, b' '):
            return [('string:!', '! shows %r (%d characters) for %r' % (out[:40], len(out), s[:40]))]
        return []
    w = field.inner + 2
    if out != s[:w].ljust(w, b' '):
        return [('string:backslash', 'field of %d shows %r for %r' % (w, out[:60], s[:60]))]
    return []


def declared_width(field, arg):
    """Characters a field emits when its argument fits: the declared width; for & the argument's length."""
    if isinstance(field, StrField):
        if field.kind == '&':
            return len(arg)
        return 1 if field.kind == '!' else field.inner + 2
    return field.width
