"""
R-KBD: reference model of the PC keyboard buffer as the property C37 states it.

Written from the property statement and the IBM PC BIOS data-area layout, not from
pcbasic/basic/inputs/keyboard.py:

* a FIFO of keystrokes; at most CAPACITY (15) are waiting, a keystroke arriving while
  15 are waiting is dropped;
* a read (INKEY$) takes the oldest waiting keystroke, or gives "" when none waits;
* INPUT takes keystrokes up to and including the first Enter and yields the text before it;
  INPUT$(n) takes n keystrokes;
* the BIOS mirror: a ring of RING (16) two-byte slots at 0:041E..0:043D (offsets 30..61 from
  0:0400), a head pointer word at 0:041A (1050) and a tail pointer word at 0:041C (1052), both
  holding an offset 30,32,..,60; the waiting keystrokes are the slots from head up to (not
  including) tail, wrapping from 60 to 30; a stored keystroke advances tail by one slot, a
  read advances head by one slot;
* POKE 1050, PEEK(1052) sets head := tail, i.e. empties the buffer.
* more generally the waiting keystrokes ARE the slots from head to tail: a POKE that moves the head
  pointer forward by k slots (k <= waiting) discards the k oldest waiting keystrokes, a POKE that
  moves the tail pointer back by k slots discards the k newest.

Function keys (soft keys): F1..F10 arrive as the two-byte keystroke NUL + CHR$(58+n) and occupy ONE
slot like any other keystroke. When such a keystroke is taken from the buffer and KEY n has a
non-empty text, the reader is handed that text instead, one character per INKEY$ (per character
of INPUT$), before the next waiting keystroke; with an empty text (KEY n,"") the keystroke itself
is delivered. Nothing is lost or repeated either way. The GW-BASIC default texts are in
DEFAULT_MACROS. (The text in force when the key is read is used; the generators never redefine a
key while it is waiting, nor POKE the pointers while an expansion is partly read.)

A keystroke is the byte string INKEY$ returns for it: one character, or NUL + code for an
extended key. The low byte of a slot holds the character; for an extended key the BIOS stores
0 (83-key keyboards) or 0xE0 (enhanced keyboards) there - both are accepted.
"""

CAPACITY = 15
RING = 16
BASE = 30           # offset of the first slot from 0:0400
HEAD_ADDR = 1050    # 0:041A
TAIL_ADDR = 1052    # 0:041C
SLOT_ADDR = 1054    # 0:041E
LAST_ADDR = 1085    # 0:043D


# GW-BASIC manual, KEY statement: initial soft key values
DEFAULT_MACROS = {1: b'LIST ', 2: b'RUN\r', 3: b'LOAD"', 4: b'SAVE"', 5: b'CONT\r', 6: b',"LPT1:"\r',
                  7: b'TRON\r', 8: b'TROFF\r', 9: b'KEY ', 10: b'SCREEN 0,0,0\r'}


def fkey_number(k):
    """1..10 for the keystroke of F1..F10, else None."""
    if len(k) == 2 and k[0] == 0 and 0x3b <= k[1] <= 0x44:
        return k[1] - 0x3a
    return None


def next_ptr(p, n=1):
    """Pointer value n slots after p on the ring."""
    return BASE + ((p - BASE) // 2 + n) % RING * 2


class KeyTraps(object):
    """
    Which key events a running program's KEY traps take away from the keyboard buffer (GW-BASIC manual, KEY(n) and
    KEY n,CHR$(flags)+CHR$(scancode)): a trap with a handler line (ON KEY(n) GOSUB) that is ON swallows exactly its
    own key; every other key event reaches the buffer. KEY 1..10 = F1..F10, 11..14 = cursor up, left, right, down -
    whatever the shift state; KEY 15..20 = user-defined scan code together with exactly the given shift state
    (flags &H01/&H02/&H03 any Shift key, &H04 Ctrl, &H08 Alt).
    An event is (character, scan code, modifiers) with modifiers a string over 'S' 'C' 'A'.
    """
    PREDEFINED = dict([(n, 0x3a + n) for n in range(1, 11)] + [(11, 0x48), (12, 0x4b), (13, 0x4d), (14, 0x50)])

    def __init__(self):
        self.user = {}          # 15..20 -> (flags, scan)
        self.handler = set()    # ON KEY(n) GOSUB given
        self.on = set()

    def define(self, n, flags, scan):
        self.user[n] = (flags, scan)

    @staticmethod
    def _flags(mods):
        return (3 if 'S' in mods else 0) | (4 if 'C' in mods else 0) | (8 if 'A' in mods else 0)

    def matches(self, n, event):
        scan = event[1]
        mods = event[2] if len(event) > 2 else ''
        if n in self.PREDEFINED:
            return scan == self.PREDEFINED[n]
        if n in self.user:
            flags, tscan = self.user[n]
            if flags & 3:
                flags |= 3
            return scan == tscan and self._flags(mods) == flags
        return False

    def firing(self, events):
        """Traps (ON, with handler) whose key is among the events."""
        return sorted(n for n in self.on & self.handler if any(self.matches(n, e) for e in events))

    def swallows(self, event):
        return any(self.matches(n, event) for n in self.on & self.handler)


class Kbd(object):

    def __init__(self):
        self.fifo = []          # waiting keystrokes (bytes), oldest first
        self.macros = dict(DEFAULT_MACROS)
        self.expansion = []     # characters of a soft-key text still to be handed to the reader
        self.expanded = 0       # function keys delivered as their text
        self.unexpanded = 0     # function keys with an empty text delivered as themselves
        self.dropped = 0
        self.total = 0          # keystrokes accepted so far
        # pointer values are adopted from the first observation (the statement does not say
        # where in the ring an empty buffer starts), then tracked
        self.head = None
        self.tail = None
        self.wraps = 0

    # -- operations ------------------------------------------------------------------
    def key(self, k):
        """A keystroke arrives. True if stored, False if dropped."""
        if len(self.fifo) >= CAPACITY:
            self.dropped += 1
            return False
        self.fifo.append(k)
        self.total += 1
        if self.tail is not None:
            new = next_ptr(self.tail)
            if new < self.tail:
                self.wraps += 1
            self.tail = new
        return True

    def read(self):
        """INKEY$."""
        if self.expansion:
            return self.expansion.pop(0)
        if not self.fifo:
            return b''
        if self.head is not None:
            self.head = next_ptr(self.head)
        k = self.fifo.pop(0)
        n = fkey_number(k)
        if n is not None:
            text = self.macros.get(n, b'')
            if text:
                self.expanded += 1
                self.expansion = [text[i:i + 1] for i in range(len(text))]
                return self.expansion.pop(0)
            self.unexpanded += 1
        return k

    def set_macro(self, n, text):
        """KEY n, text."""
        self.macros[n] = text

    def stream(self):
        """What successive reads will deliver from what is waiting now (list of byte strings)."""
        out = list(self.expansion)
        for k in self.fifo:
            n = fkey_number(k)
            text = self.macros.get(n, b'') if n is not None else b''
            if text:
                out.extend(text[i:i + 1] for i in range(len(text)))
            else:
                out.append(k)
        return out

    def read_n(self, n):
        """INPUT$(n) when the next n items of stream() are single characters."""
        return b''.join(self.read() for _ in range(n))

    def can_input(self):
        """INPUT is decidable by the model: an Enter is waiting and everything before it is plain text."""
        if self.expansion:
            return False
        for k in self.fifo:
            if k == b'\r':
                return True
            if not (len(k) == 1 and (k.isalnum())):
                return False
        return False

    def read_line(self):
        """INPUT A$: everything up to the first Enter, which is consumed too."""
        out = []
        while True:
            k = self.read()
            if k == b'\r' or k == b'':
                break
            out.append(k)
        return b''.join(out)

    def clear(self):
        """POKE 1050, PEEK(1052)."""
        n = len(self.fifo)
        self.fifo = []
        if self.tail is not None:
            self.head = self.tail
        return n

    def skip_head(self, k):
        """POKE 1050, <head + k slots on the ring>, 0 <= k <= waiting: the k oldest keystrokes leave the buffer."""
        assert 0 <= k <= len(self.fifo)
        del self.fifo[:k]
        if self.head is not None:
            self.head = next_ptr(self.head, k)

    def pull_tail(self, k):
        """POKE 1052, <tail - k slots on the ring>, 0 <= k <= waiting: the k newest keystrokes leave the buffer."""
        assert 0 <= k <= len(self.fifo)
        if k:
            del self.fifo[-k:]
        if self.tail is not None:
            self.tail = next_ptr(self.tail, RING - k)

    # -- BIOS view -------------------------------------------------------------------
    def adopt(self, head, tail):
        if self.head is None:
            self.head, self.tail = head, next_ptr(head, len(self.fifo))

    def check_view(self, mem):
        """
        mem: dict address -> byte for 1050..1053 and at least the slots between head and tail
        (a full sweep has all of 1050..1085). Returns a list of (kind, text) discrepancies:
        'pointer-range', 'count', 'slot', 'pointer-movement'.
        """
        bad = []
        head = mem[HEAD_ADDR] + 256 * mem[HEAD_ADDR + 1]
        tail = mem[TAIL_ADDR] + 256 * mem[TAIL_ADDR + 1]
        for name, p in (('head', head), ('tail', tail)):
            if not (BASE <= p <= BASE + 2 * (RING - 1)) or p % 2:
                bad.append(('pointer-range', '%s pointer %d is not a slot offset 30..60' % (name, p)))
        if bad:
            return bad
        count = ((tail - head) // 2) % RING
        if count != len(self.fifo):
            bad.append(('count', 'head=%d tail=%d enclose %d slots but %d keystrokes are waiting'
                        % (head, tail, count, len(self.fifo))))
            return bad
        p = head
        for i, k in enumerate(self.fifo):
            addr = 1024 + p
            if addr in mem:
                got = mem[addr]
                if len(k) == 1:
                    ok = (got == k[0])
                else:
                    ok = got in (0, 0xe0)
                if not ok:
                    bad.append(('slot', 'slot at %d (waiting keystroke #%d %r) holds %d' % (addr, i, k, got)))
            p = next_ptr(p)
        if self.head is None:
            self.adopt(head, tail)
        elif (head, tail) != (self.head, self.tail):
            bad.append(('pointer-movement', 'pointers head=%d tail=%d, ring arithmetic from the earlier '
                        'observation gives head=%d tail=%d' % (head, tail, self.head, self.tail)))
        return bad
