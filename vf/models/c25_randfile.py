"""
R-FILE, random-access part (C25): a random file is an array of fixed-length records.

Written from the property statement and the GW-BASIC manual (OPEN "R", FIELD, LSET, RSET, PUT,
GET, LOF, LOC), not from pcbasic:

  * the file is records 1..H of `reclen` bytes, H = highest record ever PUT; a record below H
    that was never PUT is all zero bytes; the host file is exactly that image (H * reclen bytes)
  * every file number has a record buffer of reclen bytes; FIELD maps consecutive slices of it
    to string variables; LSET / RSET store a string left / right justified, blank padded,
    truncated on the right, into the slice; GET r copies record r into the buffer; PUT r copies
    the buffer into record r
  * GET / PUT without a record number use the record after the last one accessed through that
    file number (record 1 right after OPEN);  LOC = last record accessed;  LOF = reclen * H
  * record numbers outside 1..2^25 give Bad record number (63) and change nothing
"""

MAX_RECORD = 2 ** 25


class FileImage(object):
    """The records of one host file."""

    def __init__(self, reclen):
        self.reclen = reclen
        self.records = {}
        self.highest = 0

    def put(self, r, data):
        assert len(data) == self.reclen
        self.records[r] = bytes(data)
        self.highest = max(self.highest, r)

    def get(self, r):
        """Bytes of record r for 1 <= r <= highest (None beyond the end: not pinned)."""
        if r > self.highest:
            return None
        return self.records.get(r, b'\0' * self.reclen)

    def lof(self):
        return self.reclen * self.highest

    def image(self):
        return b''.join(self.get(r) for r in range(1, self.highest + 1))

    def reshaped(self, reclen):
        """The same bytes seen with another record length (only used when it divides the file length)."""
        data = self.image()
        assert len(data) % reclen == 0
        new = FileImage(reclen)
        for i in range(len(data) // reclen):
            new.put(i + 1, data[i * reclen:(i + 1) * reclen])
        return new


class Channel(object):
    """One open file number: buffer, FIELD views, position."""

    def __init__(self, image):
        self.image = image
        # contents right after OPEN are not pinned: unknown until a GET or a complete overwrite
        self.buffer = [None] * image.reclen
        self.fields = []         # (name, offset, width)
        self.last = 0            # last record accessed; 0 = none yet

    def field(self, layout):
        off = 0
        for name, width in layout:
            self.fields = [f for f in self.fields if f[0] != name]
            self.fields.append((name, off, width))
            off += width

    def view(self, name):
        for n, off, w in self.fields:
            if n == name:
                part = self.buffer[off:off + w]
                if any(b is None for b in part):
                    return None
                return bytes(part)
        raise KeyError(name)

    def _store(self, name, data):
        for n, off, w in self.fields:
            if n == name:
                self.buffer[off:off + w] = list(data)
                return
        raise KeyError(name)

    def width(self, name):
        for n, off, w in self.fields:
            if n == name:
                return w
        raise KeyError(name)

    def lset(self, name, s):
        w = self.width(name)
        self._store(name, s[:w].ljust(w, b' '))

    def rset(self, name, s):
        w = self.width(name)
        self._store(name, s[:w].rjust(w, b' '))

    def known(self):
        return all(b is not None for b in self.buffer)

    def next_record(self):
        return self.last + 1

    def get(self, r=None):
        r = self.next_record() if r is None else r
        data = self.image.get(r)
        self.buffer = list(data) if data is not None else [None] * self.image.reclen
        self.last = r
        return r

    def put(self, r=None):
        r = self.next_record() if r is None else r
        assert self.known()
        self.image.put(r, bytes(self.buffer))
        self.last = r
        return r


def valid_record(r):
    return 1 <= r <= MAX_RECORD
