"""
R-FILE, random-access part (C25): a random file is an array of fixed-length records.

Written from the property statement and the GW-BASIC manual (OPEN "R", FIELD, LSET, RSET, PUT,
GET, LOF, LOC), not from pcbasic:

  * the file is records 1..H of `reclen` bytes, H = highest record ever PUT; a record below H
    that was never PUT is all zero bytes; the host file is exactly that image (H * reclen bytes);
    GET at or after the end, and of a short tail record (file re-opened with a record length that
    does not divide its length), delivers the bytes present NUL padded to the record length
  * every file number has a record buffer of reclen bytes; FIELD maps consecutive slices of it
    to string variables; LSET / RSET store a string left / right justified, blank padded,
    truncated on the right, into the slice; GET r copies record r into the buffer; PUT r copies
    the buffer into record r
  * GET / PUT without a record number use the record after the last one accessed through that
    file number (record 1 right after OPEN);  LOC = last record accessed;  LOF = reclen * H
  * record numbers outside 1..2^25 give Bad record number (63) and change nothing
"""

MAX_RECORD = 2 ** 25


class FileImage(object):
    """
    The bytes of one host file seen as records of `reclen` bytes. Bytes that were never written (gaps
    below the end, everything at and after the end, the missing part of a short tail record after a
    re-OPEN with a record length that does not divide the file length) read as zero bytes.
    """

    def __init__(self, reclen, data=b''):
        self.reclen = reclen
        self.data = bytearray(data)
        # record numbers PUT under this record length (classification only)
        self.records = set()

    @property
    def highest(self):
        """Number of the last record that has at least one byte in the file."""
        return -(-len(self.data) // self.reclen)

    def put(self, r, rec):
        assert len(rec) == self.reclen
        start = (r - 1) * self.reclen
        if len(self.data) < start:
            self.data.extend(b'\0' * (start - len(self.data)))
        self.data[start:start + self.reclen] = rec
        self.records.add(r)

    def get(self, r):
        """Contents delivered by GET r: the record's bytes, NUL padded to the record length (all NUL beyond the end)."""
        start = (r - 1) * self.reclen
        return bytes(self.data[start:start + self.reclen]).ljust(self.reclen, b'\0')

    def short_tail(self):
        return len(self.data) % self.reclen != 0

    def lof(self):
        return len(self.data)

    def image(self):
        return bytes(self.data)

    def reshaped(self, reclen):
        """The same bytes seen with another record length."""
        new = FileImage(reclen, self.data)
        new.records = set(range(1, len(self.data) // reclen + 1))
        return new


class Channel(object):
    """One open file number: buffer, FIELD views, position."""

    def __init__(self, image):
        self.image = image
        # contents right after OPEN are not pinned: unknown until a GET or a complete overwrite
        self.buffer = [None] * image.reclen
        self.fields = []         # (name, offset, width)
        self.last = 0            # last record accessed; 0 = none yet

    def field(self, layout):
        off = 0
        for name, width in layout:
            self.fields = [f for f in self.fields if f[0] != name]
            self.fields.append((name, off, width))
            off += width

    def view(self, name):
        for n, off, w in self.fields:
            if n == name:
                part = self.buffer[off:off + w]
                if any(b is None for b in part):
                    return None
                return bytes(part)
        raise KeyError(name)

    def _store(self, name, data):
        for n, off, w in self.fields:
            if n == name:
                self.buffer[off:off + w] = list(data)
                return
        raise KeyError(name)

    def width(self, name):
        for n, off, w in self.fields:
            if n == name:
                return w
        raise KeyError(name)

    def lset(self, name, s):
        w = self.width(name)
        self._store(name, s[:w].ljust(w, b' '))

    def rset(self, name, s):
        w = self.width(name)
        self._store(name, s[:w].rjust(w, b' '))

    def known(self):
        return all(b is not None for b in self.buffer)

    def next_record(self):
        return self.last + 1

    def get(self, r=None):
        r = self.next_record() if r is None else r
        self.buffer = list(self.image.get(r))
        self.last = r
        return r

    def put(self, r=None):
        r = self.next_record() if r is None else r
        assert self.known()
        self.image.put(r, bytes(self.buffer))
        self.last = r
        return r


def valid_record(r):
    return 1 <= r <= MAX_RECORD
