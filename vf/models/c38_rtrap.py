"""
R-TRAP: reference automaton for BASIC event traps, written from the statement of property C38
and the GW-BASIC manual's description of ON <event> GOSUB / <event> ON|OFF|STOP, not from
pcbasic/basic/basicevents.py or interpreter.py.

A *program* (JSON-able dict) belongs to a small family:

    {'traps':  [{'name': 'K', 'kind': 'key', 'arg': 1}, ...],
     'main':   [stmt, ...],               (END is appended)
     'handlers': {'K': [stmt, ...], ...},
     'errh':   [stmt, ...] or None}       (ON ERROR GOTO handler)

    stmt:  ['tag', 'xy']            PRINT "xy";           (two-character tag)
           ['ctl', 'K', 'ON'|'OFF'|'STOP']
           ['redef', 'K']           ON <event> GOSUB <same line> executed again: defines the handler line only -
                                    it is not an ON/OFF/STOP, so mode, remembered occurrence and the
                                    "handler has not returned" block are unchanged
           ['err']                  ERROR 77              (only when errh is given)
           ['ret']                  RETURN
           ['retto', target]        RETURN <line>: leaves the handler like RETURN (the trap is re-enabled at this
                                    statement), execution continues at the target line instead
           ['gosub']                GOSUB to the common subroutine prog['sub'] (an ordinary GOSUB level: its RETURN
                                    neither ends the handler nor re-enables anything)
           ['resumeto', target]     RESUME <line> in the error handler: when the error happened inside an event
                                    handler this LEAVES the handler without a RETURN - it has not returned, so the
                                    trap stays blocked
                                    target: 'END' (the END line) or 'TAGk' (the k-th tagged PRINT of the main part
                                    counted from its end)
           ['resume']               RESUME NEXT
           ['end']                  END

Every statement is one program line, and the engine looks at its input events exactly once
before each statement (a *boundary*). A *schedule* maps boundary numbers (1 = before the first
program statement) to the list of trap names whose event occurs there; POST (a boundary number
past the end) means "after the program has ended, before a direct-mode statement".

Per trap:  mode in off/on/stopped, pending (an occurrence is remembered), blocked (its handler
has been entered and has neither returned nor turned the event back ON).
Global:    in_error (ON ERROR handler active until RESUME), running.

At a boundary: occurrences are taken in (lost when the trap is off; remembered otherwise), then -
if the program is running and no error handler is active - every trap that is on, not blocked and
has a remembered occurrence is entered as a GOSUB (all of them at this boundary; which one runs
first is not pinned, so every order is accepted), consuming the remembered occurrence. Then the
statement executes.

Edges the statement does not pin are CHOICE POINTS (every resolution is an accepted trace):
  * what a STOP issued while the trap is OFF remembers (mode 'stopped-off': an occurrence may be
    remembered or lost);
  * the order in which several traps that fire at the same boundary run;
  * whether <event> OFF discards an occurrence remembered during STOP (so that a later ON does not
    handle it) or keeps it.
"""

POST = 99

ON, OFF, STOP = 'ON', 'OFF', 'STOP'


def flatten(prog):
    """Lay the program out as a flat statement list. Returns (stmts, handler_start{name:index}, errh_start)."""
    stmts = []
    if prog.get('errh'):
        stmts.append(['def', 'E'])
    for t in prog['traps']:
        stmts.append(['def', t['name']])
    ndefs = len(stmts)
    stmts.extend(prog['main'])
    stmts.append(['end'])
    starts = {}
    for t in prog['traps']:
        starts[t['name']] = len(stmts)
        stmts.extend(prog['handlers'][t['name']])
    estart = None
    if prog.get('errh'):
        estart = len(stmts)
        stmts.extend(prog['errh'])
    sub_start = None
    if prog.get('sub'):
        sub_start = len(stmts)
        stmts.extend(prog['sub'])
    # resolve symbolic targets
    main_lo, main_hi = ndefs, ndefs + len(prog['main'])
    tags = [i for i in range(main_lo, main_hi) if stmts[i][0] == 'tag']

    def resolve(sym):
        if sym == 'END' or not tags:
            return main_hi
        k = int(sym[3:])
        return tags[max(0, len(tags) - k)]

    out = []
    for st in stmts:
        if st[0] in ('retto', 'resumeto'):
            out.append([st[0], st[1], resolve(st[1])])
        elif st[0] == 'gosub':
            out.append(['gosub', sub_start])
        else:
            out.append(st)
    return out, starts, estart, ndefs


class Chooser(object):
    """Replayable source of choices; records the arity of every choice point met."""

    def __init__(self, prefix=()):
        self.prefix = list(prefix)
        self.taken = []
        self.arity = []

    def choose(self, n):
        i = len(self.taken)
        c = self.prefix[i] if i < len(self.prefix) else 0
        self.taken.append(c)
        self.arity.append(n)
        return c


def _perms(items):
    if len(items) <= 1:
        return [list(items)]
    out = []
    for i in range(len(items)):
        for p in _perms(items[:i] + items[i + 1:]):
            out.append([items[i]] + p)
    return out


def simulate(prog, schedule, chooser, post_tags=('zz',), max_steps=400):
    """
    Run the automaton. schedule: {boundary: [trap names]} (POST allowed).
    Returns dict(trace=[tags], snaps=[(token_index, boundary, snapshot)], stats={...}, boundaries=n).
    """
    stmts, starts, estart, _ = flatten(prog)
    names = [t['name'] for t in prog['traps']]
    mode = dict((n, 'off') for n in names)
    pending = dict((n, False) for n in names)       # False / True / 'maybe'
    how = dict((n, None) for n in names)            # when the remembered occurrence arrived
    blocked = dict((n, False) for n in names)
    left_by_line = dict((n, False) for n in names)  # the handler has been left through RETURN <line> before
    lost = dict((n, False) for n in names)          # an occurrence has been lost while off (sticky; diagnosis only)
    stack = []
    in_error = False
    resume_pc = None
    pc = 0
    trace = []
    snaps = []
    stats = {'entries': 0, 'lost_off': 0, 'remembered_stop': 0, 'remembered_in_handler': 0,
             'during_error': 0, 'reentry_after_on': 0, 'simultaneous': 0, 'after_end': 0,
             'pending_at_off': 0, 'coalesced': 0, 'nested_depth': 0, 'entries_after_stop_on': 0,
             'unhandled_at_end': 0, 'unpinned_stop_while_off': 0,
             'redefinitions': 0, 'redefinitions_in_nontrivial_state': 0, 'handlers_left_by_return_line': 0,
             'plain_gosub_levels_inside_handler': 0, 'handlers_abandoned_by_resume_line': 0,
             'entries_after_return_line': 0, 'entries_after_resume': 0}
    b = 0
    while True:
        b += 1
        if b > max_steps:
            raise RuntimeError('model program does not terminate')
        for n in schedule.get(b, ()):
            if mode[n] == 'off':
                stats['lost_off'] += 1
                lost[n] = True
                continue
            if pending[n] is True:
                stats['coalesced'] += 1
            if mode[n] == 'stopped-off':
                stats['unpinned_stop_while_off'] += 1
                if pending[n] is not True:
                    pending[n] = 'maybe'
                    how[n] = 'stop-off'
                continue
            if in_error:
                # occurred while ON / STOPped: remembered; it may not be handled while the error handler is active
                # and is handled once after RESUME (if the trap is then on and not blocked)
                stats['during_error'] += 1
                if pending[n] is not True:
                    how[n] = 'error'
                pending[n] = True
            else:
                if mode[n] == 'stopped':
                    stats['remembered_stop'] += 1
                    if pending[n] is not True:
                        how[n] = 'stop'
                elif blocked[n]:
                    stats['remembered_in_handler'] += 1
                    if pending[n] is not True:
                        how[n] = 'handler'
                elif pending[n] is not True:
                    how[n] = 'on'
                pending[n] = True
        snap = dict((n, (mode[n], pending[n], blocked[n], how[n], lost[n], left_by_line[n])) for n in names)
        snap['_in_error'] = in_error
        snaps.append((len(trace), b, snap))
        if not in_error:
            firing = []
            for n in names:
                if mode[n] == 'on' and not blocked[n] and pending[n]:
                    if pending[n] == 'maybe':
                        if chooser.choose(2) == 1:
                            pending[n] = False
                            continue
                    firing.append(n)
            if len(firing) > 1:
                stats['simultaneous'] += 1
                orders = _perms(firing)
                firing = orders[chooser.choose(len(orders))]
            for n in firing:
                pending[n] = False
                if how[n] == 'stop':
                    stats['entries_after_stop_on'] += 1
                if how[n] == 'error':
                    stats['entries_after_resume'] += 1
                if left_by_line[n]:
                    stats['entries_after_return_line'] += 1
                if any(f[1] == n for f in stack):
                    stats['reentry_after_on'] += 1
                blocked[n] = True
                stack.append((pc, n))
                pc = starts[n]
                stats['entries'] += 1
                stats['nested_depth'] = max(stats['nested_depth'], len(stack))
        st = stmts[pc]
        op = st[0]
        if op == 'tag':
            trace.append(st[1])
            pc += 1
        elif op in ('def', 'redef'):
            if op == 'redef':
                stats['redefinitions'] += 1
                if blocked[st[1]] or mode[st[1]] == 'stopped' or pending[st[1]]:
                    stats['redefinitions_in_nontrivial_state'] += 1
            pc += 1
        elif op == 'ctl':
            n, cmd = st[1], st[2]
            if cmd == ON:
                mode[n] = 'on'
                blocked[n] = False
            elif cmd == OFF:
                mode[n] = 'off'
                if pending[n]:
                    stats['pending_at_off'] += 1
                    pending[n] = 'maybe'
            elif cmd == STOP:
                mode[n] = 'stopped' if mode[n] in ('on', 'stopped') else 'stopped-off'
            pc += 1
        elif op == 'err':
            if estart is None or in_error:
                raise RuntimeError('program family violated: untrapped error')
            in_error = True
            resume_pc = pc
            pc = estart
        elif op == 'resume':
            in_error = False
            pc = resume_pc + 1
        elif op == 'ret':
            rpc, n = stack.pop()
            if n is not None:
                blocked[n] = False
            pc = rpc
        elif op == 'retto':
            rpc, n = stack.pop()
            if n is not None:
                blocked[n] = False
                stats['handlers_left_by_return_line'] += 1
                left_by_line[n] = True
            pc = st[2]
        elif op == 'gosub':
            stack.append((pc + 1, None))
            stats['plain_gosub_levels_inside_handler'] += 1 if any(f[1] is not None for f in stack) else 0
            pc = st[1]
        elif op == 'resumeto':
            in_error = False
            if any(f[1] is not None for f in stack):
                stats['handlers_abandoned_by_resume_line'] += 1
            pc = st[2]
        elif op == 'end':
            break
        else:
            raise ValueError(st)
    # program has ended: nothing may be handled any more
    stats['after_end'] = len(schedule.get(POST, ()))
    stats['unhandled_at_end'] = sum(1 for n in names if pending[n] is True)
    end_snap = dict((n, (mode[n], pending[n], blocked[n], how[n], lost[n], left_by_line[n])) for n in names)
    end_snap['_in_error'] = False
    end_snap['_ended'] = True
    snaps.append((len(trace), POST, end_snap))
    trace.extend(post_tags)
    return {'trace': trace, 'snaps': snaps, 'stats': stats, 'boundaries': b}


def all_traces(prog, schedule, post_tags=('zz',), limit=256):
    """Every accepted trace (all resolutions of the choice points). Returns list of simulate() results."""
    results = []
    todo = [[]]
    seen = set()
    while todo and len(results) < limit:
        prefix = todo.pop()
        ch = Chooser(prefix)
        r = simulate(prog, schedule, ch, post_tags)
        r['choices'] = list(ch.taken)
        key = tuple(r['trace'])
        if key not in seen:
            seen.add(key)
            results.append(r)
        # branch on every choice point beyond the prefix
        for i in range(len(prefix), len(ch.taken)):
            for alt in range(1, ch.arity[i]):
                todo.append(ch.taken[:i] + [alt])
    return results


def diagnose(prog, results, observed):
    """
    Name the mechanism by which `observed` (list of tags) leaves every accepted trace.
    Returns (key_suffix, text).
    """
    names = [t['name'] for t in prog['traps']]
    best, best_i = None, -1
    for r in results:
        t = r['trace']
        i = 0
        while i < len(t) and i < len(observed) and t[i] == observed[i]:
            i += 1
        if i > best_i:
            best, best_i = r, i
    exp = best['trace']
    i = best_i
    got = observed[i] if i < len(observed) else None
    want = exp[i] if i < len(exp) else None
    # snapshots of the boundaries since the previous token
    snaps = [s for s in best['snaps'] if s[0] == i] or [s for s in best['snaps'] if s[0] <= i][-1:]
    def entry_of(tag):
        if tag and len(tag) == 2 and tag[1] == '<' and tag[0] in names:
            return tag[0]
        return None
    # a timer whose interval elapsed during an OFF period: one mechanism, many shapes of divergence
    kinds = dict((t['name'], t['kind']) for t in prog['traps'])
    for tag in (got, want):
        if tag and tag[0].upper() in kinds and kinds[tag[0].upper()] == 'timer' and tag[0].upper() + '<' in observed:
            if any(s[tag[0].upper()][4] for _, _, s in snaps):
                return ('timer-interval-elapsed-while-off-fires-after-on',
                        'a TIMER interval that elapsed while TIMER was OFF is handled after TIMER ON (trace position %d)' % i)
    n = entry_of(got)
    if n is not None and entry_of(want) != n:
        # the interpreter entered n's handler where the model does not
        reasons = []
        kind = dict((t['name'], t['kind']) for t in prog['traps'])[n]
        for _, bnd, s in snaps:
            md, pend, blk, how, lost_before = s[n][:5]
            if (kind == 'timer' and lost_before and not s.get('_ended') and not s['_in_error'] and not blk
                    and md == 'on' and not pend):
                # the only occurrence since the last entry fell into an OFF period
                reasons.append('timer-interval-elapsed-while-off-fires-after-on')
            elif s.get('_ended'):
                reasons.append('fired-after-program-end')
            elif s['_in_error']:
                reasons.append('fired-while-error-handler-active')
            elif blk:
                reasons.append('reentered-before-return')
            elif md == 'off':
                reasons.append('fired-while-off')
            elif md in ('stopped', 'stopped-off'):
                reasons.append('fired-while-stopped')
            elif not pend:
                reasons.append('fired-without-new-occurrence')
            else:
                reasons.append('fired-at-unexpected-point')
        # the entry happened at one of the boundaries since the previous tag; take the last one (every
        # ON/OFF/STOP statement in between has then been executed - the lesser accusation)
        if reasons:
            return reasons[-1], 'handler of %s entered (%s) at trace position %d' % (n, reasons[-1], i)
        return 'fired-at-unexpected-point', 'handler of %s entered at trace position %d' % (n, i)
    n = entry_of(want)
    if n is not None and any(s[n][5] for _, _, s in snaps) and (n + '<') not in observed[i:]:
        return ('not-reenabled-after-return-line',
                'after its handler ended in RETURN <line>, %s is never handled again although it is ON and occurs (trace position %d)' % (n, i))
    if n is not None:
        how = None
        for _, bnd, s in snaps:
            if s[n][1]:
                how = s[n][3]
        if how == 'error':
            return 'occurrence-during-error-handler-forgotten', 'occurrence of %s while the ON ERROR handler was active was not handled after RESUME (trace position %d)' % (n, i)
        if how == 'stop':
            return 'stopped-occurrence-forgotten-after-on', 'occurrence of %s remembered during STOP was not handled after ON (trace position %d)' % (n, i)
        if how == 'handler':
            return 'occurrence-during-handler-forgotten', 'occurrence of %s while its handler ran was not handled after RETURN (trace position %d)' % (n, i)
        return 'occurrence-while-on-not-handled', 'occurrence of %s while ON was not handled at the next statement boundary (trace position %d)' % (n, i)
    return 'trace-differs-from-model', 'trace leaves the model at position %d: got %r, model has %r' % (i, got, want)
