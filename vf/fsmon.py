"""
M-FS: file-system monitor (DESIGN.md sections 0 and 3).

Two independent observation channels, both harness-side (nothing in /repo is touched):

1. an *audit-hook recorder*: CPython itself raises the audit events ``open``, ``os.listdir``,
   ``os.scandir``, ``os.mkdir``, ``os.rmdir``, ``os.remove``, ``os.rename``, ``os.truncate``,
   ``os.chdir``, ``shutil.*`` ... immediately BEFORE the operation is attempted, whatever name the
   caller bound the function to. The recorder is active only inside a *statement window*
   (``with mon.window() as events:``); it stores one `Event` per audited call with the
   normalised real path(s) and the kind of object found at each path at that moment
   (``pre``), so that a checker can later decide, together with the state after the window
   (``kind_of``), whether the operation had an effect.

2. a *frame snapshot* of a directory tree (names, sizes, sha1) taken before and after, with
   sub-trees (the mounts) excluded: ``snapshot`` / ``diff_snapshots``.

Public interface
----------------
    mon = fsmon.get_monitor()            process-wide singleton (audit hooks cannot be removed);
                                         the hook is installed on first use
    with mon.window() as events: ...     record inside the block; `events` is a list of Event
    mon.start() / mon.stop() -> events   the same, unscoped
    Event                                namedtuple(event, verb, paths, raw, mode, pre, seq)
        event   audit event name                       ('open', 'os.listdir', ...)
        verb    'open-read' | 'open-write' | 'list' | 'mkdir' | 'rmdir' | 'remove' | 'rename' |
                'truncate' | 'chdir' | 'link' | 'chmod' | 'copy' | 'move' | 'rmtree' | 'exec' | 'other'
        paths   tuple of normalised real paths (str); '<fd N>' for descriptor arguments,
                '<unrepresentable ...>' for paths the host cannot even express (embedded NUL)
        raw     tuple of the arguments as given (repr-able)
        mode    open mode string or None
        pre     tuple, per path: 'f' file, 'd' directory, 'l' dangling/other link, 'o' other, '-' absent,
                '?' not a path -- the state immediately before the operation
    fsmon.norm(path) -> str              absolute, symlink-free, normalised
    fsmon.kind_of(path) -> 'f'|'d'|'l'|'o'|'-'
    fsmon.is_under(path, root)           path == root or inside it (both already normalised)
    fsmon.default_allow() -> [prefix]    interpreter installation, stdlib, pcbasic package, /verif,
                                         os.devnull, /proc/self  (imports, codepages, fonts)
    fsmon.classify(path, roots, allow=None) -> 'inside' | 'allowed' | 'outside' | 'nonpath'
    fsmon.effect(ev, i=0) -> bool        did the operation on ev.paths[i] take effect, judged from
                                         ev.pre and the CURRENT state (call it right after the window)
    fsmon.snapshot(tree, exclude=(), cache=None) -> {relpath: ('d',) | ('f', size, sha1hex) | ('l', target) | ('o',)}
                                         (cache: caller-owned dict, reuses sha1 while inode/size/mtime/ctime are unchanged)
    fsmon.diff_snapshots(before, after) -> [(relpath, before_entry|None, after_entry|None)]

``stat``-class calls raise no audit event and are not recorded: probing for existence is not one of
the verbs (read, list, create, modify, rename, delete) the monitored properties speak about.
"""
import collections
import contextlib
import hashlib
import os
import stat as _stat
import sys
import sysconfig

Event = collections.namedtuple('Event', 'event verb paths raw mode pre seq')

# audit event -> (verb, indices of the path arguments)
EVENTS = {
    'open': (None, (0,)),              # verb decided from the mode/flags
    'os.listdir': ('list', (0,)),
    'os.scandir': ('list', (0,)),
    'os.walk': ('list', (0,)),
    'os.fwalk': ('list', (0,)),
    'glob.glob': ('list', (0,)),
    'glob.glob/2': ('list', (0,)),
    'pathlib.Path.glob': ('list', (0,)),
    'pathlib.Path.rglob': ('list', (0,)),
    'os.mkdir': ('mkdir', (0,)),
    'os.rmdir': ('rmdir', (0,)),
    'os.remove': ('remove', (0,)),
    'os.rename': ('rename', (0, 1)),
    'os.truncate': ('truncate', (0,)),
    'os.chdir': ('chdir', (0,)),
    'os.link': ('link', (0, 1)),
    'os.symlink': ('link', (1,)),
    'os.chmod': ('chmod', (0,)),
    'os.chown': ('chmod', (0,)),
    'os.utime': ('chmod', (0,)),
    'os.mkfifo': ('mkdir', (0,)),
    'os.mknod': ('mkdir', (0,)),
    'shutil.copyfile': ('copy', (0, 1)),
    'shutil.copymode': ('copy', (0, 1)),
    'shutil.copystat': ('copy', (0, 1)),
    'shutil.copytree': ('copy', (0, 1)),
    'shutil.move': ('move', (0, 1)),
    'shutil.rmtree': ('rmtree', (0,)),
    'shutil.chown': ('chmod', (0,)),
    'shutil.make_archive': ('copy', (0, 2)),
    'shutil.unpack_archive': ('copy', (0, 1)),
    'tempfile.mkstemp': ('open-write', (0,)),
    'tempfile.mkdtemp': ('mkdir', (0,)),
    'os.exec': ('exec', (0,)),
    'os.posix_spawn': ('exec', (0,)),
    'os.system': ('exec', ()),
    'subprocess.Popen': ('exec', (0,)),
}

_WRITE_FLAGS = os.O_WRONLY | os.O_RDWR | os.O_CREAT | os.O_TRUNC | os.O_APPEND


def norm(path):
    """Absolute, symlink-free, normalised text path ('<...>' markers for non-paths)."""
    if isinstance(path, int):
        return '<fd %d>' % path
    try:
        path = os.fspath(path)
        if isinstance(path, bytes):
            path = os.fsdecode(path)
        return os.path.realpath(os.path.abspath(path))
    except (TypeError, ValueError) as e:
        return '<unrepresentable %s %r>' % (type(e).__name__, path)


def kind_of(path):
    """'f' regular file, 'd' directory, 'l' symbolic link, 'o' other, '-' absent / not a path."""
    if not isinstance(path, str) or path.startswith('<'):
        return '?'
    try:
        st = os.lstat(path)
    except (OSError, ValueError):
        return '-'
    if _stat.S_ISREG(st.st_mode):
        return 'f'
    if _stat.S_ISDIR(st.st_mode):
        return 'd'
    if _stat.S_ISLNK(st.st_mode):
        return 'l'
    return 'o'


def is_under(path, root):
    """path is root or lies inside it (both normalised)."""
    if path == root:
        return True
    if not root.endswith(os.sep):
        root = root + os.sep
    return path.startswith(root)


_ALLOW = None


def default_allow():
    """Prefixes that the interpreter legitimately touches: installation, stdlib, pcbasic, /verif."""
    global _ALLOW
    if _ALLOW is None:
        here = os.path.dirname(os.path.dirname(os.path.abspath(__file__)))
        cand = [sys.prefix, sys.base_prefix, sys.exec_prefix, sys.base_exec_prefix, here,
                os.devnull, '/dev/null', '/proc/self', '/proc/%d' % os.getpid(), '/dev/urandom']
        for name in ('stdlib', 'platstdlib', 'purelib', 'platlib'):
            try:
                cand.append(sysconfig.get_path(name))
            except Exception:  # noqa
                pass
        try:
            import pcbasic
            cand.append(os.path.dirname(os.path.abspath(pcbasic.__file__)))
        except Exception:  # noqa
            pass
        out = []
        for c in cand:
            if c:
                n = norm(c)
                if n not in out and n != os.sep:
                    out.append(n)
        _ALLOW = out
    return list(_ALLOW)


def classify(path, roots, allow=None):
    """'inside' a mount root / 'allowed' (installation etc.) / 'outside' / 'nonpath'."""
    if not isinstance(path, str) or path.startswith('<'):
        return 'nonpath'
    for r in roots:
        if is_under(path, r):
            return 'inside'
    for a in (default_allow() if allow is None else allow):
        if is_under(path, a):
            return 'allowed'
    return 'outside'


def effect(ev, i=0):
    """
    Whether the audited operation took effect on ev.paths[i], from the state before (ev.pre)
    and the state NOW. Conservative in the direction of 'no effect': an operation that failed
    (EISDIR, EEXIST, ENOTEMPTY, ENOENT ...) read, listed, created, changed and removed nothing.
    """
    pre = ev.pre[i]
    now = kind_of(ev.paths[i])
    v = ev.verb
    if v == 'open-read':
        return pre == 'f' or pre == 'o'                      # an existing non-directory was opened
    if v == 'open-write':
        return pre in ('f', 'o') or (pre == '-' and now != '-')   # modified/truncated, or created
    if v == 'list':
        return pre == 'd'
    if v == 'mkdir':
        return pre == '-' and now != '-'
    if v in ('rmdir', 'remove', 'rmtree'):
        return pre != '-' and now == '-'
    if v in ('rename', 'move'):
        # the operation as a whole succeeded if the source vanished or the target appeared;
        # then both of its paths were affected (a replaced target keeps its kind)
        src_gone = ev.pre[0] != '-' and kind_of(ev.paths[0]) == '-'
        dst_new = len(ev.paths) > 1 and ev.pre[1] == '-' and kind_of(ev.paths[1]) != '-'
        return src_gone or dst_new
    if v in ('link', 'copy'):
        if i == 0 and len(ev.paths) > 1:
            return pre != '-'                                  # source was there to be read
        return pre != '-' or now != '-'                        # target overwritten or created
    if v in ('truncate', 'chmod'):
        return pre != '-'
    if v == 'chdir':
        return pre == 'd'
    return pre != '-'


class FsMonitor(object):
    """Audit-hook recorder; active only between start() and stop()."""

    def __init__(self):
        self.active = False
        self.events = None
        self.seq = 0
        self.total = 0          # events recorded over the life of the process
        self._busy = False
        sys.addaudithook(self._hook)

    def _hook(self, event, args):
        if not self.active or self._busy:
            return
        spec = EVENTS.get(event)
        if spec is None:
            if not event.startswith('shutil.'):
                return
            spec = ('other', (0,))
        self._busy = True
        try:
            verb, idx = spec
            mode = None
            if event == 'open':
                mode = args[1] if len(args) > 1 else None
                flags = args[2] if len(args) > 2 and isinstance(args[2], int) else 0
                if isinstance(mode, str):
                    w = any(c in mode for c in 'wax+')
                else:
                    w = bool(flags & _WRITE_FLAGS)
                verb = 'open-write' if w else 'open-read'
            paths, pre, raw = [], [], []
            for i in idx:
                a = args[i] if i < len(args) else None
                if a is None:
                    continue
                raw.append(a if isinstance(a, (str, bytes, int)) else repr(a))
                p = norm(a)
                paths.append(p)
                pre.append(kind_of(p))
            if event == 'os.system' and args:
                raw.append(args[0])
            self.seq += 1
            self.total += 1
            self.events.append(Event(event, verb, tuple(paths), tuple(raw), mode, tuple(pre), self.seq))
        except Exception as e:  # a monitor must never disturb the monitored program
            try:
                self.events.append(Event(event, 'other', (), (repr(args)[:200], repr(e)), None, (), -1))
            except Exception:  # noqa
                pass
        finally:
            self._busy = False

    def start(self):
        self.events = []
        self.active = True
        return self.events

    def stop(self):
        self.active = False
        ev, self.events = self.events, None
        return ev

    @contextlib.contextmanager
    def window(self):
        ev = self.start()
        try:
            yield ev
        finally:
            self.active = False
            self.events = None


_MON = None


def get_monitor():
    global _MON
    if _MON is None:
        default_allow()    # resolve (imports pcbasic) outside any window
        _MON = FsMonitor()
    return _MON


# ---------------------------------------------------------------------------------------
# frame snapshot

def _sha1(path):
    h = hashlib.sha1()
    with open(path, 'rb') as f:
        while True:
            b = f.read(1 << 16)
            if not b:
                break
            h.update(b)
    return h.hexdigest()


def snapshot(tree, exclude=(), cache=None):
    """
    {relative path: ('d',) | ('f', size, sha1) | ('l', target) | ('o',)} of everything below
    `tree` (the entry '.' is the tree itself); sub-trees listed in `exclude` (absolute paths) are
    represented by their root directory entry only. Symbolic links are not followed.
    `cache` (a dict owned by the caller) lets repeated snapshots of one tree reuse the sha1 of a file
    whose (inode, size, mtime_ns, ctime_ns) are unchanged, as `git status` does; pass None to re-hash.
    """
    tree = norm(tree)
    excl = set(norm(e) for e in exclude)
    out = {}
    k = kind_of(tree)
    out['.'] = ('d',) if k == 'd' else ('-',)
    if k != 'd':
        return out
    plen = len(tree) + 1
    stack = [tree]
    while stack:
        d = stack.pop()
        try:
            names = os.listdir(d)
        except OSError:
            out[d[plen:] or '.'] = ('d', 'unlistable')
            continue
        for n in names:
            p = d + os.sep + n
            rel = p[plen:]
            try:
                st = os.lstat(p)
            except OSError:
                continue
            mode = st.st_mode
            if _stat.S_ISDIR(mode):
                out[rel] = ('d',)
                if p not in excl:
                    stack.append(p)
            elif _stat.S_ISREG(mode):
                sig = (st.st_ino, st.st_size, st.st_mtime_ns, st.st_ctime_ns)
                hit = cache.get(p) if cache is not None else None
                if hit is not None and hit[0] == sig:
                    out[rel] = ('f', st.st_size, hit[1])
                    continue
                try:
                    digest = _sha1(p)
                except OSError:
                    out[rel] = ('f', -1, 'unreadable')
                    continue
                out[rel] = ('f', st.st_size, digest)
                if cache is not None:
                    cache[p] = (sig, digest)
            elif _stat.S_ISLNK(mode):
                try:
                    out[rel] = ('l', os.readlink(p))
                except OSError:
                    out[rel] = ('l', '?')
            else:
                out[rel] = ('o',)
    return out


def diff_snapshots(before, after):
    """[(relpath, before entry or None, after entry or None)] for every difference, sorted."""
    out = []
    for k in sorted(set(before) | set(after)):
        a, b = before.get(k), after.get(k)
        if a != b:
            out.append((k, a, b))
    return out
