"""
Runner: ./check <ID> quick|thorough [--replay file]

Plans shards (check module's plan()), runs each in a fresh subprocess
(/venv/bin/python importing /repo's CURRENT working tree), watches them with a
wall-clock watchdog (firing => inconclusive, never violated), aggregates the
shard results, classifies violations against known_findings.json, writes
evidence/<ID>.json and prints the verdict lines.

exit 0  held on everything observed (KNOWN-FINDING lines allowed)
exit 1  at least one violation not listed as an open known finding
exit 2  inconclusive (watchdog / harness failure / non-triviality counter at zero)
"""
import importlib
import heapq
import json
import os
import subprocess
import sys
import tempfile
import shutil
import time
import hashlib
from array import array

HERE = os.path.dirname(os.path.dirname(os.path.abspath(__file__)))
PY = '/venv/bin/python'


def load_known(prop):
    path = os.path.join(HERE, 'known_findings.json')
    try:
        with open(path) as f:
            data = json.load(f)
    except (IOError, OSError):
        return {}
    out = {}
    for e in data.get('findings', []):
        if e.get('property') == prop and e.get('status') == 'open':
            out[e['key']] = e
    return out


def count_union(files):
    """Count distinct uint64 over sorted array files without loading all in a set."""
    def it(path):
        with open(path, 'rb') as f:
            while True:
                chunk = f.read(8 * 65536)
                if not chunk:
                    return
                a = array('Q')
                a.frombytes(chunk)
                for v in a:
                    yield v
    n = 0
    last = None
    for v in heapq.merge(*[it(p) for p in files]):
        if v != last:
            n += 1
            last = v
    return n


def main(argv):
    if len(argv) < 2:
        print(__doc__)
        return 3
    prop = argv[0].upper()
    tier = argv[1]
    if tier not in ('quick', 'thorough'):
        print('tier must be quick or thorough')
        return 3
    replay = None
    if '--replay' in argv:
        replay = argv[argv.index('--replay') + 1]
    seed = int(os.environ.get('VERIF_SEED', '0'))
    jobs = int(os.environ.get('VERIF_JOBS', str(os.cpu_count() or 4)))
    os.environ['VERIF_TIER'] = tier
    mod = importlib.import_module('vf.checks.%s' % prop.lower())
    meta = mod.META
    t0 = time.time()
    if replay:
        with open(replay) as f:
            rdata = json.load(f)
        shards = [{'replay': rdata, 'tier': tier, 'seed': rdata.get('seed', seed), 'shard': 0}]
    else:
        shards = mod.plan(tier, seed)
        for i, s in enumerate(shards):
            s.setdefault('shard', i)
            s['tier'] = tier
            s['seed'] = seed
    timeout = meta.get('timeout', {}).get(tier, 900 if tier == 'quick' else 3 * 3600)
    scratch = tempfile.mkdtemp(prefix='vf_%s_' % prop)
    pending = list(enumerate(shards))
    running = {}
    done = {}
    problems = []
    shard_times = {}
    try:
        while pending or running:
            while pending and len(running) < jobs:
                i, spec = pending.pop(0)
                specf = os.path.join(scratch, 'spec%d.json' % i)
                with open(specf, 'w') as f:
                    json.dump(spec, f)
                outp = os.path.join(scratch, 'out%d' % i)
                logf = open(outp + '.log', 'wb')
                # str/bytes hashing is fixed per VERIF_SEED, so that set/dict iteration order in generators and in
                # pcbasic itself is the same when a run (or a replay) is repeated
                env = dict(os.environ)
                env.setdefault('PYTHONHASHSEED', str(int(spec.get('seed', seed)) % 4294967295))
                p = subprocess.Popen(
                    [PY, '-B', '-X', 'faulthandler', '-m', 'vf.worker', prop, specf, outp],
                    stdout=logf, stderr=subprocess.STDOUT, cwd=HERE, env=env,
                )
                running[i] = (p, time.time(), outp, logf)
            time.sleep(0.05)
            for i in list(running):
                p, ts, outp, logf = running[i]
                rc = p.poll()
                if rc is None:
                    if time.time() - ts > timeout:
                        p.kill()
                        p.wait()
                        logf.close()
                        del running[i]
                        problems.append('shard %d: watchdog after %ds' % (i, timeout))
                    continue
                logf.close()
                del running[i]
                shard_times[i] = time.time() - ts
                if rc != 0 or not os.path.exists(outp + '.json'):
                    with open(outp + '.log', 'rb') as f:
                        tail = f.read()[-3000:].decode('utf-8', 'replace')
                    problems.append('shard %d: worker exit %s\n%s' % (i, rc, tail))
                    continue
                with open(outp + '.json') as f:
                    done[i] = json.load(f)
        # ---- aggregate -------------------------------------------------------
        evaluations = sum(d['evaluations'] for d in done.values())
        trivial = sum(d['trivial'] for d in done.values())
        hashed = count_union([os.path.join(scratch, 'out%d.hashes' % i) for i in done])
        distinct = hashed + sum(d['bulk_distinct'] for d in done.values())
        counters = {}
        for d in done.values():
            for k, v in d['counters'].items():
                if k.startswith('max_'):
                    counters[k] = max(counters.get(k, 0), v)
                else:
                    counters[k] = counters.get(k, 0) + v
        samples = []
        for i in sorted(done):
            for s in done[i]['samples']:
                if len(samples) < 8:
                    samples.append(s)
        violations = {}
        for i in sorted(done):
            for key, v in done[i]['violations'].items():
                e = violations.setdefault(key, {'what': v['what'], 'count': 0, 'witnesses': [], 'shard': shards[i]})
                e['count'] += v['count']
                e['witnesses'].extend(v['witnesses'][:2])
        for d in done.values():
            for r in d['inconclusive']:
                problems.append('inconclusive: ' + r)
    finally:
        shutil.rmtree(scratch, ignore_errors=True)
    # required behavioural counters (non-triviality)
    # (a replay re-runs one witness shard only: the non-triviality requirements of a full run do not apply)
    for name in ([] if replay else meta.get('require_counters', {}).get(tier, meta.get('require_counters', {}).get('any', []))):
        if not problems and counters.get(name, 0) <= 0:
            problems.append('inconclusive: required counter %s stayed at zero' % name)
    if not samples and not problems and not replay:
        problems.append('inconclusive: the check recorded no sample case (res.sample)')
    known = load_known(prop)
    new_violations = 0
    known_hits = 0
    lines = []
    for key, v in sorted(violations.items()):
        if key in known:
            known_hits += 1
            lines.append('KNOWN-FINDING: property=%s %s [key=%s; %d witness(es) this run]' % (
                prop, known[key].get('what', v['what']), key, v['count']))
            continue
        new_violations += 1
        rdir = os.path.join(HERE, 'replay', prop)
        os.makedirs(rdir, exist_ok=True)
        name = hashlib.sha1(key.encode('utf-8', 'replace')).hexdigest()[:12]
        rpath = os.path.join(rdir, '%s.json' % name)
        with open(rpath, 'w') as f:
            json.dump({
                'property': prop, 'key': key, 'what': v['what'], 'count': v['count'],
                'tier': tier, 'seed': seed, 'shard_spec': v['shard'],
                'witnesses': v['witnesses'][:4],
            }, f, indent=1)
        lines.append('VIOLATION property=%s replay=%s' % (prop, os.path.relpath(rpath, HERE)))
        lines.append('  key=%s count=%d what=%s' % (key, v['count'], v['what'][:600]))
    for key, e in sorted(known.items()):
        if key not in violations:
            lines.append('NOTE: open known finding not reproduced this run: property=%s key=%s' % (prop, key))
    wall = time.time() - t0
    # ---- evidence ---------------------------------------------------------------
    coverage = {
        'evaluations': evaluations,
        'distinct_nontrivial': distinct,
        'rule': meta['rule'],
        'samples': samples,
        'trivial_cases': trivial,
        'shards': len(shards),
        'shards_completed': len(done),
        'counters': counters,
        'violation_keys': sorted(violations),
        'known_finding_hits': known_hits,
    }
    if meta.get('exhaustive', {}).get(tier):
        coverage['exhaustive'] = True
        coverage['exhaustive_space'] = meta['exhaustive'][tier]
    ev = {
        'property_id': prop,
        'tier': tier,
        'seed': seed,
        'level': meta.get('level', 'exploration'),
        'coverage': coverage,
        'assumptions': meta.get('assumptions', []),
        'wall_s': round(wall, 2),
        'violations': new_violations,
        'verdict': 'violated' if new_violations else ('inconclusive' if problems else 'held_on_observed'),
    }
    # VERIF_NO_EVIDENCE: runs against a scratch copy of the repository (seeded-change experiments)
    # must not overwrite the evidence of the real tree
    if not replay and not os.environ.get('VERIF_NO_EVIDENCE'):
        os.makedirs(os.path.join(HERE, 'evidence'), exist_ok=True)
        with open(os.path.join(HERE, 'evidence', '%s.json' % prop), 'w') as f:
            json.dump(ev, f, indent=1, sort_keys=True)
    # ---- report -------------------------------------------------------------------
    print('%s %s seed=%d: %d evaluations, %d distinct non-trivial, %d shards, %.1fs' % (
        prop, tier, seed, evaluations, distinct, len(shards), wall))
    slow = sorted(shard_times.items(), key=lambda kv: -kv[1])[:3]
    print('  slowest shards: ' + ', '.join('%s#%d %.0fs' % (shards[i].get('kind', ''), i, t) for i, t in slow))
    if counters:
        print('  observed: ' + ', '.join('%s=%s' % kv for kv in sorted(counters.items())))
    for l in lines:
        print(l)
    if new_violations:
        for p in problems:
            print('INCONCLUSIVE (part of the run) property=%s reason=%s' % (prop, p))
        return 1
    if problems or evaluations == 0 or distinct < 2:
        for p in problems:
            print('INCONCLUSIVE property=%s reason=%s' % (prop, p))
        if not problems:
            print('INCONCLUSIVE property=%s reason=observed too little (evaluations=%d distinct=%d)' % (
                prop, evaluations, distinct))
        return 2
    print('HELD property=%s on everything observed' % prop)
    return 0


if __name__ == '__main__':
    sys.exit(main(sys.argv[1:]))
