"""
C18 Expressions evaluate with GW-BASIC precedence, associativity and typing.

A generator builds operator TREES (depth <= 6) over integer / single / double / string leaves.
Each tree is printed (a) with the fewest parentheses the statement's precedence table allows
(also with random superfluous ones and random blanks) and (b) fully parenthesised, so that (b)'s
grouping does not depend on any precedence or associativity.  The real expression parser evaluates
both; value bytes, type and error code must agree.  Independent of that differential oracle:

 * exact evaluation (vf.models.c18_rexpr.eval_exact, Fractions) of trees that stay inside the
   exactly representable region pins the VALUE;
 * the statement's typing rule pins the TYPE (with the two recorded deviations reported under their
   own keys and nothing else accepted);
 * relational results must be integer -1 / 0; an operator applied to string and number must give
   error 13; an operand deleted from a safe expression must give error 22 (end of expression) or
   22/2 (inside).
"""
import random
import time
from fractions import Fraction

from ..models import rnum
from ..models import c18_rexpr as rx
from ..gen import c18_trees as tg

DEV_INT = 'int-arith-result-is-single'
DEV_POW = 'pow-double-operand-result-is-single'

META = {
    'property_id': 'C18',
    'technique': ('differential monitor: minimal-parenthesis text vs fully parenthesised text of generated operator trees '
                  'through the real expression parser, plus exact-arithmetic, typing and error-class reference models'),
    'level': 'exploration',
    'level_text': (
        'Runtime oracle on the real tokeniser + ExpressionParser of a sandboxed session (the code path of '
        'Session.evaluate; a sample also through PRINT and LET). The operator-pair table (21 binary x 21 binary '
        'x 2 shapes, prefix operators before/after/between every binary operator, prefix x prefix) and the '
        'operator x operand-type table are enumerated completely in both tiers; random trees up to depth 6 '
        'add volume. Grouping is decided by comparing with the fully parenthesised text, so float rounding '
        'cannot hide or fake a precedence error; values of exactly representable trees are checked against '
        'Fraction arithmetic.'),
    'level_note': (
        'Trusted: the harness, Python Fractions, the reference parser in vf/models/c18_rexpr.py (textbook precedence '
        'climbing over the statement\'s table; every minimal text is parsed back to the generated tree before use). '
        'Parentheses themselves are trusted to group. Not pinned by the statement and therefore not judged: unary '
        'plus precedence (always printed in its own parentheses), unary +/- applied to a string (implementation '
        'passes the string through), which error wins when a tree contains several error sources (error 13 is only '
        'demanded where no other error can arise), the error (22 or 2) for an operand missing in the middle of an '
        'expression, the result type of \\ and MOD with a float operand (integer or widest accepted), a blank between a '
        'function name and its parenthesis (no function calls are generated). The spelling of a text is free and never '
        'changes its tree: blanks between tokens and inside <= >= <> =< => ><, letter case of word operators and variable '
        'names are drawn at random; the oracle text is always spelled canonically. Recorded deviations accepted exactly: integer + - * and unary minus '
        'yield a single of equal value (D-S2, key int-arith-result-is-single); ^ with a double operand yields a '
        'single unless the session runs with double=True (key pow-double-operand-result-is-single).'),
    'rule': ('case = (minimal-parenthesis source text, variable pool); distinct by that text; non-trivial = the text was '
             'evaluated in both printings and judged by at least the differential oracle; table blocks are '
             'duplicate-free by construction'),
    'design_ref': 'DESIGN.md section 4 C18',
    'assumptions': ['parentheses group as written', 'reference parser implements the statement\'s table',
                    'Python Fraction arithmetic'],
    'exhaustive': {
        'quick': 'all 21x21 binary operator pairs x 2 shapes x 8 operand triples; 3 prefix operators x 21 binary operators in '
                 'left/over/right/middle positions; prefix x prefix; 21 binary + 3 prefix operators x all operand type pairs',
        'thorough': 'same tables as quick (the random volume is sampled, not exhaustive)'},
    'require_counters': {'any': ['exact_value_checked', 'type_mismatch_13_seen', 'missing_operand_22_seen',
                                 'grouping_sensitive_pairs', 'unary_after_binary_texts', 'chained_relational_texts',
                                 'typing_checked', 'parens_dropped_texts', 'spelling_variants_agree',
                                 'inner_blank_relational_texts', 'recased_word_operator_texts', 'half_operand_values_checked']},
    'timeout': {'quick': 900, 'thorough': 10800},
}


def plan(tier, seed):
    shards = []
    for i in range(4):
        shards.append({'kind': 'pairs', 'part': i, 'parts': 4})
    shards.append({'kind': 'unary', 'part': 0, 'parts': 2})
    shards.append({'kind': 'unary', 'part': 1, 'parts': 2})
    shards.append({'kind': 'typing'})
    if tier == 'quick':
        for i in range(12):
            shards.append({'kind': 'random', 'n': 4000, 'part': i})
        for i in range(4):
            shards.append({'kind': 'exact', 'n': 4500, 'part': i})
        shards.append({'kind': 'errors', 'n': 2500, 'part': 0})
        shards.append({'kind': 'basic', 'n': 1200, 'part': 0})
        shards.append({'kind': 'basic', 'n': 1200, 'part': 1})
    else:
        for i in range(32):
            shards.append({'kind': 'random', 'n': 26000, 'part': i})
        for i in range(8):
            shards.append({'kind': 'exact', 'n': 22000, 'part': i})
        for i in range(4):
            shards.append({'kind': 'errors', 'n': 15000, 'part': i})
        for i in range(6):
            shards.append({'kind': 'basic', 'n': 9000, 'part': i})
    return shards


# ---------------------------------------------------------------------------------------------------
# observation

class Ctx(object):
    def __init__(self, box, res, rng, harness, double=False):
        self.box = box
        self.res = res
        self.rng = rng
        self.harness = harness
        self.double = double
        self.pool_sig = b''
        from pcbasic.basic.base import error
        self.BASICError = error.BASICError
        # observer on the session's float error handler: counts soft (message-and-continue) errors
        self.soft = 0
        handler = box.impl.values.error_handler
        orig = handler.handle

        def counting_handle(e):
            self.soft += 1
            return orig(e)
        handler.handle = counting_handle

    def set_pool(self, pool):
        for name, (ty, pyval, model) in sorted(pool.items()):
            n = name if name[-1] in '%!#$' else name + '!'
            self.box.set(n, pyval)
            if ty != '$':
                # the variable must hold exactly the model value (otherwise the harness, not the interpreter, is off)
                got = self.evalx(n.encode('latin-1'))
                if got[0] != 'ok' or rnum.decode(got[2]) != Fraction(model):
                    raise AssertionError('pool variable %s holds %r, wanted %s' % (n, got, model))
        self.pool_sig = repr(sorted((k, v[2]) for k, v in pool.items())).encode()

    def evalx(self, text):
        """('ok', sigil, bytes) | ('err', code) | ('trail', rest): tokenise + parse_expression, as Session.evaluate does."""
        impl = self.box.impl
        BE = self.BASICError

        def do():
            try:
                tokens = impl.tokeniser.tokenise_line(b'?' + text)
                tokens.read(2)
                val = impl.parser.parse_expression(tokens)
                rest = tokens.read()
                if rest.strip(b' \0'):
                    return ('trail', rest)
                sig = val.sigil.decode('latin-1')
                if sig == '$':
                    return ('ok', sig, bytes(val.to_str()))
                return ('ok', sig, bytes(val.to_bytes()))
            except BE as e:
                return ('err', e.err)
        st, v = self.harness.guarded(do)
        return v


def _has_unary_after_binary(toks):
    for a, b in zip(toks, toks[1:]):
        if a != '(' and a != ')' and a[0] == 'bop' and b != '(' and b != ')' and b[0] == 'uop':
            return True
    return False


def _adjacent_relational(toks):
    for a, b in zip(toks, toks[1:]):
        if a not in ('(', ')') and b not in ('(', ')') and a[0] == 'bop' and b[0] == 'bop' \
                and a[1] in rx.RELATIONAL and b[1] in rx.RELATIONAL:
            return True
    return False


def _has_chained_relational(t):
    for s in rx.subtrees(t):
        if s[0] == 'B' and s[1] in rx.RELATIONAL:
            for c in (s[2], s[3]):
                if c[0] == 'B' and c[1] in rx.RELATIONAL:
                    return True
    return False


def _grouping_key(ctx, t):
    """Smallest subtree whose minimal text already disagrees with its full text -> mechanism key."""
    best = None
    for s in sorted(rx.subtrees(t), key=rx.size):
        if s[0] in ('L', 'V'):
            continue
        try:
            a = ctx.evalx(rx.to_text(rx.print_min(s)))
            b = ctx.evalx(rx.to_text(rx.print_full(s)))
        except ctx.harness.Internal:
            continue
        if a != b:
            best = s
            break
    if best is None:
        return 'grouping:only-in-context:%s' % rx.node_class(t), t
    kids = [c for c in best[2:] if isinstance(c, list) and c[0] in ('U', 'B')]
    kc = sorted(set(rx.node_class(c) for c in kids)) or ['leaf']
    # all smaller subtrees agree, so the disagreement is between this operator and an operator directly below it
    return 'grouping:%s-over-%s' % (rx.node_class(best), kc[0] if len(kc) == 1 else 'several'), best


def _value_key(ctx, t):
    """Mechanism key of a wrong value: the smallest subtree that is already wrong, and why if that can be told."""
    for s_ in sorted(rx.subtrees(t), key=rx.size):
        if s_[0] in ('L', 'V'):
            continue
        try:
            want = rx.eval_exact(s_)
            got = ctx.evalx(rx.to_text(rx.print_full(s_)))
        except (rx.Unsafe, rx.TypeMismatch, ctx.harness.Internal):
            continue
        if got[0] != 'ok' or (got[2] != want if isinstance(want, bytes) else rnum.decode(got[2]) != want):
            if (s_[0] == 'U' and s_[1] == 'NOT') or (s_[0] == 'B' and (s_[1] in rx.LOGICAL or s_[1] in ('\\', 'MOD'))):
                for c in s_[2:]:
                    try:
                        v = rx.eval_exact(c)
                    except (rx.Unsafe, rx.TypeMismatch):
                        continue
                    if not isinstance(v, bytes) and v.denominator != 1:
                        return 'value:integer-operator-rounds-its-operand-wrongly'
            return 'value:%s' % rx.node_class(s_)
    return 'value:%s' % rx.node_class(t)


def check_tree(ctx, t, name=None, spacing=True, redundant=True, judge=True):
    """Run every oracle on one tree. Returns the observed result of the minimal text (or None)."""
    res, rng = ctx.res, ctx.rng
    toks = rx.print_min(t)
    back = rx.ref_parse(toks)
    if back != t:
        raise AssertionError('printer/reference parser disagree on %r -> %r' % (t, rx.to_text(toks)))
    spelled = set()
    text_min = rx.to_text(toks, rng if spacing else None, used=spelled)
    full = rx.print_full(t)
    text_full = rx.to_text(full)          # the oracle text is always spelled canonically
    case = {'name': name, 'min': text_min, 'full': text_full, 'pool': ctx.pool_sig.decode('latin-1') if _uses_vars(t) else ''}
    try:
        soft0 = ctx.soft
        ra = ctx.evalx(text_min)
        soft = ctx.soft - soft0
        rb = ctx.evalx(text_full)
        rc = None
        if redundant:
            rtoks = rx.print_redundant(t, rng)
            if rx.ref_parse(rtoks) != t:
                raise AssertionError('redundant printer changed the tree: %r' % (rx.to_text(rtoks),))
            text_red = rx.to_text(rtoks, rng)
            case['redundant'] = text_red
            rc = ctx.evalx(text_red)
    except ctx.harness.Internal as e:
        res.violation(e.key, str(e), case)
        return None
    res.case(text_min + b'|' + (ctx.pool_sig if _uses_vars(t) else b''))
    if len(toks) < len(full):
        res.count('parens_dropped_texts')
    if _has_unary_after_binary(toks):
        res.count('unary_after_binary_texts')
    if _has_chained_relational(t):
        res.count('chained_relational_texts')
    if 'blank-inside-relational-operator' in spelled:
        res.count('inner_blank_relational_texts')
    if 'word-operator-letter-case' in spelled:
        res.count('recased_word_operator_texts')
    case['observed_min'] = repr(ra)
    case['observed_full'] = repr(rb)
    # ---- differential: grouping ------------------------------------------------------------------
    if ra != rb and spelled:
        # same token sequence in the canonical spelling: if that agrees with the tree, the SPELLING is what broke it
        try:
            rcanon = ctx.evalx(rx.to_text(toks))
            if rcanon == rb:
                culprit = 'combination'
                for feat in sorted(spelled):
                    if ctx.evalx(rx.to_text(toks, None, force=feat)) != rb:
                        culprit = feat
                        break
                res.violation('spelling:%s' % culprit,
                              '%r evaluates to %r, the same tokens spelled canonically %r and the tree to %r'
                              % (text_min, ra, rx.to_text(toks), rb), case)
                return ra
        except ctx.harness.Internal:
            pass
    if ra != rb:
        key, sub = _grouping_key(ctx, t)
        case['smallest_failing_subtree'] = rx.to_text(rx.print_min(sub))
        res.violation(key, 'minimal text %r evaluates to %r but its operator tree %r to %r'
                      % (text_min, ra, text_full, rb), case)
        return ra
    if rc is not None and rc != rb:
        try:
            if ctx.evalx(rx.to_text(rtoks)) == rb:
                res.violation('spelling:combination', '%r evaluates to %r, canonically spelled %r and the tree to %r'
                              % (case['redundant'], rc, rx.to_text(rtoks), rb), case)
                return ra
        except ctx.harness.Internal:
            pass
        res.violation('grouping:superfluous-parentheses-change-result',
                      '%r evaluates to %r, tree %r to %r' % (case['redundant'], rc, text_full, rb), case)
        return ra
    if ra[0] == 'trail':
        res.violation('parse:expression-ends-early', '%r left %r unparsed' % (text_min, ra[1]), case)
        return ra
    if ra[0] == 'err':
        res.count('error_%d_seen' % ra[1])
    else:
        res.count('value_results')
    if soft and ra[0] == 'ok':
        # Division by zero / Overflow handled softly (message, maximum value substituted): the statement
        # pins neither value nor type of such a result; only the differential oracle applies
        res.count('soft_float_error_results')
        return ra
    if not judge:
        return ra
    # ---- absolute oracles --------------------------------------------------------------------------
    kd = rx.kind(t)
    if kd == 'unpinned':
        res.count('unpinned_unary_sign_on_string')
        return ra
    if kd == 'mismatch':
        if ra[0] == 'ok':
            res.violation('type-mismatch:not-raised', '%r gives %r although an operator mixes string and number'
                          % (text_min, ra), case)
        elif ra[1] == 13:
            res.count('type_mismatch_13_seen')
        return ra
    exact = None
    try:
        exact = rx.eval_exact(t)
    except rx.Unsafe:
        res.count('outside_exact_region')
    if ra[0] == 'err':
        if exact is not None:
            res.violation('error-on-exact-tree:%d' % ra[1], '%r raises error %d; exact value is %s'
                          % (text_min, ra[1], exact), case)
        return ra
    sig, raw = ra[1], ra[2]
    # type
    if kd == 'str':
        if sig != '$':
            res.violation('typing:string-expression-not-string', '%r has type %s' % (text_min, sig), case)
            return ra
    else:
        acc = rx.accepted_types(t)
        res.count('typing_checked')
        if sig not in acc:
            res.violation('typing:%s' % rx.node_class(t), '%r has type %s, statement allows %s'
                          % (text_min, sig, sorted(acc)), case)
            return ra
        for dev in sorted(acc[sig]):
            res.count('deviation_' + dev.replace('-', '_'))
            res.violation(dev, '%r has type %s; literal statement: %s'
                          % (text_min, sig, rx.type_of(t)), case)
        # relational results
        if t[0] == 'B' and t[1] in rx.RELATIONAL:
            res.count('relational_result_checked')
            if sig != '%' or raw not in (b'\xff\xff', b'\0\0'):
                res.violation('relational:result-not-integer-true-false', '%r gives %s %r' % (text_min, sig, raw), case)
    # value
    if exact is not None:
        res.count('exact_value_checked')
        if kd == 'str':
            ok = raw == exact
        else:
            ok = rnum.decode(raw) == exact
        if not ok:
            res.violation(_value_key(ctx, t), '%r evaluates to %r, exact value of its tree is %s'
                          % (text_min, ra, exact), case)
    return ra


def _uses_vars(t):
    for s in rx.subtrees(t):
        if s[0] == 'V':
            return True
    return False


# ---------------------------------------------------------------------------------------------------
# shards

def run_shard(spec, res):
    from .. import harness
    t0 = time.process_time()
    kind = spec['kind']
    rng = random.Random('%s:C18:%s:%s' % (spec['seed'], kind, spec.get('part', 0)))
    if kind in ('pairs', 'unary', 'typing'):
        # directed core: seed-independent
        rng = random.Random('C18:%s:%s' % (kind, spec.get('part', 0)))
    double = kind == 'random' and spec.get('part', 0) % 4 == 3
    with harness.Box(double=double) as box:
        ctx = Ctx(box, res, rng, harness, double)
        pool = tg.make_pool(rng, exact=(kind == 'exact'))
        ctx.set_pool(pool)
        if kind == 'pairs':
            _pairs(ctx, spec)
        elif kind == 'unary':
            _table(ctx, [x for i, x in enumerate(tg.unary_table()) if i % spec['parts'] == spec['part']])
        elif kind == 'typing':
            _typing(ctx)
        elif kind in ('random', 'exact'):
            _random(ctx, spec, pool, exact=(kind == 'exact'))
        elif kind == 'errors':
            _errors(ctx, spec, pool)
        elif kind == 'basic':
            _basic(ctx, spec, pool)
        else:
            raise ValueError(kind)
    res.count('cpu_seconds', int(round(time.process_time() - t0)))


def _table(ctx, items):
    first = True
    for name, t in items:
        r = check_tree(ctx, t, name=list(name), spacing=False, redundant=False)
        if first and r is not None:
            ctx.res.sample({'table_entry': list(name), 'min': rx.to_text(rx.print_min(t)),
                            'full': rx.to_text(rx.print_full(t)), 'observed': repr(r)})
            first = False


def _pairs(ctx, spec):
    items = list(tg.pair_table())
    # left/right shapes come in adjacent pairs: keep them together
    pairs = [(items[i], items[i + 1]) for i in range(0, len(items), 2)]
    pairs = pairs[spec['part']::spec['parts']]
    sensitive = set()
    allpairs = set()
    for (nl, tl), (nr, tr) in pairs:
        rl = check_tree(ctx, tl, name=list(nl), spacing=False, redundant=False)
        rr = check_tree(ctx, tr, name=list(nr), spacing=False, redundant=False)
        allpairs.add((nl[1], nl[2]))
        if rl is not None and rr is not None and rl != rr:
            # the two groupings of  a op1 b op2 c  differ: a wrong choice is visible
            sensitive.add((nl[1], nl[2]))
    ctx.res.count('grouping_sensitive_pairs', len(sensitive))
    ctx.res.count('operator_pairs_enumerated', len(allpairs))
    (nl, tl), _ = pairs[0]
    ctx.res.sample({'table_entry': list(nl), 'min': rx.to_text(rx.print_min(tl)), 'full': rx.to_text(rx.print_full(tl))})


def _typing(ctx):
    """Depth-1 operator x operand-type table; string/number mixes must give exactly error 13."""
    res = ctx.res
    for name, t in tg.typing_table():
        r = check_tree(ctx, t, name=list(name), spacing=False, redundant=False)
        if r is None:
            continue
        if rx.kind(t) == 'mismatch':
            # single operator, literal operands: nothing but the mismatch can be wrong
            if r != ('err', 13):
                res.violation('type-mismatch:wrong-error', '%r gives %r, expected error 13'
                              % (rx.to_text(rx.print_min(t)), r), {'name': list(name)})
    for ctxdouble in (True,):
        # the same numeric rows in a session with double-precision ^ (pow deviation must vanish or stay exactly as recorded)
        from .. import harness
        with harness.Box(double=True) as box2:
            c2 = Ctx(box2, res, ctx.rng, harness, True)
            for name, t in tg.typing_table():
                if name[0] == 'type2' and name[1] == '^' and '$' not in name[2:]:
                    check_tree(c2, t, name=list(name) + ['double=True'], spacing=False, redundant=False)
    res.sample({'typing_table': 'every operator x every operand type pair', 'entries': len(list(tg.typing_table()))})
    _spelling_table(ctx)
    # operands of the integer-converting operators at exact halves and their neighbours
    ctx.set_pool(tg.halves_pool())
    nh = 0
    for name, t in tg.halves_table():
        r = check_tree(ctx, t, name=list(name), spacing=False, redundant=False)
        nh += 1
        try:
            rx.eval_exact(t)
            res.count('half_operand_values_checked')
        except (rx.Unsafe, rx.TypeMismatch):
            pass
    res.sample({'halves_table': 'integer-converting operators x exact halves / neighbours x literal, computed, variable', 'entries': nh})
    # directed missing-operand texts (seed-independent)
    for text, allowed in DIRECTED_MISSING:
        for via_print in (False, True):
            try:
                if via_print:
                    out = ctx.box.ex(b'PRINT ' + text)
                    code, _ = ctx.harness.err_of(out)
                    got = ('err', code) if code else ('ok', out)
                else:
                    got = ctx.evalx(text)
            except ctx.harness.Internal as ie:
                res.violation(ie.key, str(ie), {'text': text})
                continue
            res.case(b'directed-missing|' + text + (b'|print' if via_print else b''))
            where = 'at-end' if allowed == (22,) else 'inside'
            if got[0] == 'err' and got[1] in allowed:
                res.count('missing_operand_22_seen' if got[1] == 22 else 'missing_operand_syntax_error_2_seen')
            elif got[0] == 'err':
                res.violation('missing-operand:other-error-raised-instead',
                              '%r gives error %d, expected error %s' % (text, got[1], ' or '.join(str(a) for a in allowed)),
                              {'text': text, 'via_print': via_print})
            else:
                res.violation('missing-operand:%s:no-error' % where, '%r gives %r' % (text, got),
                              {'text': text, 'via_print': via_print})


def _spelling_table(ctx):
    """Every operator in every spelling GW-BASIC allows, value from the tree; through evaluate, PRINT and a stored line."""
    res, box, harness = ctx.res, ctx.box, ctx.harness
    n = 0
    for o in rx.BINARY:
        if o[0].isalpha():
            forms = [o, o.lower(), o.capitalize(), o[0].lower() + o[1:]]
        elif len(o) == 2:
            forms = [o, o[0] + ' ' + o[1], o[0] + '  ' + o[1]]
        else:
            forms = [o]
        for a, b, ty in ((3, 5, '%'), (5, 3, '!'), (4, 4, '#'), ('a', 'b', '$'), ('b', 'b', '$')):
            if ty == '$' and o not in rx.RELATIONAL and o != '+':
                continue
            t = ['B', o, tg.L(a, ty), tg.L(b, ty)]
            try:
                want = rx.eval_exact(t)
            except (rx.Unsafe, rx.TypeMismatch):
                continue
            la, lb = t[2][2], t[3][2]
            for form in forms:
                for pad in (' ', '', '  '):
                    if pad == '' and (form[0].isalpha() or form[0] in '<>=' and False):
                        continue
                    text = ('%s%s%s%s%s' % (la, pad, form, pad, lb)).encode('latin-1')
                    kind = ('word-operator-letter-case' if form[0].isalpha() and form != o else
                            'blank-inside-relational-operator' if ' ' in form else 'blanks-around-operator')
                    case = {'text': text, 'tree': t}
                    try:
                        got = ctx.evalx(text)
                        out_p = box.ex(b'PRINT ' + text)
                        out_c = box.ex(b'PRINT ' + rx.to_text(rx.print_full(t)))
                        out_s = box.run([b'10 PRINT ' + text])
                    except harness.Internal as e:
                        res.violation(e.key, str(e), case)
                        continue
                    n += 1
                    res.case(b'spelling|' + text)
                    ok = got[0] == 'ok' and (got[2] == want if isinstance(want, bytes) else rnum.decode(got[2]) == want)
                    if not ok:
                        res.violation('spelling:%s' % kind, '%r evaluates to %r, its operator tree to %r' % (text, got, want), case)
                    elif out_p != out_c or out_s != out_c:
                        res.violation('spelling:%s' % kind, 'PRINT %r gives %r directly, %r as a stored line; canonical text gives %r'
                                      % (text, out_p, out_s, out_c), case)
                    else:
                        res.count('spelling_variants_agree')
    for u, forms in (('NOT', ['NOT', 'not', 'Not', 'nOT']), ('-', ['-', '- ', '-  '])):
        for form in forms:
            for pad in (' ', '  '):
                t = ['U', u, tg.L(6, '%')]
                text = ('%s%s6' % (form, pad if form[0].isalpha() else '')).encode('latin-1')
                got = ctx.evalx(text)
                want = rx.eval_exact(t)
                res.case(b'spelling|' + text)
                if not (got[0] == 'ok' and rnum.decode(got[2]) == want):
                    res.violation('spelling:prefix-operator', '%r evaluates to %r, its tree to %r' % (text, got, want), {'text': text})
                else:
                    res.count('spelling_variants_agree')
    ctx.set_pool(tg.make_pool(ctx.rng))
    res.sample({'spelling_table': 'every operator x letter case / blanks inside and around', 'variants': n})


STRICT_OPS = ('+', '-', '*', '/') + tuple(rx.RELATIONAL)

DIRECTED_MISSING = [
    (b'1+', (22,)), (b'1 AND', (22,)), (b'2^', (22,)), (b'3 MOD', (22,)), (b'1 <', (22,)), (b'-', (22,)), (b'NOT', (22,)),
    (b'1+2*', (22,)), (b'(1+2)*3-', (22,)), (b'1 OR 2 IMP', (22,)), (b'2*-', (22,)),
    # the operator before the gap binds tighter than the one before it
    (b'500000.5 <= 2 \\', (22,)), (b'"a" <= "b" /', (22,)), (b'1E30 + 1E30 * 1E30 ^', (22,)),
    (b'(1+)', (22, 2)), (b'1 + * 2', (22, 2)), (b'(2*)+1', (22, 2)), (b'1 AND * 2', (22, 2)), (b'()', (22, 2)),
    (b'3 * (4 -) * 5', (22, 2)),
]


def _random(ctx, spec, pool, exact):
    res, rng = ctx.res, ctx.rng
    n = spec['n']
    gen = tg.TreeGen(rng, pool, exact=exact, p_mismatch=(0.0 if exact else 0.015))
    for i in range(n):
        if i and i % 700 == 0:
            pool = tg.make_pool(rng, exact=exact)
            ctx.set_pool(pool)
            gen.pool = pool
        t = gen.tree()
        if exact:
            # prefer trees the exact model can judge
            for _ in range(3):
                try:
                    rx.eval_exact(t)
                    break
                except (rx.Unsafe, rx.TypeMismatch):
                    t = gen.tree()
        r = check_tree(ctx, t, name=spec['kind'])
        res.maxc('max_tree_depth', rx.depth(t))
        res.maxc('max_tree_nodes', rx.size(t))
        if i < 2 and r is not None:
            res.sample({'kind': spec['kind'], 'min': rx.to_text(rx.print_min(t)), 'full': rx.to_text(rx.print_full(t)),
                        'observed': repr(r)})


def _errors(ctx, spec, pool):
    """(1) safe trees with one string leaf -> exactly 13; (2) operands removed / operators doubled -> 22 or 2."""
    res, rng = ctx.res, ctx.rng
    gen = tg.TreeGen(rng, pool, exact=True, p_mismatch=0.0, max_depth=4)
    n = spec['n']
    for i in range(n):
        if i % 3 == 0:
            t = tg.mismatch_tree(gen)
            if t is None:
                continue
            r = check_tree(ctx, t, name='safe-mismatch')
            if r is not None and r != ('err', 13):
                res.violation('type-mismatch:wrong-error', '%r gives %r; only a type mismatch can arise in this tree'
                              % (rx.to_text(rx.print_min(t)), r), {'tree': t})
            continue
        # missing operand
        t = None
        for _ in range(10):
            t = gen.num(rng.randint(1, 4))
            try:
                rx.eval_exact(t)
                break
            except (rx.Unsafe, rx.TypeMismatch):
                t = None
        if t is None:
            continue
        # strict = whatever the regrouping, no complete sub-expression can raise a hard error before the gap is reached
        strict = all(s_[0] in ('L', 'V') and s_[1] != '$' or s_[0] == 'U' and s_[1] in ('-', '+')
                     or s_[0] == 'B' and s_[1] in STRICT_OPS for s_ in rx.subtrees(t))
        toks = rx.print_redundant(t, rng, 0.15) if rng.random() < 0.3 else rx.print_min(t)
        toks = list(toks)
        mode = rng.random()
        leafpos = [j for j, tk in enumerate(toks) if tk not in ('(', ')') and tk[0] == 'leaf']
        if mode < 0.35:
            # drop the LAST operand: the expression ends after an operator
            j = leafpos[-1]
            if j != len(toks) - 1:
                continue
            del toks[j]
            mut = 'drop-last-operand'
        elif mode < 0.8:
            j = rng.choice(leafpos)
            del toks[j]
            mut = 'drop-operand'
        else:
            j = rng.randint(0, len(toks))
            toks.insert(j, ('bop', rng.choice(['*', '/', '^', '\\', 'MOD', '=', '<', 'AND', 'OR', 'IMP'])))
            mut = 'extra-operator'
        if not toks or _adjacent_relational(toks):
            # "< =" with a blank is read as one operator by GW-BASIC; not pinned by the statement
            continue
        try:
            back = rx.ref_parse(toks)
        except rx.RefError as e:
            if e.kind != 'missing-operand':
                res.count('mutant_unpinned_' + e.kind.replace('-', '_'))
                continue
            text = rx.to_text(toks, rng)
            via_print = rng.random() < 0.3
            try:
                if via_print:
                    out = ctx.box.ex(b'PRINT ' + text)
                    code, _ = ctx.harness.err_of(out)
                    got = ('err', code) if code else ('ok', out)
                else:
                    got = ctx.evalx(text)
            except ctx.harness.Internal as ie:
                res.violation(ie.key, str(ie), {'text': text})
                continue
            res.case(b'mutant|' + text)
            allowed = (22,) if e.at_end else (22, 2)
            if not strict and got[0] == 'err' and got[1] not in allowed:
                # a complete sub-expression before the gap may legitimately fail first (e.g. NOT applied to a string
                # after the regrouping, a logical operator on a product beyond 32767): only "some error" is demanded
                res.count('mutant_other_error_before_gap')
                continue
            if got[0] == 'err' and got[1] in allowed:
                res.count('missing_operand_22_seen' if got[1] == 22 else 'missing_operand_syntax_error_2_seen')
                if e.at_end:
                    res.count('missing_operand_at_end_checked')
            elif got[0] == 'err':
                # an operator was applied (to operands belonging to an enclosing operator) before the gap was noticed
                res.violation('missing-operand:other-error-raised-instead',
                              '%r gives error %d, expected error %s' % (text, got[1], ' or '.join(str(a) for a in allowed)),
                              {'text': text, 'via_print': via_print, 'mutation': mut})
            else:
                res.violation('missing-operand:%s:no-error' % ('at-end' if e.at_end else 'inside'),
                              '%r gives %r, expected error %s' % (text, got, ' or '.join(str(a) for a in allowed)),
                              {'text': text, 'via_print': via_print, 'mutation': mut})
            if i < 6:
                res.sample({'mutant': mut, 'text': text, 'observed': repr(got)})
            continue
        # still a well-formed expression (e.g. the sign became a prefix operator): judge it as a tree
        res.count('mutant_still_wellformed')
        check_tree(ctx, back, name='mutant-wellformed')


def _basic(ctx, spec, pool):
    """Wiring: the same texts through PRINT and LET in direct mode."""
    res, rng, box, harness = ctx.res, ctx.rng, ctx.box, ctx.harness
    gen = tg.TreeGen(rng, pool, exact=False, p_mismatch=0.02, max_depth=5)
    for i in range(spec['n']):
        t = gen.tree()
        toks = rx.print_min(t)
        text_min = rx.to_text(toks, rng)
        text_full = rx.to_text(rx.print_full(t))
        case = {'min': text_min, 'full': text_full, 'pool': ctx.pool_sig.decode('latin-1')}
        try:
            rx_ = ctx.evalx(text_full)
            oa = box.ex(b'PRINT ' + text_min)
            ob = box.ex(b'PRINT ' + text_full)
        except harness.Internal as e:
            res.violation(e.key, str(e), case)
            continue
        res.case(b'print|' + text_min + b'|' + ctx.pool_sig)
        ca, cb = harness.err_of(oa)[0], harness.err_of(ob)[0]
        if oa != ob:
            res.violation('basic:print-minimal-vs-tree', 'PRINT %r -> %r but PRINT %r -> %r' % (text_min, oa, text_full, ob), case)
            continue
        want = rx_[1] if rx_[0] == 'err' else 0
        if ca != want:
            res.violation('basic:print-error-differs-from-evaluate', 'PRINT %r -> error %r, evaluate -> %r' % (text_min, ca, rx_), case)
            continue
        res.count('print_level_agreements')
        if ca:
            res.count('print_level_errors_seen')
        if rx_[0] == 'ok' and i % 2 == 0:
            # LET path: assign both printings to a variable of the result's own type; the stored values must be identical
            sig = rx_[1]
            va, vb = 'QA' + sig, 'QB' + sig
            try:
                o1 = box.ex(va.encode() + b'=' + text_min)
                o2 = box.ex(vb.encode() + b'=' + text_full)
                ga, gb = box.get(va), box.get(vb)
            except harness.Internal as e:
                res.violation(e.key, str(e), case)
                continue
            if harness.err_of(o1)[0] or harness.err_of(o2)[0] or ga != gb:
                res.violation('basic:let-minimal-vs-tree', 'LET %s=%r -> %r %r ; tree -> %r %r' % (va, text_min, o1, ga, o2, gb), case)
            else:
                res.count('let_level_agreements')
        if i < 2:
            res.sample({'kind': 'basic', 'stmt': b'PRINT ' + text_min, 'output': oa})
