"""
C13 The stored program matches the entered lines after any edit history.

Oracle: R-PROG ({line number: text}, vf.models.c13_rprog) driven by the same edit history as a real
session.  After EVERY operation the unwrapped listing (LIST ,"file") must equal the model's listing;
at checkpoints also: sub-range LIST, direct-mode GOTO n (every printing line prints its own tag, so
the landing line and the order of the following lines are visible), the PEEK walk of the line links
from the address at DS:30h, and all the time M-INV on Program (incremental line index == fresh scan
of the bytecode, after every mutating Program method).
"""
import os
import random

from ..models import c13_rprog as rprog
from ..gen import prog_gen as pg

META = {
    'property_id': 'C13',
    'technique': 'reference-model monitor (line-number -> text edit model) over random edit histories + Program index invariant + PEEK link walk',
    'level': 'exploration',
    'level_text': (
        'Runtime oracle: a real session and an independent {line number: text} model receive the same history of '
        'line entries, replacements, empty-line deletes, DELETE ranges, RENUM, NEW and every way a program gets into memory from a file '
        '(LOAD, LOAD ,R, RUN "f", CHAIN "f" of tokenised, protected and ASCII files; MERGE and CHAIN MERGE of ASCII files), with further edits on top. '
        'After every operation the unwrapped LIST must equal the model; at checkpoints GOTO landing, sub-range LIST and the '
        'PEEK walk of the in-memory links are compared as well; an invariant wrapper compares Program.line_numbers with a '
        'fresh token-structure scan of the bytecode after every store/delete/renum/load/merge/erase.'),
    'level_note': (
        'Trusted: the harness, Python dicts. Line text is restricted to statements whose listing is the entered text '
        '(PRINT/REM/\'/assignments/IF..THEN..ELSE with string and small integer literals), so no lister model is needed. '
        'Not pinned by the statement and therefore accepted either way: whether DELETE of a range with a missing end point is an error '
        '(an error must leave the program unchanged, success must remove exactly the lines in range; a range with both end points present '
        'must succeed); RENUM whose start lies above every line. Entry of lines 65530.. and number-only lines inside MERGE files are not generated. '
        'Recorded statement-vs-implementation deviation (GW-BASIC compatible treatment of line number 0, key '
        'renum:line-entered-as-0-lists-with-extra-blank): a line typed under number 0 keeps the blank after its number in the stored text and LIST hides '
        'one blank only while the number is 0, so after RENUM it lists with two blanks. The oracle accepts exactly the literal listing or exactly this '
        'deviation (reported under that key, directed reproducer in the core); anything else is an ordinary violation.'),
    'rule': ('case = one edit history (list of operations); distinct by the full operation list; non-trivial = the history '
             'contains at least one replacement of an existing line and one deletion, and ends with a non-empty program or after NEW'),
    'design_ref': 'DESIGN.md section 4 C13',
    'assumptions': ['line text restricted to statements with canonical listing', 'edit model R-PROG written from the GW-BASIC manual'],
    'require_counters': {'any': ['replace_seen', 'replace_longer_seen', 'replace_shorter_seen', 'delete_line_seen',
                                 'delete_range_seen', 'delete_range_empty_seen', 'renum_accepted', 'renum_rejected',
                                 'merge_seen', 'load_ascii_seen', 'load_tokenised_seen', 'new_seen', 'reinsert_deleted_seen',
                                 'load_protected_seen', 'run_protected_seen', 'chain_protected_seen', 'run_tokenised_seen', 'chain_tokenised_seen',
                                 'run_ascii_seen', 'chain_ascii_seen', 'chain_merge_ascii_seen', 'load_r_protected_seen', 'edits_on_loaded_program',
                                 'peek_walks', 'goto_landings', 'inv_checks']},
    'timeout': {'quick': 900, 'thorough': 7200},
}


def plan(tier, seed):
    shards = [{'kind': 'directed'}]
    if tier == 'quick':
        for i in range(12):
            shards.append({'kind': 'history', 'part': i, 'n': 13, 'maxops': 400})
    else:
        for i in range(40):
            shards.append({'kind': 'history', 'part': i, 'n': 100, 'maxops': 400})
    return shards


# ----------------------------------------------------------------------------------------------

class Abort(Exception):
    pass


# statement-vs-implementation deviation (GW-BASIC compatible behaviour of line number 0): the oracle accepts
# exactly the literal statement or exactly this deviation; the deviation is reported under this key
LEAD_KEY = 'renum:line-entered-as-0-lists-with-extra-blank'


class Driver(object):
    """One session + model + the observations."""

    def __init__(self, box, res, inv):
        self.box = box
        self.res = res
        self.inv = inv
        self.model = rprog.RProg()
        self.printed = {}      # text -> bytes printed
        self.history = []
        self.saved = {}        # slot -> (fmt, model copy, lead copy)
        # Recorded deviation (kept as a violation under its own key, see LEAD_KEY): a line entered under
        # number 0 keeps the blank after its number as part of the stored text; LIST hides one blank only
        # while the number is 0.  `lead` = numbers of the lines that carry such a hidden blank.
        self.lead = set()
        self.deleted_numbers = set()
        self.flags = set()
        self.tagno = 0

    # -- reporting ---------------------------------------------------------------------------------
    def case(self):
        return {'history': self.history}

    def fail(self, key, what):
        self.res.violation(key, what + ' [after op %d: %r]' % (len(self.history), self.history[-1] if self.history else None),
                           self.case())
        raise Abort()

    def ex(self, cmd, budget=None):
        from .. import harness
        try:
            out = self.box.ex(cmd, budget or 20000)
        except harness.Internal as e:
            self.res.violation(e.key, str(e), self.case())
            raise Abort()
        if self.inv.failures:
            self.inv.report(self.res, self.case())
            raise Abort()
        return out

    # -- operations --------------------------------------------------------------------------------
    def new_tag(self):
        self.tagno += 1
        return b'T%d' % self.tagno

    def make_text(self, rng, maxpad=180):
        text, printed = pg.simple_line(rng, self.new_tag(), maxpad)
        self.printed[text] = printed
        return text

    def apply(self, op):
        from .. import harness
        self.history.append(op)
        kind = op[0]
        m = self.model
        res = self.res
        if 'loaded' in self.flags and kind in ('store', 'del', 'delete', 'renum'):
            res.count('edits_on_loaded_program')
        if kind == 'store':
            _, n, text = op
            if n in m.lines:
                res.count('replace_seen')
                if len(text) > len(m.lines[n]):
                    res.count('replace_longer_seen')
                elif len(text) < len(m.lines[n]):
                    res.count('replace_shorter_seen')
                self.flags.add('replace')
            else:
                res.count('store_new')
                if n in self.deleted_numbers:
                    res.count('reinsert_deleted_seen')
            out = self.ex(b'%d %s' % (n, text))
            m.store(n, text)
            self.lead.discard(n)
            if n == 0:
                self.lead.add(0)
            if out:
                self.fail('store:unexpected-output', 'entering line %d gave %r' % (n, out))
        elif kind == 'del':
            _, n = op
            out = self.ex(b'%d' % n)
            code, _ = harness.err_of(out)
            if m.delete_line(n):
                self.lead.discard(n)
                res.count('delete_line_seen')
                self.flags.add('delete')
                self.deleted_numbers.add(n)
                if out:
                    self.fail('delete-line:error-on-existing', 'empty line %d gave %r' % (n, out))
            else:
                res.count('delete_missing_line_seen')
                if code:
                    res.count('delete_missing_line_error_seen')
        elif kind == 'delete':
            _, form, a, b = op
            if form == 'a-b':
                arg, lo, hi = b'%d-%d' % (a, b), a, b
            elif form == 'a':
                arg, lo, hi = b'%d' % a, a, a
            elif form == '-b':
                arg, lo, hi = b'-%d' % b, 0, b
            else:
                arg, lo, hi = b'%d-' % a, a, 65535
            victims = m.in_range(lo, hi)
            out = self.ex(b'DELETE ' + arg)
            code, _ = harness.err_of(out)
            if code:
                res.count('delete_range_error_seen')
                if not victims:
                    res.count('delete_range_empty_seen')
                ends_present = ((form in ('-b',) or a in m.lines) and (form in ('a-', 'a') or b in m.lines))
                if victims and ends_present:
                    self.fail('delete-range:rejected-with-existing-endpoints', 'DELETE %r gave %r' % (arg, out))
                # program must be unchanged (checked by the listing comparison below)
            else:
                if out:
                    self.fail('delete-range:unexpected-output', 'DELETE %r gave %r' % (arg, out))
                if not victims:
                    res.count('delete_range_empty_seen')
                else:
                    res.count('delete_range_seen')
                    res.maxc('max_deleted_by_range', len(victims))
                    self.flags.add('delete')
                    self.deleted_numbers.update(victims)
                m.delete_range(lo, hi)
                self.lead -= set(victims)
        elif kind == 'renum':
            _, new, old, inc = op
            args = [b'' if v is None else b'%d' % v for v in (new, old, inc)]
            while args and args[-1] == b'':
                args.pop()
            mp = m.renum_map(10 if new is None else new, 0 if old is None else old, 10 if inc is None else inc)
            moved = [n for n in m.lines if n >= (old or 0)]
            out = self.ex(b'RENUM ' + b','.join(args))
            code, _ = harness.err_of(out)
            if code:
                res.count('renum_rejected')
                if mp is not None and moved:
                    self.fail('renum:valid-arguments-rejected', 'RENUM %r gave %r' % (args, out))
            else:
                if out:
                    self.fail('renum:unexpected-output', 'RENUM %r gave %r' % (args, out))
                if mp is None:
                    # accepted although the new numbers collide with / do not stay above the lines below old
                    self.fail('renum:impossible-renumbering-accepted', 'RENUM %r accepted' % (args,))
                res.count('renum_accepted')
                if moved and any(k != v for k, v in mp.items()):
                    res.count('renum_changed_numbers')
                m.apply_map(mp)
                self.lead = set(mp.get(n, n) for n in self.lead)
                self.flags.add('renum')
        elif kind in ('merge', 'load_ascii'):
            _, name, pairs, eof = op
            data = b''.join(b'%d %s\r\n' % (n, t) for n, t in pairs) + (b'\x1a' if eof else b'')
            with open(self.box.path(name), 'wb') as f:
                f.write(data)
            cmd = b'MERGE' if kind == 'merge' else b'LOAD'
            out = self.ex(cmd + b' "' + name.encode('ascii') + b'"')
            if out:
                self.fail('%s:unexpected-output' % kind, '%s of %d lines gave %r' % (kind, len(pairs), out))
            if kind == 'merge':
                res.count('merge_seen')
                if any(n in m.lines for n, t in pairs):
                    res.count('merge_replacing_seen')
                m.merge(pairs)
            else:
                res.count('load_ascii_seen')
                m.load(pairs)
                self.lead = set()
            for n, t in pairs:
                self.lead.discard(n)
                if n == 0:
                    self.lead.add(0)
        elif kind == 'save':
            _, slot, fmt = op
            out = self.ex(b'SAVE "S%d"%s' % (slot, {'A': b',A', 'P': b',P', 'B': b''}[fmt]))
            if out:
                self.fail('save:unexpected-output', 'SAVE gave %r' % out)
            lead = set(self.lead)
            if fmt == 'A':
                # the ASCII file shows line 0 without its hidden blank; re-entering it hides a blank again
                lead.discard(0)
                if 0 in m.lines:
                    lead.add(0)
            self.saved[slot] = (fmt, m.copy(), lead)
            res.count('save_%s_seen' % fmt)
        elif kind in ('load_saved', 'merge_saved', 'run_saved', 'chain_saved', 'load_r_saved', 'chain_merge_saved'):
            # every way a program gets into memory from a file saved by this session (B, P or A; protection is not honoured
            # in these sessions, so a P file can be listed): LOAD, LOAD ,R, RUN "f", CHAIN "f" replace the program,
            # MERGE and CHAIN MERGE (ASCII only) merge into it; the running forms must print every line's tag in order
            _, slot = op
            fmt, snap, slead = self.saved[slot]
            name = b'"S%d"' % slot
            cmd = {'load_saved': b'LOAD ' + name, 'merge_saved': b'MERGE ' + name, 'run_saved': b'RUN ' + name,
                   'chain_saved': b'CHAIN ' + name, 'load_r_saved': b'LOAD ' + name + b',R', 'chain_merge_saved': b'CHAIN MERGE ' + name}[kind]
            merging = kind in ('merge_saved', 'chain_merge_saved')
            running = kind not in ('load_saved', 'merge_saved')
            if merging:
                new_lines = dict(m.lines)
                new_lines.update(snap.lines)
            else:
                new_lines = dict(snap.lines)
            out = self.ex(cmd, 4 * len(new_lines) + 200)
            exp = b''.join(self.printed[new_lines[k]] for k in sorted(new_lines)) if running else b''
            if out != exp:
                self.fail('%s:%s:%s' % (kind.replace('_saved', ''), {'A': 'ascii', 'B': 'tokenised', 'P': 'protected'}[fmt],
                                        'unexpected-output' if not running else 'run-output-differs'),
                          '%r of a file saved by this session gave %r, expected %r' % (cmd, out[-150:], exp[-150:]))
            res.count('%s_%s_seen' % (kind.replace('_saved', ''), {'A': 'ascii', 'B': 'tokenised', 'P': 'protected'}[fmt]))
            if kind == 'load_saved':
                res.count('load_tokenised_seen' if fmt in 'BP' else 'load_ascii_seen')
            if not merging:
                m.lines = new_lines
                self.lead = set(slead)
            else:
                res.count('merge_seen')
                m.lines = new_lines
                self.lead = (self.lead - set(snap.lines)) | slead
            self.flags.add('loaded')
        elif kind == 'new':
            out = self.ex(b'NEW')
            if out:
                self.fail('new:unexpected-output', 'NEW gave %r' % out)
            m.new()
            self.lead = set()
            res.count('new_seen')
            self.flags.add('new')
        else:
            raise ValueError(kind)
        self.observe_listing()

    # -- observations --------------------------------------------------------------------------------
    def observe_listing(self, a=None, b=None):
        rng = b''
        if a is not None or b is not None:
            rng = (b'%d' % a if a is not None else b'') + b'-' + (b'%d' % b if b is not None else b'')
        out, got = pg.list_to_file(self.box, b'LST.TXT', rng)
        if self.inv.failures:
            self.inv.report(self.res, self.case())
            raise Abort()
        exp = self.model.listing(a, b)
        if got is not None and got != exp and any(n != 0 for n in self.lead):
            if got == self.deviant_listing(a, b):
                # exactly the recorded deviation: keep it as a violation under its own key, go on with the history
                self.res.violation(LEAD_KEY, 'a line entered under number 0 and moved by RENUM lists with a second blank: %r'
                                   % [l for l in got if l not in exp][:1], self.case())
                self.res.count('line0_blank_deviation_seen')
                self.res.maxc('max_program_lines', len(exp))
                return
        if got is None:
            self.fail('list:no-file', 'LIST %r,"LST.TXT" wrote no file: %r' % (rng, out))
        if out:
            self.fail('list:unexpected-output', 'LIST to file gave %r' % out)
        if got != exp:
            key = 'list:range-differs-from-model' if rng else 'list:differs-from-model'
            gn = [l.split(b' ', 1)[0] for l in got]
            en = [l.split(b' ', 1)[0] for l in exp]
            if gn == en:
                key += ':text'
            elif sorted(gn, key=lambda x: int(x) if x.isdigit() else -1) == gn and set(gn) != set(en):
                key += ':line-set'
            else:
                key += ':order-or-duplicates'
            diff = [(g, e) for g, e in zip(got + [None] * len(exp), exp + [None] * len(got)) if g != e][:2]
            self.fail(key, 'LIST %r: %d lines, model %d; first differences (got, expected) %r' % (rng, len(got), len(exp), diff))
        self.res.maxc('max_program_lines', len(exp))

    def deviant_listing(self, a=None, b=None):
        m = self.model
        return [(b'%d  %s' % (n, m.lines[n]) if (n in self.lead and n != 0) else b'%d %s' % (n, m.lines[n]))
                for n in m.numbers() if (a is None or n >= a) and (b is None or n <= b)]

    def checkpoint(self, rng):
        from .. import harness
        m = self.model
        nums = m.numbers()
        # PEEK walk
        rows, end, raw = pg.peek_walk(self.box, budget=20 * len(nums) + 200)
        if self.inv.failures:
            self.inv.report(self.res, self.case())
            raise Abort()
        probs = pg.check_walk(rows, end, nums)
        self.res.count('peek_walks')
        if probs:
            self.fail('peek:' + probs[0][0], '; '.join(p[1] for p in probs[:3]) + ' raw=%r' % raw[:200])
        # screen LIST for short programs (same lines, as long as nothing wraps at 80 columns)
        if nums and len(nums) <= 20 and all(len(l) < 79 for l in m.listing()):
            out = self.ex(b'LIST')
            if out == b''.join(l + b'\r\n' for l in self.deviant_listing()):
                pass    # recorded deviation, already reported by the file listing of the same state
            elif out != b''.join(l + b'\r\n' for l in m.listing()):
                self.fail('list:screen-differs-from-model', 'LIST gave %r' % out[:300])
            self.res.count('screen_lists')
        if not nums:
            return
        # sub-range listing
        a = rng.choice(nums + [rng.randint(0, 65529)])
        b = rng.choice(nums + [rng.randint(0, 65529)])
        if a > b:
            a, b = b, a
        form = rng.randrange(3)
        self.observe_listing(a if form != 1 else None, b if form != 2 else None)
        self.res.count('range_lists')
        # GOTO landing
        for n in set([nums[0], nums[-1], rng.choice(nums), rng.choice(nums)]):
            exp = b''.join(self.printed[m.lines[k]] for k in nums if k >= n)
            out = self.ex(b'GOTO %d' % n, budget=4 * len(nums) + 50)
            self.res.count('goto_landings')
            if out != exp:
                code, line = harness.err_of(out)
                first = next((k for k in nums if k >= n and self.printed[m.lines[k]]), None)
                if first is not None and not out.startswith(self.printed[m.lines[first]]):
                    self.fail('goto:lands-on-wrong-line', 'GOTO %d printed %r.., expected %r..' % (n, out[:60], exp[:60]))
                self.fail('goto:following-lines-differ', 'GOTO %d printed %r, expected %r (err %r)' % (n, out[-120:], exp[-120:], code))
        # GOTO to a missing line must not land anywhere
        miss = rng.randint(0, 65529)
        if miss not in m.lines:
            out = self.ex(b'GOTO %d' % miss, budget=4 * len(nums) + 50)
            code, _ = harness.err_of(out)
            if code != 8:
                self.fail('goto:missing-line-no-error', 'GOTO %d (not stored) gave %r' % (miss, out[:100]))
            self.res.count('goto_missing_seen')


# ----------------------------------------------------------------------------------------------
# generators

def pick_universe(rng):
    """Candidate line numbers of one history: clusters, so that replacements and deletes hit."""
    u = set()
    style = rng.randrange(4)
    if style == 0:
        base = rng.randint(0, 60000)
        u.update(base + 10 * i for i in range(rng.randint(5, 40)))
    elif style == 1:
        for _ in range(rng.randint(2, 6)):
            base = rng.randint(0, 65500)
            u.update(range(base, min(65530, base + rng.randint(2, 8))))
    elif style == 2:
        u.update(rng.randint(0, 65529) for _ in range(rng.randint(8, 50)))
    else:
        step = rng.choice([1, 2, 5, 10, 100, 1000])
        u.update(range(0, min(65530, step * rng.randint(5, 50)), step))
    if rng.random() < 0.4:
        u.update([0, 1])
    if rng.random() < 0.4:
        u.update([65529, 65528, 65520])
    if rng.random() < 0.3:
        u.update([255, 256, 257, 32767, 32768, 65279, 65280])
    return sorted(n for n in u if 0 <= n <= 65529)


def gen_op(rng, d, universe):
    m = d.model
    nums = m.numbers()

    def num(existing_bias=0.0):
        if nums and rng.random() < existing_bias:
            return rng.choice(nums)
        if rng.random() < 0.9:
            return rng.choice(universe)
        return rng.randint(0, 65529)

    r = rng.random()
    if r < 0.40 or not nums:
        n = num(0.35)
        return ['store', n, d.make_text(rng)]
    if r < 0.50:
        return ['del', num(0.7)]
    if r < 0.64:
        form = rng.choice(['a-b', 'a-b', 'a-b', 'a', '-b', 'a-'])
        a, b = num(0.6), num(0.6)
        if a > b:
            a, b = b, a
        if form == 'a-' and rng.random() < 0.7 and len(nums) > 3:
            a = rng.choice(nums[len(nums) // 2:])
        if form == '-b' and rng.random() < 0.7 and len(nums) > 3:
            b = rng.choice(nums[:len(nums) // 2])
        if form == 'a-b' and rng.random() < 0.2:
            # non-existent range between two neighbours
            a = num(0.9) + 1
            b = a + rng.randint(0, 3)
        return ['delete', form, min(a, 65529), min(b, 65529)]
    if r < 0.76:
        old = rng.choice([None, None, num(0.8), num(0.2)])
        below = [n for n in nums if n < (old or 0)]
        k = len([n for n in nums if n >= (old or 0)])
        inc = rng.choice([None, None, 1, 2, 3, 10, 100, 1000, rng.randint(1, 3000)])
        cands = [None, 1, 10, 100, 1000, rng.randint(0, 65529), num(0.5)]
        if below:
            cands += [max(below), max(below) + 1, max(below) - 1, min(below)]
        if k:
            top = 65529 - (inc or 10) * (k - 1)
            cands += [top, top + 1, top - rng.randint(0, 50)]
        new = rng.choice(cands)
        if new is not None:
            new = max(1, min(65529, new))
        return ['renum', new, old, inc]
    if r < 0.84:
        pairs = []
        for _ in range(rng.randint(1, 12)):
            pairs.append([num(0.4), d.make_text(rng, 100)])
        if rng.random() < 0.6:
            pairs.sort(key=lambda p: p[0])
        kind = 'merge' if rng.random() < 0.7 else 'load_ascii'
        return [kind, 'M%d.TXT' % rng.randrange(3), pairs, rng.random() < 0.7]
    if r < 0.90:
        return ['save', rng.randrange(4), rng.choice('ABP')]
    if r < 0.97 and d.saved:
        slot = rng.choice(sorted(d.saved))
        # MERGE / CHAIN MERGE need an ASCII file
        kinds = ['load_saved', 'load_saved', 'run_saved', 'chain_saved', 'load_r_saved']
        if d.saved[slot][0] == 'A':
            kinds += ['merge_saved', 'merge_saved', 'chain_merge_saved']
        return [rng.choice(kinds), slot]
    if r < 0.985:
        return ['new']
    return ['store', num(0.5), d.make_text(rng)]


def run_history(res, spec, hseed, maxops, inv):
    from .. import harness
    rng = random.Random(hseed)
    nops = rng.choice([rng.randint(30, 80), rng.randint(80, 200), rng.randint(200, maxops)])
    universe = pick_universe(rng)
    every = rng.choice([5, 10, 20])
    with harness.Box(budget=20000) as box:
        d = Driver(box, res, inv)
        try:
            for i in range(nops):
                op = gen_op(rng, d, universe)
                d.apply(op)
                if op[0] == 'renum':
                    universe = sorted(set(universe) | set(d.model.lines))
                if (i + 1) % every == 0 or i == nops - 1:
                    d.checkpoint(rng)
        except Abort:
            res.count('histories_aborted_on_violation')
        nontrivial = 'replace' in d.flags and 'delete' in d.flags
        res.case(repr(d.history), nontrivial=nontrivial)
        res.count('operations', len(d.history))
        res.count('histories')
        return d


DIRECTED = [
    # boundary numbers, replace first/middle/last by longer and shorter text, delete and re-insert
    [['store', 10, b'PRINT "A10"'], ['store', 20, b'PRINT "A20"'], ['store', 30, b'PRINT "A30"'],
     ['store', 0, b'PRINT "A0"'], ['store', 65529, b'PRINT "A65529"'], ['cp'],
     ['store', 0, b'PRINT "B0":REM a much longer replacement of the first line ' + b'x' * 150], ['cp'],
     ['store', 20, b'PRINT "B20":REM longer replacement in the middle ' + b'y' * 100], ['cp'],
     ['store', 65529, b'PRINT "B65529":REM longer at the end ' + b'z' * 120], ['cp'],
     ['store', 0, b'PRINT "C0"'], ['store', 20, b'PRINT "C20"'], ['store', 65529, b'REM C'], ['cp'],
     ['del', 0], ['cp'], ['del', 65529], ['cp'], ['del', 20], ['cp'], ['del', 20], ['del', 5], ['cp'],
     ['store', 20, b'PRINT "D20"'], ['store', 0, b'PRINT "D0"'], ['store', 65529, b'PRINT "D65529"'], ['cp'],
     ['delete', 'a-b', 10, 30], ['cp'], ['delete', 'a-b', 10, 30], ['delete', 'a-b', 1, 65528], ['cp'],
     ['store', 15, b'PRINT "E15"'], ['delete', 'a-', 15, 0], ['cp'], ['delete', '-b', 0, 0], ['cp'],
     ['store', 7, b'PRINT "F7"'], ['delete', 'a', 7, 7], ['cp'], ['new'], ['cp']],
    # RENUM forms, accepted and rejected
    [['store', 5, b'PRINT "A5"'], ['store', 17, b'REM A17'], ['store', 18, b'PRINT "A18"'], ['store', 400, b'PRINT "A400"'],
     ['store', 65000, b'PRINT "A65000"'], ['renum', None, None, None], ['cp'], ['renum', 100, None, None], ['cp'],
     ['renum', 1000, 120, 5], ['cp'], ['renum', 110, 1000, None], ['cp'], ['renum', 111, 1000, 1], ['cp'],
     ['renum', 65525, 111, 1], ['cp'], ['renum', 65526, 111, 1], ['cp'], ['renum', 65521, 111, 2], ['cp'],
     ['renum', None, None, 0], ['cp'], ['renum', 5, 2, 1], ['cp'],
     ['renum', 1, 2, 1], ['cp'], ['renum', 2, 2, 16000], ['cp'], ['renum', 2, 2, 32000], ['cp']],
    # line number 0 through RENUM (directed reproducer of LEAD_KEY) and back to 0
    [['store', 0, b'PRINT "Z0"'], ['store', 5, b'PRINT "Z5"'], ['cp'], ['renum', None, None, None], ['cp'], ['save', 0, 'A'], ['save', 1, 'B'],
     ['load_saved', 0], ['cp'], ['load_saved', 1], ['cp'], ['store', 0, b'PRINT "Y0"'], ['renum', 100, 10, None], ['cp']],
    # every way into memory x every format, each followed by edits on top of the loaded program
    [['store', 10, b'PRINT "A10"'], ['store', 20, b'PRINT "A20"'], ['store', 30, b'PRINT "A30"'], ['save', 0, 'B'], ['save', 1, 'P'], ['save', 2, 'A'],
     ['new'], ['load_saved', 1], ['cp'], ['store', 15, b'PRINT "B15"'], ['store', 5, b'PRINT "B5"'], ['store', 40, b'PRINT "B40"'], ['cp'],
     ['del', 20], ['cp'], ['renum', None, None, None], ['cp'],
     ['run_saved', 1], ['cp'], ['store', 25, b'PRINT "C25"'], ['cp'], ['chain_saved', 1], ['cp'], ['store', 1, b'PRINT "C1"'], ['cp'],
     ['load_r_saved', 1], ['cp'], ['delete', 'a-b', 10, 20], ['store', 35, b'PRINT "D35"'], ['cp'],
     ['run_saved', 0], ['cp'], ['store', 12, b'PRINT "E12"'], ['cp'], ['chain_saved', 0], ['store', 31, b'PRINT "E31"'], ['cp'],
     ['load_r_saved', 2], ['store', 11, b'PRINT "F11"'], ['cp'], ['run_saved', 2], ['store', 21, b'PRINT "F21"'], ['cp'],
     ['chain_saved', 2], ['store', 22, b'PRINT "F22"'], ['cp'], ['new'], ['store', 20, b'PRINT "G20"'], ['store', 50, b'PRINT "G50"'],
     ['chain_merge_saved', 2], ['cp'], ['store', 45, b'PRINT "H45"'], ['merge_saved', 2], ['cp'], ['save', 3, 'P'], ['load_saved', 3], ['cp'],
     ['store', 46, b'PRINT "I46"'], ['cp']],
    # MERGE / LOAD / SAVE / NEW
    [['store', 10, b'PRINT "A10"'], ['store', 20, b'PRINT "A20"'], ['save', 0, 'B'], ['save', 1, 'A'],
     ['merge', 'M0.TXT', [[30, b'PRINT "M30"'], [20, b'PRINT "M20":REM replaced by merge'], [5, b"' M5"]], True], ['cp'],
     ['merge', 'M1.TXT', [[65529, b'PRINT "M65529"'], [0, b'PRINT "M0"'], [0, b'PRINT "M0 again"']], False], ['cp'],
     ['load_saved', 0], ['cp'], ['store', 15, b'PRINT "B15"'], ['merge_saved', 1], ['cp'], ['load_saved', 1], ['cp'],
     ['load_ascii', 'M2.TXT', [[300, b'PRINT "L300"'], [100, b'PRINT "L100"'], [200, b'REM L200']], True], ['cp'],
     ['new'], ['cp'], ['load_saved', 0], ['cp'], ['new'], ['store', 1, b'PRINT "N1"'], ['cp']],
]


def run_directed(res, inv):
    from .. import harness
    rng = random.Random('C13:directed')
    for hist in DIRECTED:
        with harness.Box(budget=20000) as box:
            d = Driver(box, res, inv)
            try:
                for op in hist:
                    if op[0] == 'cp':
                        d.checkpoint(rng)
                        continue
                    if op[0] == 'store':
                        tag = op[2].split(b'"')[1] if b'"' in op[2] else b''
                        d.printed[op[2]] = (tag + b'\r\n') if op[2].startswith(b'PRINT') else b''
                    elif op[0] in ('merge', 'load_ascii'):
                        for n, t in op[2]:
                            d.printed[t] = (t.split(b'"')[1] + b'\r\n') if t.startswith(b'PRINT') else b''
                    d.apply(list(op))
            except Abort:
                res.count('histories_aborted_on_violation')
            res.case(repr(d.history))
            res.count('operations', len(d.history))
            res.count('histories')
            res.count('directed_histories')
    # long single program: many lines, then thin it out from both ends (offsets of every later line move)
    with harness.Box(budget=60000) as box:
        d = Driver(box, res, inv)
        try:
            for i in range(150):
                t = b'PRINT "G%d":REM %s' % (i, b'p' * (i % 37))
                d.printed[t] = b'G%d\r\n' % i
                d.apply(['store', 10 + 7 * ((i * 37) % 150), t])
            d.checkpoint(rng)
            for i in range(0, 150, 3):
                d.apply(['del', 10 + 7 * i])
            d.checkpoint(rng)
            for i in range(1, 150, 3):
                t = b'PRINT "H%d"' % i
                d.printed[t] = b'H%d\r\n' % i
                d.apply(['store', 10 + 7 * i, t])
            d.checkpoint(rng)
            d.apply(['delete', 'a-b', 10 + 7 * 20, 10 + 7 * 100])
            d.checkpoint(rng)
            d.apply(['renum', 1, None, 1])
            d.checkpoint(rng)
        except Abort:
            res.count('histories_aborted_on_violation')
        res.case(repr(d.history))
        res.count('operations', len(d.history))
        res.count('histories')
        res.count('directed_histories')


def run_shard(spec, res):
    inv = rprog.ProgramInvariant().install()
    try:
        if spec['kind'] == 'directed':
            run_directed(res, inv)
        else:
            for i in range(spec['n']):
                hseed = '%s:C13:%s:%s:%d' % (spec['seed'], spec['kind'], spec.get('part', 0), i)
                d = run_history(res, spec, hseed, spec['maxops'], inv)
                if i < 1:
                    res.sample({'kind': 'history', 'first_ops': d.history[:6], 'ops': len(d.history),
                                'final_listing': d.model.listing()[:5]})
    finally:
        res.count('inv_checks', inv.checks)
        inv.report(res, {'note': 'invariant failure outside an operation'})
        inv.uninstall()
