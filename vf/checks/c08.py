"""
C08 PRINT USING produces fields of the declared width with correctly rounded digits.

Oracle: vf/models/c08_using.py (field model written from the property text and the manual) + R-NUM.
Every case is one real statement  PRINT #1, USING F$; <variable>  into a sandbox file (exact bytes, no
screen wrapping), the number planted bit-exactly through CVI/CVS/CVD; a sample goes through the
screen path (PRINT USING on the console) and through a cycled format string (two values, one field).
The field is wrapped in literal < > so the emitted field is cut out exactly.
"""
import random
from fractions import Fraction

from ..models import rnum
from ..models import c08_using as um
from ..gen import c08_gen as gen

META = {
    'property_id': 'C08',
    'technique': 'reference-model monitor: independent field model + exact rational comparison of the emitted bytes',
    'level': 'exploration',
    'level_text': (
        'Runtime oracle: each emitted field is cut out of the bytes the real PRINT USING wrote to a file (or the screen), '
        'its length compared with the declared width (or the % rule), its structure (sign, $, ** fill, commas, point, '
        'decimals, exponent part and digit positions) checked exactly against the field, and its digits compared as an '
        'exact rational with the exact stored value within half a unit of the last shown place plus one unit of the '
        "type's last significant digit (so either rounding direction is accepted at exact ties). A seed-independent "
        'product of boundary fields x boundary numbers runs in both tiers; the rest is seeded sampling of fields up to '
        '24 digit positions x numbers of all three types aimed at the field capacity; string fields with strings of '
        'length 0..255.'),
    'level_note': (
        'Trusted: Fraction arithmetic, rnum.decode, the harness. Not pinned by the statement, hence not generated or '
        'accepted either way: an optional single leading zero before the point (also when that leaves a bare point for a zero); on which side of $ a leading sign sits; '
        'a minus on a negative number whose shown digits are all zero; '
        'zero in an exponential field (GW shows no mantissa digits); exponential fields without any mantissa digit '
        'position; with $$ / **$ and ^^^^ (ruled out by the manual) only width, the % rule (not for negative numbers without a sign position), $, decimals and the value are judged, not which positions hold digits; a trailing comma in a field without point. Format strings with several fields are built so that every field boundary is unambiguous (no two numeric fields adjacent). Left-justification in \\ \\ fields '
        'and the digit positions of the exponential form are taken from the manual. String bytes 0x20-0xFF (control '
        'characters would be interpreted by the output device).'),
    'rule': ('case = (path, field spec, exact value bytes) or (path, string field, string); distinct by that triple; '
             'non-trivial = every case (each is a real PRINT USING execution with a different field/value pair)'),
    'design_ref': 'DESIGN.md section 4 C08',
    'assumptions': ['Fraction arithmetic as reference', 'field semantics as in the GW-BASIC manual'],
    'require_counters': {'any': [
        'percent_overflow_seen', 'exponent_field_seen', 'tie_seen', 'comma_grouping_seen', 'dollar_seen', 'star_fill_seen',
        'carry_into_new_digit_seen', 'negative_seen', 'path_file', 'path_screen', 'path_cycled',
        'string_cut_seen', 'string_padded_seen', 'string_first_char_seen', 'string_whole_seen',
        'mixed_formats_seen', 'mixed_adjacent_fields_seen', 'mixed_empty_string_argument_seen', 'mixed_total_length_compared',
    ]},
    'timeout': {'quick': 900, 'thorough': 10800},
}

TYPE = {2: 'integer', 4: 'single', 8: 'double'}
VAR = {2: (b'A%', b'CVI'), 4: (b'A!', b'CVS'), 8: (b'A#', b'CVD')}


REPRODUCERS = [
    # a double one ulp below 1E-9 in a field of 18 decimals: rounding to the working digits carried into an extra digit
    ([False, '', '#', True, 18, False, ''], 'a5b436415f700963'),
    ([False, '**', '#,##', True, 18, False, ''], 'a5b436415f700963'),
    # below one unit of the last decimal (rounded to zero / flagged with %)
    ([False, '', '#', True, 1, False, ''], '8fc2757c'),        # 0.06
    ([False, '', '', True, 1, False, ''], '0ad7237c'),         # 0.04
    # rounding up to the next power of ten in exponential form
    ([True, '', '#', False, 0, True, ''], '00004687'),         # 99
]


def plan(tier, seed):
    shards = [{'kind': 'directed', 'part': i, 'parts': 4} for i in range(4)]
    if tier == 'quick':
        for i in range(8):
            shards.append({'kind': 'numeric', 'n': 6000, 'part': i})
        shards.append({'kind': 'strings', 'n': 6000, 'part': 0})
        shards.append({'kind': 'screen', 'n': 2500, 'part': 0})
        for i in range(2):
            shards.append({'kind': 'mixed', 'n': 2500, 'part': i})
    else:
        for i in range(6):
            shards.append({'kind': 'mixed', 'n': 25000, 'part': i})
        for i in range(24):
            shards.append({'kind': 'numeric', 'n': 55000, 'part': i})
        for i in range(4):
            shards.append({'kind': 'strings', 'n': 40000, 'part': i})
        for i in range(4):
            shards.append({'kind': 'screen', 'n': 15000, 'part': i})
    return shards


def run_shard(spec, res):
    kind = spec['kind']
    rng = random.Random('%s:C08:%s:%s' % (spec['seed'], kind, spec.get('part', 0)))
    if kind == 'directed':
        fields = gen.directed_fields()
        values = gen.directed_values()
        cases = [(f, b) for f in fields for b in values
                 if not (f.expo and rnum.is_zero(b))][spec['part']::spec['parts']]
        if spec['part'] == 0:
            # reproducer table: (field, exact bytes) pairs that once showed a defect
            cases = [(um.NumField.from_json(j), bytes.fromhex(h)) for j, h in REPRODUCERS] + cases
        _numeric_file(res, cases)
        if spec['part'] == 0:
            _over_24(res)
        if spec['part'] == 1:
            _mixed(res, rng, 0)
    elif kind == 'numeric':
        cases = []
        for _ in range(spec['n']):
            f = gen.num_field(rng)
            b = gen.value_for(rng, f)
            if f.expo and rnum.is_zero(b):
                continue
            cases.append((f, b))
        _numeric_file(res, cases)
    elif kind == 'strings':
        _strings(res, rng, spec['n'])
    elif kind == 'screen':
        _screen(res, rng, spec['n'])
    elif kind == 'mixed':
        _mixed(res, rng, spec['n'])
    else:
        raise ValueError(kind)


def _judge(res, path, f, b, out):
    n = len(b)
    value = rnum.decode(b)
    bad, info = um.check_numeric(f, n, value, out)
    if info['overflow']:
        res.count('percent_overflow_seen')
    if info['tie']:
        res.count('tie_seen')
    if info.get('no_digits'):
        res.count('bare_point_no_digit_seen')
    if f.expo:
        res.count('exponent_field_seen')
    if value < 0:
        res.count('negative_seen')
    if b',' in out:
        res.count('comma_grouping_seen')
    if b'$' in out:
        res.count('dollar_seen')
    if f.star and out[:1] == b'*':
        res.count('star_fill_seen')
    if not f.expo and value != 0 and not bad:
        # rounding carried into a new digit: the shown integer part has more digits than the value's
        a = abs(value)
        if a >= 1:
            shown_int = len(out.split(b'.')[0].strip(b' *%+-$').replace(b',', b''))
            if shown_int > um.decimal_exponent(a) + 1:
                res.count('carry_into_new_digit_seen')
    for suffix, msg in bad:
        shape = 'exponential' if f.expo else 'fixed'
        prec = 'double' if n == 8 else 'single'     # an integer is shown as a single
        key = 'using:%s:%s' % (shape, suffix)
        if suffix.startswith('digits') or suffix == 'exponent-letter':
            key += ':' + prec
        res.violation(key,
                      '%s: %s' % (path, msg), [path, f.to_json(), b.hex(), out])
    return bad


def _numeric_file(res, cases, batch=400):
    """PRINT #1, USING "<field>"; var  for every case; the file is read back per batch."""
    from .. import harness
    sampled = 0
    with harness.Box() as box:
        for start in range(0, len(cases), batch):
            chunk = cases[start:start + batch]
            box.ex(b'OPEN "O",1,"USING.TXT"')
            wrote = []
            for f, b in chunk:
                var, cv = VAR[len(b)]
                try:
                    box.set('B$', b)
                    box.set('F$', b'<' + f.spec.encode('ascii') + b'>')
                    out = box.ex(var + b'=' + cv + b'(B$):PRINT#1,USING F$;' + var)
                except harness.Internal as e:
                    res.violation(e.key, str(e), ['file', f.to_json(), b.hex()])
                    continue
                if out:
                    code = harness.err_of(out)[0]
                    res.violation('using:error-%s-on-well-formed-field' % code,
                                  'PRINT#1,USING %r; %s -> %r' % (f.spec, float(rnum.decode(b)), out),
                                  ['file', f.to_json(), b.hex()])
                    # the statement may have written part of its line: end that line and skip it when reading back
                    box.ex(b'PRINT#1,""')
                    wrote.append(None)
                    continue
                wrote.append((f, b))
            box.ex(b'CLOSE 1')
            with open(box.path('USING.TXT'), 'rb') as fh:
                data = fh.read()
            if data.endswith(b'\x1a'):
                data = data[:-1]
            lines = data.split(b'\r\n')
            if lines and lines[-1] == b'':
                lines.pop()
            if len(lines) != len(wrote):
                res.violation('using:file-line-count', 'expected %d lines, file has %d' % (len(wrote), len(lines)),
                              ['file', [f.to_json() for f, _ in chunk[:3]]])
                continue
            for item, line in zip(wrote, lines):
                if item is None:
                    continue
                f, b = item
                res.case(('file', f.spec, b))
                res.count('path_file')
                if not (line.startswith(b'<') and line.endswith(b'>')):
                    res.violation('using:literal-delimiters', 'field %r: line %r lost the literal < >' % (f.spec, line),
                                  ['file', f.to_json(), b.hex(), line])
                    continue
                _judge(res, 'PRINT#', f, b, line[1:-1])
                if sampled < 3:
                    sampled += 1
                    res.sample({'kind': 'numeric', 'field': f.spec, 'type': TYPE[len(b)], 'value': str(rnum.decode(b)),
                                'emitted': line})


def _over_24(res):
    """24 digit positions is the limit: 25 must raise Illegal function call (the manual's rule), 24 must not."""
    from .. import harness
    with harness.Box() as box:
        for spec in (b'#' * 25, b'#' * 13 + b'.' + b'#' * 12, b'$$' + b'#' * 24, b'**' + b'#' * 23, b'**$' + b'#' * 23,
                     b'+' + b'#' * 20 + b'.#####', b'#' * 25 + b'^^^^'):
            try:
                out = box.ex(b'PRINT USING "' + spec + b'";1')
            except harness.Internal as e:
                res.violation(e.key, str(e), ['over24', spec])
                continue
            res.case(('over24', spec))
            if harness.err_of(out)[0] == 5:
                res.count('over_24_positions_illegal_function_call_seen')
            else:
                res.violation('using:25-digit-positions-accepted', 'PRINT USING %r;1 -> %r (more than 24 digit positions)'
                              % (spec, out), ['over24', spec])


def _strings(res, rng, n, batch=300):
    from .. import harness
    sampled = 0
    cases = []
    for i in range(n):
        f = gen.str_field(rng)
        cases.append((f, gen.string_value(rng, f)))
    # directed core
    for inner in (0, 1, 2, 10, 100, 251):
        for s in (b'', b'a', b'ab', b'abc', b'x' * (inner + 1), b'x' * (inner + 2), b'y' * (inner + 3), b'z' * 255):
            cases.append((um.StrField('\\', inner), s))
    for s in (b'', b' ', b'a', b'ab', b'\xff\x80', b'q' * 255):
        cases.append((um.StrField('!'), s))
        cases.append((um.StrField('&'), s))
    with harness.Box() as box:
        for start in range(0, len(cases), batch):
            chunk = cases[start:start + batch]
            box.ex(b'OPEN "O",1,"USING.TXT"')
            wrote = []
            for f, s in chunk:
                try:
                    box.set('S$', s)
                    box.set('F$', b'<' + f.spec.encode('ascii') + b'>')
                    out = box.ex(b'PRINT#1,USING F$;S$')
                except harness.Internal as e:
                    res.violation(e.key, str(e), ['string', f.to_json(), s])
                    continue
                if out:
                    res.violation('using:string:error-%s-on-well-formed-field' % harness.err_of(out)[0],
                                  'PRINT#1,USING %r; %r -> %r' % (f.spec, s[:40], out), ['string', f.to_json(), s])
                    box.ex(b'PRINT#1,""')
                    wrote.append(None)
                    continue
                wrote.append((f, s))
            box.ex(b'CLOSE 1')
            with open(box.path('USING.TXT'), 'rb') as fh:
                data = fh.read()
            if data.endswith(b'\x1a'):
                data = data[:-1]
            # every record is <...>\r\n ; the strings never contain CR or LF
            lines = data.split(b'\r\n')
            if lines and lines[-1] == b'':
                lines.pop()
            if len(lines) != len(wrote):
                res.violation('using:file-line-count', 'expected %d lines, file has %d' % (len(wrote), len(lines)),
                              ['string', [f.to_json() for f, _ in chunk[:3]]])
                continue
            for item, line in zip(wrote, lines):
                if item is None:
                    continue
                f, s = item
                res.case(('string', f.spec, s))
                res.count('path_file')
                if not (line.startswith(b'<') and line.endswith(b'>')):
                    res.violation('using:literal-delimiters', 'field %r: line %r lost the literal < >' % (f.spec, line[:60]),
                                  ['string', f.to_json(), s])
                    continue
                out = line[1:-1]
                if f.kind == '\\':
                    res.count('string_cut_seen' if len(s) > f.inner + 2 else 'string_padded_seen')
                else:
                    res.count('string_first_char_seen' if f.kind == '!' else 'string_whole_seen')
                for suffix, msg in um.check_string(f, s, out):
                    res.violation('using:' + suffix, msg, ['string', f.to_json(), s, out])
                if sampled < 2:
                    sampled += 1
                    res.sample({'kind': 'string', 'field': f.spec, 'string': s, 'emitted': line})


def _screen(res, rng, n):
    """Screen path (PRINT USING on the console) and a cycled format string (one field, two values)."""
    from .. import harness
    sampled = 0
    with harness.Box() as box:
        box.ex(b'WIDTH 80')
        # string fields on the screen path (printable ASCII, short enough not to wrap)
        for j in range(max(20, n // 20)):
            f = gen.str_field(rng)
            if f.kind == '\\' and f.inner > 60:
                f = um.StrField('\\', f.inner % 60)
            sv = bytes(rng.choice(b'abcXYZ 019.,-+#$%&!_^*') for _ in range(rng.randint(0, 70 if f.kind != '&' else 60)))
            try:
                box.set('S$', sv)
                box.set('F$', b'<' + f.spec.encode('ascii') + b'>')
                out = box.ex(b'PRINT USING F$;S$')
            except harness.Internal as e:
                res.violation(e.key, str(e), ['screen-string', f.to_json(), sv])
                continue
            res.case(('screen-string', f.spec, sv))
            res.count('path_screen_string')
            if not (out.startswith(b'<') and out.endswith(b'>\r\n')):
                res.violation('using:string:screen-output-shape', 'PRINT USING %r; %r -> %r' % (f.spec, sv, out), ['screen-string', f.to_json(), sv])
                continue
            for suffix, msg in um.check_string(f, sv, out[1:-3]):
                res.violation('using:' + suffix, 'screen: ' + msg, ['screen-string', f.to_json(), sv, out])
        for i in range(n):
            f = gen.num_field(rng)
            b = gen.value_for(rng, f)
            if f.expo and rnum.is_zero(b):
                continue
            var, cv = VAR[len(b)]
            cyc = (i % 3 == 0)
            try:
                box.set('B$', b)
                box.set('F$', b'<' + f.spec.encode('ascii') + b'>')
                if cyc:
                    b2 = gen.value_for(rng, f)
                    if len(b2) != len(b) or (f.expo and rnum.is_zero(b2)):
                        b2 = b
                    box.set('C$', b2)
                    out = box.ex(var + b'=' + cv + b'(B$):' + b'Z' + var[1:] + b'=' + cv + b'(C$):PRINT USING F$;' + var + b';Z' + var[1:])
                else:
                    out = box.ex(var + b'=' + cv + b'(B$):PRINT USING F$;' + var)
            except harness.Internal as e:
                res.violation(e.key, str(e), ['screen', f.to_json(), b.hex()])
                continue
            if harness.err_of(out)[0] or not out.endswith(b'\r\n'):
                res.violation('using:error-%s-on-well-formed-field' % harness.err_of(out)[0],
                              'PRINT USING %r; %s -> %r' % (f.spec, float(rnum.decode(b)), out), ['screen', f.to_json(), b.hex()])
                continue
            line = out[:-2]
            if len(line) > 79:
                # would wrap on the 80-column screen: not a matter of the field
                res.count('screen_line_too_long_skipped')
                continue
            if cyc:
                parts = line.split(b'><')
                if len(parts) != 2 or not line.startswith(b'<') or not line.endswith(b'>'):
                    res.violation('using:cycled-format', 'field %r with two values gave %r' % (f.spec, line),
                                  ['cycled', f.to_json(), b.hex(), b2.hex()])
                    continue
                _judge(res, 'PRINT USING (cycled, 1st)', f, b, parts[0][1:])
                _judge(res, 'PRINT USING (cycled, 2nd)', f, b2, parts[1][:-1])
                res.case(('cycled', f.spec, b, b2))
                res.count('path_cycled')
            else:
                if not (line.startswith(b'<') and line.endswith(b'>')):
                    res.violation('using:literal-delimiters', 'field %r: screen line %r lost the literal < >' % (f.spec, line),
                                  ['screen', f.to_json(), b.hex()])
                    continue
                _judge(res, 'PRINT USING (screen)', f, b, line[1:-1])
                res.case(('screen', f.spec, b))
                res.count('path_screen')
            if sampled < 2:
                sampled += 1
                res.sample({'kind': 'screen', 'field': f.spec, 'value': str(rnum.decode(b)), 'output': out})


# ---------------------------------------------------------------------------------------------------
# several fields (string and numeric) and literals in one format string

MIXED_ALPHABET = b'abcXYZ 019.,-+#$%&!_^*'      # no < | > : these delimit the fields


def _mixed_string(rng, f):
    """A string of a length chosen relative to the field: empty, shorter, equal, longer."""
    w = 1 if f.kind == '!' else (f.inner + 2 if f.kind == '\\' else 4)
    ln = rng.choice((0, 0, 1, max(0, w - 1), w, w + 1, w + 7, rng.randint(0, 30)))
    return bytes(rng.choice(MIXED_ALPHABET) for _ in range(min(ln, 60)))


def _mixed_directed():
    """Every string field kind x argument empty / shorter / equal / longer, alone, adjacent and next to numeric fields."""
    S, N = um.StrField, um.NumField
    out = []
    num = N(False, '', '###', True, 2, False, '')
    for sf in [S('!'), S('&')] + [S('\\', k) for k in (0, 1, 2, 5, 20)]:
        w = 1 if sf.kind == '!' else (sf.inner + 2 if sf.kind == '\\' else 3)
        for ln in sorted(set((0, 1, max(0, w - 1), w, w + 1, w + 10))):
            arg = (b'abcdefghijklmnopqrstuvwxyz' * 2)[:ln]
            for adjacent in (False, True):
                out.append(([sf], [arg], adjacent))
                out.append(([sf, num], [arg, b'\x00\x00\x40\x83'], adjacent))                 # 6
                out.append(([num, sf, S('!')], [b'\x00\x00\x40\x83', arg, b'Z'], adjacent))
                out.append(([S('!'), sf, S('\\', 1)], [b'', arg, b'q'], adjacent))
                out.append(([S('&'), sf, S('!')], [b'', arg, b''], adjacent))
    return out


def _mixed_random(rng):
    k = rng.randint(2, 4)
    fields, args = [], []
    adjacent = rng.random() < 0.5
    for i in range(k):
        numeric = rng.random() < 0.4 and not (adjacent and fields and isinstance(fields[-1], um.NumField))
        if numeric:
            f = gen.num_field(rng, maxpos=8)
            if adjacent:
                # next to another field a number must be sure to fit and to end unambiguously:
                # fixed-point field with at least one position left of the point, value 0..9
                f = um.NumField(f.plus_lead, f.prefix, f.ipos or '#', f.dot, f.decimals, False, f.trail)
                b = rng.choice((c07_enc(rng.randint(0, 9), 4), rng.randint(0, 9).to_bytes(2, 'little')))
            else:
                b = gen.value_for(rng, f)
                if f.expo and rnum.is_zero(b):
                    b = c07_enc(7, 4)
            fields.append(f)
            args.append(b)
        else:
            f = gen.str_field(rng)
            if f.kind == '\\' and f.inner > 20:
                f = um.StrField('\\', f.inner % 20)
            fields.append(f)
            args.append(_mixed_string(rng, f))
    return fields, args, adjacent


def c07_enc(v, n):
    from ..gen import c07_gen
    return c07_gen.encode_floor(v, n)


def _mixed(res, rng, n, batch=200):
    from .. import harness
    cases = _mixed_directed() if n == 0 else []
    for _ in range(n):
        cases.append(_mixed_random(rng))
    sampled = 0
    with harness.Box() as box:
        for start in range(0, len(cases), batch):
            chunk = cases[start:start + batch]
            box.ex(b'OPEN "O",1,"MIXED.TXT"')
            wrote = []
            for fields, args, adjacent in chunk:
                sep = b'' if adjacent else b'|'
                fmt = b'<' + sep.join(f.spec.encode('ascii') for f in fields) + b'>'
                names, assigns = [], []
                case = ['mixed', fmt, [a.hex() if not isinstance(f, um.StrField) else a for f, a in zip(fields, args)]]
                try:
                    for i, (f, a) in enumerate(zip(fields, args)):
                        if isinstance(f, um.StrField):
                            box.set('S%d$' % i, a)
                            names.append(b'S%d$' % i)
                        else:
                            var, cv = VAR[len(a)]
                            box.set('B%d$' % i, a)
                            nm = b'N%d' % i + var[1:]
                            assigns.append(nm + b'=' + cv + b'(B%d$)' % i)
                            names.append(nm)
                    box.set('F$', fmt)
                    out = box.ex(b':'.join(assigns + [b'PRINT#1,USING F$;' + b';'.join(names)]))
                except harness.Internal as e:
                    res.violation(e.key, str(e), case)
                    continue
                if out:
                    res.violation('using:mixed:error-%s-on-well-formed-format' % harness.err_of(out)[0],
                                  'PRINT#1,USING %r -> %r' % (fmt, out), case)
                    box.ex(b'PRINT#1,""')
                    wrote.append(None)
                    continue
                wrote.append((fields, args, adjacent, fmt, case))
            box.ex(b'CLOSE 1')
            with open(box.path('MIXED.TXT'), 'rb') as fh:
                data = fh.read()
            if data.endswith(b'\x1a'):
                data = data[:-1]
            lines = data.split(b'\r\n')
            if lines and lines[-1] == b'':
                lines.pop()
            if len(lines) != len(wrote):
                res.violation('using:file-line-count', 'expected %d lines, file has %d' % (len(wrote), len(lines)), ['mixed'])
                continue
            for item, line in zip(wrote, lines):
                if item is None:
                    continue
                fields, args, adjacent, fmt, case = item
                res.case(('mixed', fmt, tuple(args)))
                res.count('mixed_formats_seen')
                if adjacent:
                    res.count('mixed_adjacent_fields_seen')
                if any(isinstance(f, um.StrField) and a == b'' for f, a in zip(fields, args)):
                    res.count('mixed_empty_string_argument_seen')
                if sampled < 2:
                    sampled += 1
                    res.sample({'kind': 'mixed', 'format': fmt, 'arguments': case[2], 'emitted': line})
                if not (line.startswith(b'<') and line.endswith(b'>')):
                    res.violation('using:literal-delimiters', 'format %r: line %r lost the literal < >' % (fmt, line[:80]), case)
                    continue
                body = line[1:-1]
                widths = [um.declared_width(f, a) for f, a in zip(fields, args)]
                if adjacent:
                    # every field is sure to fit: the line is the declared widths laid end to end
                    total = sum(widths)
                    res.count('mixed_total_length_compared')
                    if len(body) != total:
                        res.violation('using:mixed:total-length', 'format %r with %r emits %d characters, the fields declare %d: %r'
                                      % (fmt, case[2], len(body), total, body[:80]), case)
                        continue
                    parts, pos = [], 0
                    for w in widths:
                        parts.append(body[pos:pos + w])
                        pos += w
                else:
                    parts = body.split(b'|')
                    if len(parts) != len(fields):
                        res.violation('using:mixed:field-count', 'format %r emits %r: %d parts for %d fields'
                                      % (fmt, body[:80], len(parts), len(fields)), case)
                        continue
                    if not any(p.startswith(b'%') for f, p in zip(fields, parts) if not isinstance(f, um.StrField)):
                        res.count('mixed_total_length_compared')
                        total = sum(widths) + len(fields) - 1
                        if len(body) != total:
                            res.violation('using:mixed:total-length', 'format %r with %r emits %d characters, fields and literals declare %d: %r'
                                          % (fmt, case[2], len(body), total, body[:80]), case)
                for f, a, part in zip(fields, args, parts):
                    if isinstance(f, um.StrField):
                        for suffix, msg in um.check_string(f, a, part):
                            res.violation('using:' + suffix, 'in %r: %s' % (fmt, msg), case)
                    else:
                        _judge(res, 'PRINT# (mixed format %r)' % fmt, f, a, part)
