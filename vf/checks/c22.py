"""
C22 READ returns DATA items in program order.

Oracle: generated programs (vf.gen.c19_progs.gen_c22) scatter DATA statements over lines and over the
statements of multi-statement lines (quoted / unquoted / empty items, numbers of all classes) and
interleave READ (scalars, array elements, lists, loops) with RESTORE and RESTORE n; every value read is
printed. The output of the real interpreter must equal the trace of R-CTRL's data-pointer model
(vf.models.c19_rctrl): item order, restart points, Out of DATA on the READ line, Syntax error on the
DATA line for a non-numeric item read into a numeric variable (also as ERL when trapped).
A directed, seed-independent core with hand-derived outputs runs in both tiers.
"""
import random

from ..gen import c19_progs as G
from . import c19 as _c19

META = {
    'property_id': 'C22',
    'technique': 'reference-model monitor (R-CTRL data-pointer model) over generated DATA layouts with interleaved READ / RESTORE',
    'level': 'exploration',
    'level_text': (
        'Runtime oracle: the values printed after every READ, the final error and its line are compared with an independent '
        'model in which DATA items form one list in line/statement order, READ advances an index, RESTORE sets it to 0 and '
        'RESTORE n to the first item whose line is >= n. Item readings (string text, numeric value) come from the generator\'s '
        'AST, not from parsing the printed text. Held = every observed program agreed.'),
    'level_note': (
        'Trusted: harness, printer. RESTORE n to a line that does not exist is taken as Undefined line number (GW-BASIC manual; the '
        'statement does not exclude it) and must leave the pointer where it was - also generated under traps and in '
        'direct-mode lines typed after the program has stopped. Not pinned, hence not generated: a DATA statement with nothing after the keyword, quotes inside '
        'unquoted items, text after a closing quote, DATA after THEN/ELSE, numeric items that are not exact in binary or too '
        'long for a short PRINT form, halves read into integer variables, the contents of the target variable after a failed READ '
        '(failed READs go to variables that are never printed). A READ that fails (non-numeric item, value beyond the integer '
        'range: Overflow on the READ line) does not consume the item: under ON ERROR with RESUME NEXT / RESUME line later READs get it again.'),
    'rule': ('case = one generated program (its text); distinct by text; non-trivial = the reference executed at least one '
             'successful READ and the program was not discarded as unpinned'),
    'design_ref': 'DESIGN.md section 4 C22',
    'assumptions': ['R-CTRL data-pointer model', 'PRINT of short exact numbers as in the GW-BASIC manual'],
    'require_counters': {'any': [
        'ref_read', 'ref_restore', 'ref_restore:line', 'ref_read:out-of-data', 'ref_read:non-numeric', 'ended_err4', 'ended_err2',
        'ended_end', 'gen_empty_item', 'gen_data_inside_multi_statement_line', 'gen_read_in_loop',
        'gen_restore_to_line_without_data', 'gen_two_data_statements_on_a_line', 'gen_trapped', 'directed_cases',
        'gen_data_item_with_unclosed_quote', 'gen_line_ending_in_unclosed_string',
        'gen_failed_read_then_resumed', 'gen_integer_overflow_planned', 'ref_read:overflow', 'ref_resume:next',
        'gen_decoy_data_in_remark', 'gen_decoy_data_in_string', 'gen_line_zero', 'gen_indented_lines',
        'gen_read_with_dependent_subscripts', 'gen_nop_before_data_scan',
        'gen_numeric_item_with_plus_sign', 'gen_restore_to_missing_line', 'gen_direct_restore_to_missing_line', 'gen_direct_reads_after_the_run', 'ref_restore:missing-line']},
    'timeout': {'quick': 600, 'thorough': 7200},
}

BUDGET = 300


def plan(tier, seed):
    shards = [{'kind': 'directed'}]
    if tier == 'quick':
        for i in range(12):
            shards.append({'kind': 'random', 'part': i, 'n': 300})
    else:
        for i in range(47):
            shards.append({'kind': 'random', 'part': i, 'n': 6000})
    return shards


E = b'\xff\r\n'
# one mechanism, however it shows (message line, ERL in a handler): the Syntax error of a non-numeric item is
# not reported on the DATA line that holds the item
DATA_LINE_KEY = 'read:non-numeric-item:error-not-reported-on-the-data-line-of-the-item'
DIRECTED = [
    ('order:lines-and-statements', ['10 DATA 1,2:PRINT "x":DATA 3', '20 READ A,B,C:PRINT A;B;C', '30 DATA 4', '40 READ D:PRINT D'],
     b'x\r\n 1  2  3 \r\n 4 \r\n'),
    ('order:data-after-the-read', ['10 READ A$:PRINT A$', '20 END', '30 DATA hello'], b'hello\r\n'),
    ('order:data-not-executed', ['10 GOTO 30', '20 DATA 7', '30 READ A:PRINT A'], b' 7 \r\n'),
    ('restore:from-the-first-item', ['10 DATA 1,2', '20 READ A:READ B:RESTORE:READ C:PRINT A;B;C'], b' 1  2  1 \r\n'),
    ('restore-line:first-data-at-or-after',
     ['10 DATA 1', '20 DATA 2', '30 PRINT "p"', '40 DATA 3', '50 RESTORE 20:READ A:RESTORE 30:READ B:RESTORE 10:READ C:PRINT A;B;C',
      '60 RESTORE 40:READ A:RESTORE 50:READ B'], b'p\r\n 2  3  1 \r\nOut of DATA in 60' + E),
    ('restore-line:data-later-on-the-named-line', ['10 DATA 1', '20 PRINT "p":DATA 2', '30 RESTORE 20:READ A:PRINT A'], b'p\r\n 2 \r\n'),
    ('restore-line:mid-list-continues', ['10 DATA 1,2', '20 DATA 3,4', '30 READ A:RESTORE 20:READ B,C:RESTORE 10:READ D:PRINT A;B;C;D'],
     b' 1  3  4  1 \r\n'),
    ('out-of-data', ['10 DATA 1', '20 PRINT "a":READ A,B:PRINT "no"'], b'a\r\nOut of DATA in 20' + E),
    ('out-of-data:no-data-at-all', ['10 PRINT "a"', '20 READ A'], b'a\r\nOut of DATA in 20' + E),
    ('type-error:reported-on-the-data-line', ['10 DATA 5,abc', '20 READ A', '30 READ B', '40 PRINT "no"'], b'Syntax error in 10' + E),
    (DATA_LINE_KEY,
     ['10 READ A', '20 PRINT "no"', '30 DATA abc'], b'Syntax error in 30' + E),
    (DATA_LINE_KEY,
     ['10 DATA 5', '20 READ A,B', '30 PRINT "no"', '40 DATA "x"'], b'Syntax error in 40' + E),
    ('type-error:trapped-erl-is-the-data-line',
     ['10 ON ERROR GOTO 100', '20 READ A,B', '30 END', '40 DATA 1,x', '100 PRINT ERR;ERL:END'], b' 2  40 \r\n'),
    (DATA_LINE_KEY,
     ['10 ON ERROR GOTO 100', '20 READ A', '30 END', '40 DATA x', '100 PRINT ERR;ERL:END'], b' 2  40 \r\n'),
    ('items:quoted-unquoted-empty',
     ['10 DATA "a,b",  c d  ,,"",5,"x:y"', '20 READ A$,B$,C$,D$,E$,F$:PRINT "[";A$;"][";B$;"][";C$;"][";D$;"][";E$;"][";F$;"]"'],
     b'[a,b][c d][][][5][x:y]\r\n'),
    ('items:unquoted-ends-at-colon', ['10 DATA ab:PRINT "p":DATA cd', '20 READ A$,B$:PRINT "[";A$;"][";B$;"]"'], b'p\r\n[ab][cd]\r\n'),
    ('items:empty-numeric-is-zero', ['10 DATA ,7,', '20 A=9:C=9:READ A,B,C:PRINT A;B;C'], b' 0  7  0 \r\n'),
    ('items:number-classes', ['10 DATA 1E2,2.5#,&H1F,-.25,7%,1.5D1,&O17, 42 ', '20 FOR I%=1 TO 8:READ X:PRINT X;:NEXT:PRINT'],
     b' 100  2.5  31 -.25  7  15  15  42 \r\n'),
    ('items:numeric-text-into-string', ['10 DATA 1E2, 2.50 ,&H1F', '20 READ A$,B$,C$:PRINT "[";A$;"][";B$;"][";C$;"]"'],
     b'[1E2][2.50][&H1F]\r\n'),
    ('items:explicit-sign-and-point-spellings', ['10 DATA +42,+.5,+1E2,+2.5E+1,5.,+7%,+0,+3#,-.5,+1.5D1', '20 FOR I%=1 TO 10:READ X:PRINT X;:NEXT:PRINT',
                                                 '30 RESTORE:READ A$,B$:PRINT "[";A$;"][";B$;"]"'],
     b' 42  .5  100  25  5  7  0  3 -.5  15 \r\n[+42][+.5]\r\n'),
    ('targets:types-and-array-elements', ['10 DATA 3,4.75,5,six', '20 DIM A%(3),T$(3)', '30 READ A%(2),B%,D#,T$(1):PRINT A%(2);B%;D#;T$(1)'],
     b' 3  5  5 six\r\n'),
    ('unclosed-string:data-item-ends-at-end-of-line',
     ['10 DATA 1,"two', '20 PRINT "start', '30 DATA 3', '40 READ A,B$,C:PRINT A;B$;C'], b'start\r\n 1 two 3 \r\n'),
    ('unclosed-string:scan-for-next-data-crosses-line-end',
     ['10 READ A$,B:PRINT A$;B', '20 A$="x', '30 DATA "a,b:c', '40 DATA 5'], b'a,b:c 5 \r\n'),
    ('unclosed-string:restore-line-after-open-literals',
     ['10 PRINT "p', '20 DATA "q', '30 DATA 7', '40 READ A$,B:RESTORE 30:READ C:PRINT A$;B;C'], b'p\r\nq 7  7 \r\n'),
    ('unclosed-string:order-over-several-lines',
     ['10 DATA 1', '20 PRINT "a:DATA 9', '30 B$="DATA 8', '40 DATA 2', '50 READ A,B:PRINT A;B'], b'a:DATA 9\r\n 1  2 \r\n'),
    ('failed-read:item-not-consumed:non-numeric-then-resume-next',
     ['10 ON ERROR GOTO 100', '20 READ A', '30 READ B$:PRINT "[";B$;"]"', '40 READ C:PRINT C', '50 END', '60 DATA 12abc,7',
      '100 PRINT ERR;ERL:RESUME NEXT'], b' 2  60 \r\n[12abc]\r\n 7 \r\n'),
    ('failed-read:item-not-consumed:integer-overflow-then-resume-next',
     ['10 ON ERROR GOTO 100', '20 READ A%', '30 READ B:PRINT B', '40 READ C:PRINT C', '50 END', '60 DATA 40000,5',
      '100 PRINT ERR;ERL:RESUME NEXT'], b' 6  20 \r\n 40000 \r\n 5 \r\n'),
    ('failed-read:item-not-consumed:fails-part-way-through-a-list',
     ['10 ON ERROR GOTO 100', '20 READ A,B,C', '30 READ D$,E:PRINT A;"[";D$;"]";E', '50 END', '60 DATA 1,x,3',
      '100 PRINT ERR;ERL:RESUME NEXT'], b' 2  60 \r\n 1 [x] 3 \r\n'),
    ('failed-read:item-not-consumed:resume-line',
     ['10 ON ERROR GOTO 100', '20 READ A', '30 PRINT "no"', '40 READ B$,C:PRINT "[";B$;"]";C', '50 END', '60 PRINT "d":DATA "q",8',
      '100 PRINT ERR;ERL:RESUME 40'], b' 2  60 \r\n[q] 8 \r\n'),
    ('failed-read:item-not-consumed:resume-retries-the-read',
     ['10 ON ERROR GOTO 100', '20 READ A', '30 READ B$:PRINT "[";B$;"]"', '50 END', '60 DATA abc',
      '100 N%=N%+1:PRINT ERR;ERL;N%:IF N%<2 THEN RESUME ELSE RESUME NEXT'], b' 2  60  1 \r\n 2  60  2 \r\n[abc]\r\n'),
    ('failed-read:out-of-data-then-restore-in-handler',
     ['10 ON ERROR GOTO 100', '20 DATA 1,2', '30 READ A,B', '35 READ C', '40 PRINT A;B;C:END', '100 PRINT ERR;ERL:RESTORE:RESUME'],
     b' 4  35 \r\n 1  2  1 \r\n'),
    ('layout:data-after-blanks-and-tabs-and-on-line-zero',
     ['0 DATA 5', '10   DATA 6', '20\tDATA 7', '30 PRINT "p" :   DATA 8', '40 READ A,B,C,D:PRINT A;B;C;D'], b'p\r\n 5  6  7  8 \r\n'),
    ('layout:restore-to-indented-data-lines',
     ['10 DATA 1', '20     DATA 2', '30 \t DATA 3', '40 RESTORE 20:READ A:RESTORE 30:READ B:RESTORE 25:READ C', '25  PRINT "p"',
      '50 PRINT A;B;C'], b'p\r\n 2  3  3 \r\n'),
    ('decoy:data-in-remarks-and-string-literals',
     ['10 REM DATA 1:DATA 2', "20 PRINT \"DATA 3\" : ' DATA 4", '30 A$="x:DATA 5', '40   DATA 6', "50 '  DATA 7", '60 READ A:PRINT A:READ B'],
     b'DATA 3\r\n 6 \r\nOut of DATA in 60' + E),
    ('read-list:later-subscripts-use-values-read-earlier-in-the-list',
     ['10 DATA 2,7,1,9', '20 N=5:READ N,A(N):PRINT N;A(2);A(5)', '30 READ N,A(N):PRINT N;A(1);A(2)'], b' 2  7  0 \r\n 1  9  7 \r\n'),
    ('read-list:later-subscripts-use-values-read-earlier-in-the-list',
     ['10 DATA 1,3,9', '20 READ I%,J%(I%),K(J%(I%)):PRINT I%;J%(1);K(3);J%(0);K(0)'], b' 1  3  9  0  0 \r\n'),
    ('read-list:later-subscripts-use-values-read-earlier-in-the-list',
     ['10 DATA 1,5,2,6', '20 READ N%,C%(N%),N%,C%(N%):PRINT N%;C%(0);C%(1);C%(2)'], b' 2  0  5  6 \r\n'),
    ('failed-restore:pointer-stays:trapped-then-read',
     ['10 ON ERROR GOTO 100', '20 DATA 1,2,3', '30 READ A,B', '40 RESTORE 25', '50 READ C:PRINT A;B;C', '60 END', '100 PRINT ERR;ERL:RESUME NEXT'],
     b' 8  40 \r\n 1  2  3 \r\n'),
    ('failed-restore:pointer-stays:restore-beyond-last-data-is-legal',
     ['10 DATA 1,2', '20 READ A', '30 PRINT "p"', '40 RESTORE 30:READ B'], b'p\r\nOut of DATA in 40' + E),
    ('read-in-subroutine-and-loop', ['10 FOR I%=1 TO 3:GOSUB 100:NEXT:END', '20 DATA 1,2', '100 READ A:PRINT A;:RETURN', '110 DATA 3'],
     b' 1  2  3 '),
]


# (key, program, direct-mode lines typed after the run, expected total output)
DIRECTED_AFTER = [
    ('failed-restore:pointer-stays:direct-mode-after-the-program-stopped',
     ['10 DATA a,b,c', '20 READ A$', '30 RESTORE 25', '40 PRINT "no"'], ['READ B$:PRINT "[";B$;"]"', 'RESTORE 35:READ C$', 'READ C$:PRINT "[";C$;"]"'],
     b'Undefined line number in 30' + E + b'[b]\r\nUndefined line number' + E + b'[c]\r\n'),
    ('direct-read-after-end:pointer-is-kept',
     ['10 DATA 1,2,3', '20 READ A:END'], ['READ B:PRINT B', 'RESTORE 10:READ C:PRINT C', 'RESTORE 11', 'READ D:PRINT D'],
     b' 2 \r\n 1 \r\nUndefined line number' + E + b' 2 \r\n'),
]


def _directed(res):
    from .. import harness
    for key, lines, after, expected in DIRECTED_AFTER:
        blines = [l.encode('ascii') for l in lines]
        res.case(('directed', tuple(lines), tuple(after)))
        res.count('directed_cases')
        try:
            with harness.Box(budget=2000) as box:
                out = box.run(blines, budget=2000)
                for t in after:
                    out += box.ex(t.encode('ascii'), 2000)
        except harness.Internal as e:
            res.violation(e.key, str(e), {'lines': blines, 'after': after})
            continue
        if out != expected:
            res.violation('directed:' + key, 'program %r then direct lines %r printed %r, reference semantics give %r' % (lines, after, out, expected),
                          {'lines': blines, 'after': after, 'output': out, 'expected': expected})
    for key, lines, expected in DIRECTED:
        blines = [l.encode('ascii') for l in lines]
        res.case(('directed', tuple(lines)))
        res.count('directed_cases')
        try:
            with harness.Box(budget=2000) as box:
                out = box.run(blines, budget=2000)
        except harness.Internal as e:
            res.violation(e.key, str(e), {'lines': blines})
            continue
        if out != expected:
            res.violation(key if key == DATA_LINE_KEY else 'directed:' + key, 'program %r printed %r, reference semantics give %r' % (lines, out, expected),
                          {'lines': blines, 'output': out, 'expected': expected})
    res.sample({'kind': 'directed', 'program': DIRECTED[4][1], 'expected': DIRECTED[4][2]})


def _rekey(key):
    if key in ('diverge-after:trap:error-on-data-line', 'end:err2:reported-line-differs:error-on-data-line'):
        return DATA_LINE_KEY
    return key


def _did_read(m):
    return m.counts.get('read', 0) > 0


def run_shard(spec, res):
    if spec['kind'] == 'directed':
        return _directed(res)
    from .. import harness
    rng = random.Random('%s:C22:%s:%s' % (spec['seed'], spec['kind'], spec.get('part', 0)))
    for i in range(spec['n']):
        prog = G.gen_c22(rng)
        for name, n in prog['features'].items():
            res.count('gen_' + name, n)
        v = _c19.run_and_judge(prog, BUDGET, res, harness, nontrivial=_did_read, rekey=_rekey)
        if i < 1 and spec.get('part', 0) < 3:
            lines, _ = G.to_basic(prog)
            res.sample({'kind': 'random', 'program': lines[:30],
                        'reference_trace_head': bytes(v.machine.out[:200]) if v and v.machine else None})
