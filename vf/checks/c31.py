"""
C31 Drawing primitives have their specified geometry (unclipped screen, every graphics mode).

Oracle (R-GFX predicates on pixel-snapshot diffs; no line-rasterisation model):

 PSET      colour chosen != the pixel's current attribute: the diff must be exactly that one pixel,
           its new attribute the colour, and POINT(x,y) must return it.
 LINE,B,BF the drawn SET is measured exactly on an arbitrary random background by drawing the same
           statement twice, in colour c1 then c2 != c1: every drawn pixel is c1 after pass one and c2
           after pass two, so drawn set == diff(pass1, pass2); pass one must not touch anything else.
             solid LINE : |set| = max(|dx|,|dy|)+1, both end points, one pixel per major-axis step,
                          consecutive pixels 8-adjacent
             ,B         : set == rectangle outline          ,BF : set == full rectangle
 GET + PUT ..,PSET at the same place: page unchanged.   PUT ..,XOR twice: page restored.
"""
import random
import time

from .. import harness
from ..models import gfx

META = {
    'property_id': 'C31',
    'technique': 'pixel-snapshot diff on a random background + geometric predicates (count, end points, major-axis step, 8-adjacency, exact rectangle sets)',
    'level': 'exploration',
    'level_text': (
        'Runtime oracle on the real interpreter in every graphics mode of every adapter (31 adapter/mode pairs, 1/2/4 bits per pixel, '
        'packed, planar and Tandy-6 sprite layouts): each PSET / solid LINE / LINE,B / LINE,BF is executed on a randomly patterned '
        'unclipped screen and the set of pixels it draws is measured exactly (two passes in different colours) and compared with the '
        'statement\'s clauses; GET+PUT PSET and double PUT XOR are checked for sprites 1..70 pixels wide (all residues mod 8) and '
        '1..40 high. Besides page 0 the oracle runs on non-zero active pages (active = or <> visible) reached by SCREEN m,,a,v and by MODE changes that keep the page numbers (SCREEN other,,a,v : SCREEN m,,a,v), always reading the buffer of the page the last SCREEN statement made active. A seed-independent core enumerates all 225 displacement vectors with |dx|,|dy| <= 7, the screen corners and edges, '
        'degenerate rectangles and every sprite width 1..18, 31..33, 63..65, 70 at 8 horizontal alignments.'),
    'level_note': (
        'Every coordinate form is covered (absolute, STEP on the first / second / both points, omitted first point, PSET/PRESET STEP, GET ..-STEP, CIRCLE STEP compared with its absolute form) after a history statement moved the last referenced point; that point is OBSERVED through POINT(0)/POINT(1), the second point with STEP is taken relative to the first (GW-BASIC manual), and POINT(0)/POINT(1) afterwards must be the last point the statement referenced (key coord:last-point-after:<PRIM>). The statement does not pin WHICH 8-connected path a line takes (rounding), nor default colours, styles or clipped cases: not tested. '
        'Colour NUMBERS beyond the mode\'s highest attribute (up to 255) are written for PSET/PRESET, LINE, B, BF (expected: the highest attribute, the documented clamping), and for CIRCLE and DRAW C; every pixel a statement stores and every pixel of the page afterwards must be an attribute of the mode (read from the page buffer). PUT is also checked pixel by pixel for every action verb and for the omitted verb (= XOR) on the random background: target := op(target, image) with the image taken from the snapshot of the GET rectangle (verb semantics from the GW-BASIC manual; the width GET records per requested pixel is observed once per session, 2 in Tandy/PCjr SCREEN 6). GET may legitimately refuse a rectangle (Tandy SCREEN 6 reads twice the width): a refused GET/PUT pair is counted (sprite_rejected) '
        'and only the literal clause (screen unchanged / restored) is checked. Trusted: page-buffer read (validated against Session.get_pixels), '
        'determinism of a statement executed twice.'),
    'rule': ('case = (mode, primitive, coordinates, colours[, sprite source rectangle]); distinct by that tuple; non-trivial = the statement '
             'ran without error and (for sprites) covered at least one pixel; background contents differ for every case'),
    'design_ref': 'DESIGN.md section 4 C31',
    'assumptions': ['a statement repeated with another colour draws the same pixel set'],
    'require_counters': {'any': ['colour_number_beyond_range', 'colour_cases_circle', 'colour_cases_draw', 'verb_pset', 'verb_preset', 'verb_and', 'verb_or', 'verb_xor', 'verb_omitted', 'verb_cases_changing_pixels', 'xor_twice_verb_omitted', 'form_step_abs', 'form_abs_step', 'form_omit_abs', 'form_omit_step', 'form_step_step', 'form_pset_step', 'form_get_step', 'circle_step_cases', 'last_point_elsewhere', 'last_point_matched', 'history_nonzero_page', 'history_mode_change_keeping_pages', 'history_active_ne_visible', 'pset_cases', 'line_cases', 'lines_steep', 'lines_shallow', 'lines_diagonal', 'lines_axis_parallel',
                                 'box_cases', 'boxfill_cases', 'getput_cases', 'xor_cases', 'xor_changed_seen',
                                 'sprite_width_not_multiple_of_8', 'bpp_1', 'bpp_2', 'bpp_4', 'point_matched']},
    'timeout': {'quick': 900, 'thorough': 3600},
}


def plan(tier, seed):
    labels = [m['label'] for m in gfx.GRAPHICS_MODES]
    shards = []
    if tier == 'quick':
        groups = gfx.balanced_groups(labels, 12, lambda l: 3.0 + 6e-6 * gfx.mode_cost(gfx.MODE_BY_LABEL[l]))
        for i, g in enumerate(groups):
            shards.append({'kind': 'geom', 'modes': g, 'n': 550, 'part': i, 'directed': True})
    else:
        for l in labels:
            for p in range(4):
                shards.append({'kind': 'geom', 'modes': [l], 'n': 2500, 'part': '%s.%d' % (l, p), 'directed': p == 0})
    return shards


class Ctx(object):

    def __init__(self, g, res):
        self.g = g
        self.res = res
        self.n = 0

    # -- helpers -------------------------------------------------------------------------
    def pixel(self, snap, x, y):
        return snap[y * self.g.w + x]

    def two_colours(self, rng):
        n = self.g.nattr
        c1 = rng.randrange(n) if rng.random() < 0.7 else n - 1
        c2 = rng.choice([c for c in range(n) if c != c1])
        if rng.random() < 0.3:
            c1, c2 = c2, c1
        return c1, c2

    def number_for(self, rng, attr):
        """
        The colour NUMBER written in the statement for attribute `attr`: the attribute itself, or - for the
        highest attribute - any number up to 255 (numbers beyond the mode's range give the highest attribute).
        """
        n = self.g.nattr
        if attr == n - 1 and n <= 255 and rng.random() < 0.45:
            self.res.count('colour_number_beyond_range')
            return rng.choice([n, n + 1, 15 if n <= 15 else 16, 16, 127, 255, rng.randint(n, 255)])
        return attr

    def valid_page(self, snap, what, case):
        top = max(snap)
        if top >= self.g.nattr:
            i = snap.index(top)
            self.res.violation('colour:attribute-out-of-range-in-page',
                               '%s: after %s pixel (%d,%d) holds %d; the mode has attributes 0..%d' % (
                                   self.g.mode['label'], what, i % self.g.w, i // self.g.w, top, self.g.nattr - 1), case)

    def colour_case(self, rng, prim):
        """CIRCLE / DRAW with a colour number beyond the range: every pixel they change must hold the highest attribute."""
        g, res = self.g, self.res
        n = g.nattr
        num = rng.choice([n, n + 1, 16, 31, 100, 255, rng.randint(n, 255)])
        exp = n - 1
        cx, cy = rng.randint(30, g.w - 31), rng.randint(30, g.h - 31)
        if prim == 'CIRCLE':
            stmt = b'CIRCLE(%d,%d),%d,%d' % (cx, cy, rng.randint(1, 25), num)
        else:
            stmt = b'DRAW "BM%d,%d C%d R%d D%d L%d"' % (cx, cy, num, rng.randint(1, 20), rng.randint(1, 20), rng.randint(1, 20))
        case = {'mode': g.mode['label'], 'prim': prim, 'stmt': stmt, 'colour_number': num}
        s0 = g.active()
        if not self.run(stmt, 'colour', case):
            return
        s1 = g.active()
        d = gfx.diff_points(s0, s1, g.w, g.h)
        res.case(('colour', (g.mode['label'], g.apage, g.vpage), stmt))
        res.count('colour_cases_' + prim.lower())
        bad = [q for q in d if s1[q[1] * g.w + q[0]] != exp]
        if bad:
            x, y = bad[0]
            res.violation('colour:stored-attribute:' + prim, '%s: %s stored %d at (%d,%d); colour number %d denotes attribute %d' % (
                g.mode['label'], stmt.decode(), s1[y * g.w + x], x, y, num, exp), case)
        self.valid_page(s1, stmt.decode(), case)

    def run(self, stmt, kind, case):
        """Direct-mode statement that the property says must work: an error is a refutation."""
        try:
            code = self.g.direct(stmt)
        except harness.Internal as e:
            self.res.violation(e.key, '%s: %s: %s' % (self.g.mode['label'], stmt.decode('latin-1'), e), case)
            raise
        if code:
            self.res.violation('%s:error' % kind, '%s: %s raised error %d on an unclipped screen' % (
                self.g.mode['label'], stmt.decode('latin-1'), code), case)
            return False
        return True

    def drawn_set(self, fmt, kind, rng, case, pre2=None):
        """Two-pass measurement: -> (set of drawn pixels) or None; reports colour / stray faults.
        pre2: called before the second pass (re-establishes the last referenced point for STEP forms)."""
        g, res = self.g, self.res
        c1, c2 = self.two_colours(rng)
        case['colours'] = [c1, c2]
        n1, n2 = self.number_for(rng, c1), self.number_for(rng, c2)
        case['colour_numbers'] = [n1, n2]
        s0 = g.active()
        if not self.run(fmt % n1, kind, case):
            return None
        if pre2 is not None:
            pre2()
        s1 = g.active()
        if not self.run(fmt % n2, kind, case):
            return None
        s2 = g.active()
        self.valid_page(s2, (fmt % n2).decode('latin-1'), case)
        w, h = g.w, g.h
        d = gfx.diff_points(s1, s2, w, h)
        dset = set(d)
        bad = [p for p in d if s1[p[1] * w + p[0]] != c1 or s2[p[1] * w + p[0]] != c2]
        if bad:
            res.violation('%s:colour' % kind, '%s: %s: pixel %r drawn with an attribute other than the one given' % (
                g.mode['label'], (fmt % c1).decode('latin-1'), bad[0]), case)
        first = gfx.diff_points(s0, s1, w, h)
        stray = [p for p in first if p not in dset]
        if stray:
            res.violation('%s:not-repeatable' % kind, '%s: %s changed %r which the same statement in another colour left alone' % (
                g.mode['label'], (fmt % c1).decode('latin-1'), stray[0]), case)
        return dset

    # -- coordinate forms -----------------------------------------------------------------
    # STEP coordinates are relative to the last referenced point, which is OBSERVED through
    # POINT(0)/POINT(1) after a history statement left it somewhere else; the second point of
    # LINE/GET given with STEP is relative to the first point (GW-BASIC manual).  The geometry
    # oracle is applied to the coordinates so resolved.
    LINE_FORMS = ['abs-abs', 'step-abs', 'abs-step', 'omit-abs', 'omit-step', 'step-step']

    def lastpoint(self):
        try:
            return (self.g.box.ev(b'POINT(0)'), self.g.box.ev(b'POINT(1)'))
        except harness.Internal as e:
            self.res.violation(e.key, 'POINT(0)/POINT(1): %s' % e, {'mode': self.g.mode['label']})
            raise

    def history(self, rng, kind=None):
        """Leave the last referenced point somewhere else with an ordinary statement; -> observed (x, y) or None."""
        g = self.g
        hx, hy = rng.randint(2, g.w - 3), rng.randint(2, g.h - 3)
        kind = kind or rng.choice(['pset', 'line', 'line-b', 'circle', 'draw', 'draw-move', 'none'] * 5 + ['paint'])
        c = rng.randrange(g.nattr)
        if kind == 'pset':
            g.direct(b'PSET(%d,%d),%d' % (hx, hy, c))
        elif kind == 'line':
            g.direct(b'LINE(%d,%d)-(%d,%d),%d' % (rng.randrange(g.w), rng.randrange(g.h), hx, hy, c))
        elif kind == 'line-b':
            g.direct(b'LINE(%d,%d)-(%d,%d),%d,B' % (max(0, hx - 9), max(0, hy - 5), hx, hy, c))
        elif kind == 'circle':
            g.direct(b'CIRCLE(%d,%d),%d,%d' % (hx, hy, rng.randint(0, 12), c))
        elif kind == 'draw':
            g.direct(b'DRAW "BM%d,%d"' % (hx, hy))
        elif kind == 'draw-move':
            g.direct(b'DRAW "BM%d,%d C%d S4 R2 BU1"' % (min(hx, g.w - 5), max(hy, 2), c))
        elif kind == 'paint':
            g.direct(b'PAINT(%d,%d),%d,%d' % (hx, hy, c, c))
        self.res.count('history_' + kind.replace('-', '_'))
        lp = self.lastpoint()
        if lp[0] != int(lp[0]) or lp[1] != int(lp[1]):
            return None
        return (int(lp[0]), int(lp[1]))

    def repoint(self, lp):
        """Make lp the last referenced point again without changing the picture."""
        g = self.g
        snap = g.active()
        g.direct(b'PSET(%d,%d),%d' % (lp[0], lp[1], snap[lp[1] * g.w + lp[0]]))

    def onscreen(self, p):
        return p is not None and 0 <= p[0] < self.g.w and 0 <= p[1] < self.g.h

    def two_point_form(self, rng, p0, p1, form):
        """-> (form, coordinate text, resolved p0, resolved p1, lp)"""
        lp = self.history(rng)
        if not self.onscreen(lp):
            form = 'abs-abs' if form.startswith(('omit', 'step')) else form
        if form.startswith('omit'):
            p0 = lp
        a = {'abs': b'(%d,%d)' % p0, 'omit': b''}.get(form.split('-')[0])
        if a is None:
            a = b'STEP(%d,%d)' % (p0[0] - lp[0], p0[1] - lp[1])
        if form.endswith('-abs'):
            b = b'(%d,%d)' % p1
        else:
            b = b'STEP(%d,%d)' % (p1[0] - p0[0], p1[1] - p0[1])
        self.res.count('form_' + form.replace('-', '_'))
        if lp is not None and lp != p0:
            self.res.count('last_point_elsewhere')
        return form, a + b'-' + b, p0, p1, lp

    def check_lastpoint(self, expect, prim, case):
        lp = self.lastpoint()
        if (lp[0], lp[1]) != (expect[0], expect[1]):
            self.res.violation('coord:last-point-after:' + prim,
                               '%s: after %s POINT(0),POINT(1) = %r, expected %r' % (self.g.mode['label'], case.get('stmt', prim), lp, expect), case)
        else:
            self.res.count('last_point_matched')

    def circle_step(self, rng, centre, r):
        """CIRCLE STEP(dx,dy),r,c must draw the set CIRCLE (x,y),r,c draws for the resolved centre."""
        g, res = self.g, self.res
        lp = self.history(rng)
        if not self.onscreen(lp):
            return
        case = {'mode': g.mode['label'], 'prim': 'CIRCLE STEP', 'last_point': list(lp), 'centre': list(centre), 'r': r}
        fmt = b'CIRCLE STEP(%d,%d),%d,%%d' % (centre[0] - lp[0], centre[1] - lp[1], r)
        case['stmt'] = (fmt % 0).decode()
        d1 = self.drawn_set(fmt, 'circle', rng, case, pre2=lambda: self.repoint(lp))
        if d1 is None:
            return
        self.check_lastpoint(centre, 'CIRCLE', case)
        d2 = self.drawn_set(b'CIRCLE(%d,%d),%d,%%d' % (centre[0], centre[1], r), 'circle', rng, case)
        if d2 is None:
            return
        res.case(('circle-step', (g.mode['label'], g.apage, g.vpage), lp, centre, r))
        res.count('circle_step_cases')
        if d1 != d2:
            res.violation('coord:step-form-differs-from-absolute:CIRCLE',
                          '%s: last point %r: %s drew %d pixels, CIRCLE(%d,%d),%d drew %d' % (
                              g.mode['label'], lp, case['stmt'], len(d1), centre[0], centre[1], r, len(d2)), case)

    # -- PUT action verbs -----------------------------------------------------------------
    VERBS = [b',PSET', b',PRESET', b',AND', b',OR', b',XOR', b'']

    def width_factor(self):
        """
        How many pixels wide is the image GET records for a rectangle asked n wide?  OBSERVED once per
        session on a prepared patch (uniform source, zero target) - 1 everywhere except Tandy/PCjr
        SCREEN 6, whose GET reads twice the width.  None if it cannot be established.
        """
        g = self.g
        if hasattr(g, 'wf'):
            return g.wf
        g.wf = None
        c = g.nattr - 1
        if g.direct(b'LINE(0,0)-(63,3),0,BF:LINE(0,6)-(63,7),%d,BF:GET(0,6)-(7,7),A%%' % c) == 0:
            s0 = g.active()
            if g.direct(b'PUT(0,0),A%,PSET') == 0:
                d = gfx.diff_points(s0, g.active(), g.w, g.h)
                if d:
                    xs, ys = [p[0] for p in d], [p[1] for p in d]
                    wpx = max(xs) + 1
                    if min(xs) == 0 and min(ys) == 0 and max(ys) == 1 and wpx % 8 == 0 and len(d) == 2 * wpx:
                        g.wf = wpx // 8
        return g.wf

    def put_verb(self, rng, src, dst, verb):
        """
        GET src=(x0,y0,sw,sh), then PUT dst=(x,y) with `verb` on the (random, non-blank) background: the page
        must become  old with the target rectangle replaced by  op(old target, source image)  pixel by pixel:
        PSET image, PRESET image XOR highest attribute, AND / OR / XOR bitwise, no verb = XOR (GW-BASIC manual).
        """
        g, res = self.g, self.res
        wf = self.width_factor()
        if wf is None:
            res.count('verb_oracle_skipped')
            return
        x0, y0, sw, sh = src
        ew = wf * sw
        dx, dy = dst
        if x0 + ew > g.w or dx + ew > g.w or y0 + sh > g.h or dy + sh > g.h:
            return
        name = verb[1:].decode() if verb else 'omitted'
        case = {'mode': g.mode['label'], 'prim': 'PUT ' + name, 'get': [x0, y0, x0 + sw - 1, y0 + sh - 1], 'put': [dx, dy], 'width_factor': wf}
        s0 = g.active()
        stmt = b'PUT(%d,%d),A%%' % (dx, dy) + verb
        try:
            c1 = g.direct(b'GET(%d,%d)-(%d,%d),A%%' % (x0, y0, x0 + sw - 1, y0 + sh - 1))
            c2 = g.direct(stmt) if not c1 else 0
        except harness.Internal as e:
            res.violation(e.key, '%s: GET/PUT %r: %s' % (g.mode['label'], case, e), case)
            raise
        if c1 or c2:
            res.count('sprite_rejected')
            res.case(('verb', (g.mode['label'], g.apage, g.vpage), src, dst, name), nontrivial=False)
            return
        s1 = g.active()
        w = g.w
        top = g.nattr - 1
        exp = bytearray(s0)
        for r in range(sh):
            so, do = (y0 + r) * w + x0, (dy + r) * w + dx
            S, B = s0[so:so + ew], s0[do:do + ew]
            if name == 'PSET':
                row = S
            elif name == 'PRESET':
                row = bytes(v ^ top for v in S)
            elif name == 'AND':
                row = bytes(a & b for a, b in zip(B, S))
            elif name == 'OR':
                row = bytes(a | b for a, b in zip(B, S))
            else:
                row = bytes(a ^ b for a, b in zip(B, S))
            exp[do:do + ew] = row
        exp = bytes(exp)
        res.case(('verb', (g.mode['label'], g.apage, g.vpage), src, dst, name))
        res.count('verb_' + name.lower())
        if exp != s0:
            res.count('verb_cases_changing_pixels')
        if s1 != exp:
            d = gfx.diff_points(exp, s1, g.w, g.h, limit=4)
            x, y = d[0]
            res.violation('sprite:verb:' + name,
                          '%s: GET(%d,%d)-(%d,%d), %s: pixel (%d,%d) is %d, expected %d (was %d); %d+ pixels wrong' % (
                              g.mode['label'], x0, y0, x0 + sw - 1, y0 + sh - 1, stmt.decode(), x, y, s1[y * w + x], exp[y * w + x],
                              s0[y * w + x], len(d)), case)

    # -- primitives ----------------------------------------------------------------------
    def pset(self, rng, x, y, form=None):
        g, res = self.g, self.res
        s0 = g.active()
        old = self.pixel(s0, x, y)
        c = rng.choice([k for k in range(g.nattr) if k != old] + ([g.nattr - 1] * 2 if old != g.nattr - 1 else []))
        case = {'mode': g.mode['label'], 'prim': 'PSET', 'xy': [x, y], 'colour': c, 'old': old}
        stmt = b'PSET(%d,%d),%d' % (x, y, self.number_for(rng, c))
        if form is not None:
            # form = ('PSET' | 'PRESET', step?)
            lp = self.history(rng, kind=rng.choice(['pset', 'line', 'circle', 'draw', 'draw-move']))
            s0 = g.active()
            old = self.pixel(s0, x, y)
            c = rng.choice([k for k in range(g.nattr) if k != old] + ([g.nattr - 1] * 2 if old != g.nattr - 1 else []))
            word, step = form
            if step and self.onscreen(lp):
                stmt = b'%s STEP(%d,%d),%d' % (word, x - lp[0], y - lp[1], self.number_for(rng, c))
                res.count('form_pset_step')
                if lp != (x, y):
                    res.count('last_point_elsewhere')
            else:
                stmt = b'%s(%d,%d),%d' % (word, x, y, self.number_for(rng, c))
            case.update({'colour': c, 'old': old, 'last_point': list(lp) if lp else None, 'stmt': stmt})
        if not self.run(stmt, 'pset', case):
            res.case(('pset', (g.mode['label'], g.apage, g.vpage), x, y, c), nontrivial=False)
            return
        s1 = g.active()
        d = gfx.diff_points(s0, s1, g.w, g.h, limit=5)
        res.case(('pset', (g.mode['label'], g.apage, g.vpage), x, y, c, old))
        res.count('pset_cases')
        if len(d) != 1:
            res.violation('pset:pixel-count', '%s: %s changed %d pixels %r' % (g.mode['label'], stmt.decode(), len(d), d[:4]), case)
        elif d[0] != (x, y):
            res.violation('pset:wrong-pixel', '%s: %s changed %r' % (g.mode['label'], stmt.decode(), d[0]), case)
        elif self.pixel(s1, x, y) != c:
            res.violation('pset:colour', '%s: %s stored attribute %d' % (g.mode['label'], stmt.decode(), self.pixel(s1, x, y)), case)
        try:
            pv = g.point(x, y)
        except harness.Internal as e:
            res.violation(e.key, 'POINT(%d,%d): %s' % (x, y, e), case)
            raise
        self.valid_page(s1, stmt.decode(), case)
        if form is not None:
            self.check_lastpoint((x, y), 'PSET', case)
        if pv != c:
            res.violation('pset:point-mismatch', '%s: after %s POINT(%d,%d) = %r' % (g.mode['label'], stmt.decode(), x, y, pv), case)
        else:
            res.count('point_matched')
        if self.n < 1:
            res.sample(dict(case, point=pv, changed=d))

    def line(self, rng, p0, p1, form=None):
        g, res = self.g, self.res
        pre2 = None
        coords = b'(%d,%d)-(%d,%d)' % (p0[0], p0[1], p1[0], p1[1])
        lp = None
        if form is not None:
            form, coords, p0, p1, lp = self.two_point_form(rng, p0, p1, form)
            if lp is not None and self.onscreen(lp):
                pre2 = lambda: self.repoint(lp)
        case = {'mode': g.mode['label'], 'prim': 'LINE', 'p0': list(p0), 'p1': list(p1), 'form': form, 'last_point': list(lp) if lp else None,
                'stmt': 'LINE' + coords.decode()}
        fmt = b'LINE ' + coords + b',%d'
        d = self.drawn_set(fmt, 'line', rng, case, pre2)
        if d is not None and form is not None:
            self.check_lastpoint(p1, 'LINE', case)
        if d is None:
            res.case(('line', (g.mode['label'], g.apage, g.vpage), p0, p1), nontrivial=False)
            return
        res.case(('line', (g.mode['label'], g.apage, g.vpage), p0, p1, tuple(case['colours'])))
        res.count('line_cases')
        dx, dy = abs(p1[0] - p0[0]), abs(p1[1] - p0[1])
        res.maxc('max_line_length', max(dx, dy) + 1)
        if dx == 0 or dy == 0:
            res.count('lines_axis_parallel')
        elif dx == dy:
            res.count('lines_diagonal')
        elif dy > dx:
            res.count('lines_steep')
        else:
            res.count('lines_shallow')
        for f in gfx.line_faults(d, p0, p1):
            res.violation('line:' + f, '%s: LINE(%d,%d)-(%d,%d) drew %d pixels (expected %d): %r' % (
                g.mode['label'], p0[0], p0[1], p1[0], p1[1], len(d), max(dx, dy) + 1, sorted(d)[:12]), case)
        if self.n < 2:
            res.sample(dict(case, pixels_drawn=len(d)))

    def box(self, rng, p0, p1, filled, form=None):
        g, res = self.g, self.res
        kind = 'boxfill' if filled else 'box'
        pre2 = None
        coords = b'(%d,%d)-(%d,%d)' % (p0[0], p0[1], p1[0], p1[1])
        lp = None
        if form is not None:
            form, coords, p0, p1, lp = self.two_point_form(rng, p0, p1, form)
            if lp is not None and self.onscreen(lp):
                pre2 = lambda: self.repoint(lp)
        case = {'mode': g.mode['label'], 'prim': 'LINE,' + ('BF' if filled else 'B'), 'p0': list(p0), 'p1': list(p1), 'form': form,
                'last_point': list(lp) if lp else None, 'stmt': 'LINE' + coords.decode() + (',BF' if filled else ',B')}
        fmt = b'LINE ' + coords + b',%d,' + (b'BF' if filled else b'B')
        d = self.drawn_set(fmt, kind, rng, case, pre2)
        if d is not None and form is not None:
            self.check_lastpoint(p1, 'LINE', case)
        if d is None:
            res.case((kind, g.mode['label'], p0, p1), nontrivial=False)
            return
        res.case((kind, g.mode['label'], p0, p1, tuple(case['colours'])))
        res.count(kind + '_cases')
        exp = gfx.rect_set(p0[0], p0[1], p1[0], p1[1]) if filled else gfx.outline_set(p0[0], p0[1], p1[0], p1[1])
        if d != exp:
            missing = sorted(exp - d)[:5]
            extra = sorted(d - exp)[:5]
            res.violation('boxfill:rectangle' if filled else 'box:outline',
                          '%s: %s drew %d pixels, expected %d; missing %r extra %r' % (
                              g.mode['label'], (fmt % 0).decode(), len(d), len(exp), missing, extra), case)

    def sprite(self, rng, src, dst, xor, step=False):
        """src=(x0,y0,x1,y1) corners as given to GET; dst=(x,y) PUT position for the XOR case.
        step: the second corner is written STEP(dx,dy) (relative to the first) after a history statement."""
        g, res = self.g, self.res
        x0, y0, x1, y1 = src
        sw, sh = abs(x1 - x0) + 1, abs(y1 - y0) + 1
        tlx, tly = min(x0, x1), min(y0, y1)
        case = {'mode': g.mode['label'], 'prim': 'PUT XOR twice' if xor else 'GET+PUT PSET', 'get': list(src), 'put': list(dst) if xor else [tlx, tly]}
        s0 = g.active()
        try:
            if step:
                self.history(rng)
                s0 = g.active()
                self.res.count('form_get_step')
                c_get = g.direct(b'GET(%d,%d)-STEP(%d,%d),A%%' % (x0, y0, x1 - x0, y1 - y0))
            else:
                c_get = g.direct(b'GET(%d,%d)-(%d,%d),A%%' % src)
            if xor:
                # the action verb may be left out: XOR is the default (GW-BASIC manual)
                omitted = rng.random() < 0.4
                put = b'PUT(%d,%d),A%%' % dst + (b'' if omitted else b',XOR')
                if omitted:
                    res.count('xor_twice_verb_omitted')
                c_put1 = g.direct(put)
                s1 = g.active()
                c_put2 = g.direct(put)
            else:
                put = b'PUT(%d,%d),A%%,PSET' % (tlx, tly)
                c_put1 = c_put2 = g.direct(put)
                s1 = None
        except harness.Internal as e:
            res.violation(e.key, '%s: GET/PUT %r: %s' % (g.mode['label'], case, e), case)
            raise
        if c_get or c_put1 or c_put2:
            # an error message was printed over the picture: nothing can be said about this case
            res.count('sprite_rejected')
            res.case(('sprite', (g.mode['label'], g.apage, g.vpage), src, dst, xor), nontrivial=False)
            return
        s2 = g.active()
        res.case(('sprite', (g.mode['label'], g.apage, g.vpage), src, dst, xor))
        res.count('xor_cases' if xor else 'getput_cases')
        if sw % 8:
            res.count('sprite_width_not_multiple_of_8')
        res.maxc('max_sprite_width', sw)
        res.count('bpp_%d' % g.mode['bpp'])
        if xor:
            if s1 != s0:
                res.count('xor_changed_seen')
            if s2 != s0:
                d = gfx.diff_points(s0, s2, g.w, g.h, limit=6)
                res.violation('sprite:omitted-verb-twice-not-restored' if put.endswith(b'A%') else 'sprite:xor-twice-not-restored',
                              '%s: GET%r, %s twice: %d+ pixels differ from the original, e.g. %r' % (
                                  g.mode['label'], src, put.decode(), len(d), d[:4]), case)
        else:
            if s2 != s0:
                d = gfx.diff_points(s0, s2, g.w, g.h, limit=6)
                res.violation('sprite:get-put-pset-changed',
                              '%s: GET%r then %s changed the screen at %r' % (g.mode['label'], src, put.decode(), d[:4]), case)
        if self.n < 1:
            res.sample(dict(case, width=sw, height=sh))


def establish(g, rng, res, history=None):
    """
    Put the session into its mode through a history and draw the random background on the ACTIVE page.
      'plain'   SCREEN m                       (page 0 active and visible)
      'pages'   SCREEN m,,a,v                  (a >= 1)
      'trip'    SCREEN other,,a,v : SCREEN m,,a,v   (a >= 1; a MODE change that keeps the page numbers,
                                                named explicitly in both statements)
    All pixel reads of the oracle use the buffer of the page the last SCREEN statement made active.
    """
    if history is None:
        r = rng.random()
        kind = 'plain' if (g.npages < 2 or r < 0.25) else 'pages' if r < 0.55 else 'trip'
        ap = rng.randrange(1, g.npages) if g.npages > 1 else 0
        vp = ap if rng.random() < 0.5 else rng.randrange(max(1, g.npages))
        history = (kind, rng.choice(gfx.other_screens(g.mode)), ap, vp)
    kind, other, ap, vp = history
    if g.npages < 2:
        kind = 'plain'
    if kind == 'plain':
        g.direct(b'VIEW:WINDOW')
        g.enter_mode(0, 0)
    elif kind == 'pages':
        g.direct(b'VIEW:WINDOW')
        g.enter_mode(ap, vp)
        res.count('history_nonzero_page')
    else:
        if g.round_trip(other, ap, vp):
            res.count('history_mode_change_keeping_pages')
        else:
            res.count('history_mode_change_rejected')
        res.count('history_nonzero_page')
    if g.apage != g.vpage:
        res.count('history_active_ne_visible')
    background(g, rng)
    return history


def background(g, rng):
    g.direct(b'VIEW:WINDOW:CLS:ERASE A%' if getattr(g, 'dimmed', False) else b'VIEW:WINDOW:CLS')
    stmts = []
    for i in range(30):
        xa, xb = sorted((rng.randrange(g.w), rng.randrange(g.w)))
        ya, yb = sorted((rng.randrange(g.h), rng.randrange(g.h)))
        stmts.append(b'LINE(%d,%d)-(%d,%d),%d,BF' % (xa, ya, xb, yb, i % g.nattr))
    for i in range(24):
        stmts.append(b'LINE(%d,%d)-(%d,%d),%d,,&H%X' % (
            rng.randrange(g.w), rng.randrange(g.h), rng.randrange(g.w), rng.randrange(g.h),
            rng.randrange(g.nattr), rng.randrange(1, 65536)))
    # fine-grained noise: tiled paint over what is reachable, then more thin lines on top
    for i in range(0, len(stmts), 6):
        g.direct(b':'.join(stmts[i:i + 6]))
    g.direct(b'DIM A%(4000)')
    g.dimmed = True


def rand_point(rng, g):
    r = rng.random()
    if r < 0.1:
        return (rng.choice([0, g.w - 1]), rng.choice([0, g.h - 1]))
    if r < 0.25:
        return (rng.choice([0, g.w - 1, rng.randrange(g.w)]), rng.choice([0, g.h - 1, rng.randrange(g.h)]))
    return (rng.randrange(g.w), rng.randrange(g.h))


def rand_near(rng, g, p, span):
    x = min(g.w - 1, max(0, p[0] + rng.randint(-span, span)))
    y = min(g.h - 1, max(0, p[1] + rng.randint(-span, span)))
    return (x, y)


def random_case(ctx, rng):
    g = ctx.g
    r = rng.random()
    if r < 0.15:
        p = rand_point(rng, g)
        ctx.pset(rng, p[0], p[1], form=(rng.choice([b'PSET', b'PRESET']), rng.random() < 0.75) if rng.random() < 0.4 else None)
    elif r < 0.55:
        p0 = rand_point(rng, g)
        rr = rng.random()
        if rr < 0.4:
            p1 = rand_near(rng, g, p0, 15)
        elif rr < 0.8:
            p1 = rand_near(rng, g, p0, 120)
        else:
            p1 = rand_point(rng, g)
        # near-diagonal and near-axis slopes are where error terms go wrong
        if rng.random() < 0.2:
            d = rng.randint(1, 60)
            e = rng.choice([-1, 0, 1])
            sx, sy = rng.choice([-1, 1]), rng.choice([-1, 1])
            if rng.random() < 0.5:
                p1 = (p0[0] + sx * d, p0[1] + sy * (d + e))
            else:
                p1 = (p0[0] + sx * d, p0[1] + sy * max(0, 1 + e))
            p1 = (min(g.w - 1, max(0, p1[0])), min(g.h - 1, max(0, p1[1])))
        ctx.line(rng, p0, p1, form=rng.choice(ctx.LINE_FORMS[1:]) if rng.random() < 0.45 else None)
    elif r < 0.75:
        p0 = rand_point(rng, g)
        rr = rng.random()
        if rr < 0.7:
            p1 = rand_near(rng, g, p0, 40)
        elif rr < 0.9:
            p1 = rand_near(rng, g, p0, 3)
        else:
            # long and thin
            p1 = (rng.randrange(g.w), min(g.h - 1, p0[1] + rng.randint(0, 6)))
        ctx.box(rng, p0, p1, filled=rng.random() < 0.5, form=rng.choice(ctx.LINE_FORMS[1:]) if rng.random() < 0.45 else None)
    else:
        sw = rng.choice([rng.randint(1, 70), rng.randint(1, 18), rng.choice([7, 8, 9, 15, 16, 17, 31, 32, 33, 63, 64, 65, 70])])
        sh = rng.choice([rng.randint(1, 40), rng.randint(1, 6)])
        sw, sh = min(sw, g.w), min(sh, g.h)
        # most source rectangles leave room for twice the width to the right (Tandy SCREEN 6 reads twice the width)
        if rng.random() < 0.8 and 2 * sw <= g.w:
            x0 = rng.randint(0, g.w - 2 * sw)
        else:
            x0 = rng.randint(0, g.w - sw)
        y0 = rng.randint(0, g.h - sh)
        xs = [x0, x0 + sw - 1]
        ys = [y0, y0 + sh - 1]
        if rng.random() < 0.3:
            xs.reverse()
        if rng.random() < 0.3:
            ys.reverse()
        src = (xs[0], ys[0], xs[1], ys[1])
        xor = rng.random() < 0.5
        if rng.random() < 0.8 and 2 * sw <= g.w:
            dst = (rng.randint(0, g.w - 2 * sw), rng.randint(0, g.h - sh))
        else:
            dst = (rng.randint(0, g.w - sw), rng.randint(0, g.h - sh))
        if rng.random() < 0.45:
            ctx.put_verb(rng, (min(xs), min(ys), sw, sh), dst, rng.choice(ctx.VERBS))
        else:
            ctx.sprite(rng, src, dst, xor, step=rng.random() < 0.3)
        if rng.random() < 0.25:
            ctx.colour_case(rng, rng.choice(['CIRCLE', 'DRAW']))
        if rng.random() < 0.2:
            r = rng.randint(0, 25)
            ctx.circle_step(rng, (rng.randint(r + 20, g.w - r - 21) if g.w > 2 * r + 42 else g.w // 2, rng.randint(r + 1, g.h - r - 2)), r)
    ctx.n += 1


def directed(ctx):
    """Seed-independent core."""
    g = ctx.g
    rng = random.Random('C31:directed:%s' % g.mode['label'])
    w, h = g.w, g.h
    cx, cy = w // 2 + 3, h // 2 + 1
    # every displacement vector with |dx|, |dy| <= 7 (225 lines, all octants, all small slopes)
    for dx in range(-7, 8):
        for dy in range(-7, 8):
            ox, oy = cx + 17 * (dx % 3), cy + 11 * (dy % 3)
            ctx.line(rng, (ox, oy), (ox + dx, oy + dy))
    # screen edges, corners, full diagonals, both directions
    corners = [(0, 0), (w - 1, 0), (0, h - 1), (w - 1, h - 1)]
    for a in corners:
        for b in corners:
            if a < b:
                ctx.line(rng, a, b)
                ctx.line(rng, b, a)
    for a in corners:
        ctx.line(rng, a, (cx, cy))
        ctx.line(rng, (cx, cy), a)
        ctx.pset(rng, a[0], a[1])
    ctx.pset(rng, cx, cy)
    # slopes around 1/2, 1, 2 and very flat / very steep long lines
    for (dx, dy) in [(100, 50), (100, 49), (100, 51), (99, 100), (101, 100), (50, 100), (51, 100), (150, 1), (1, 150), (150, 2),
                     (2, 150), (151, 149), (3, 2), (2, 3), (120, 119), (119, 120)]:
        for sx in (1, -1):
            for sy in (1, -1):
                p0 = (cx - sx * dx // 2, cy - sy * dy // 2)
                p1 = (p0[0] + sx * dx, p0[1] + sy * dy)
                if 0 <= p1[0] < w and 0 <= p1[1] < h and 0 <= p0[0] < w and 0 <= p0[1] < h:
                    ctx.line(rng, p0, p1)
    # rectangles: degenerate, tiny, at the corners of the screen, whole screen outline
    for filled in (False, True):
        for (p0, p1) in [((cx, cy), (cx, cy)), ((cx, cy), (cx + 9, cy)), ((cx, cy), (cx, cy + 9)), ((cx + 1, cy + 1), (cx, cy)),
                         ((cx + 20, cy + 10), (cx - 20, cy - 10)), ((cx - 20, cy + 10), (cx + 20, cy - 10)),
                         ((0, 0), (5, 4)), ((w - 1, h - 1), (w - 6, h - 5)), ((w - 6, 0), (w - 1, 5)), ((0, h - 1), (3, h - 3)),
                         ((0, 0), (w - 1, 2)), ((0, 0), (2, h - 1))]:
            ctx.box(rng, p0, p1, filled)
    ctx.box(rng, (0, 0), (w - 1, h - 1), False)
    # sprites: every width residue, several alignments, both checks
    widths = list(range(1, 19)) + [31, 32, 33, 63, 64, 65, 70]
    k = 0
    for sw in widths:
        for sh in (1, 3):
            k += 1
            x0 = 40 + (k % 8)
            y0 = 20 + (k * 7) % (h - 70)
            src = (x0, y0, x0 + sw - 1, y0 + sh - 1)
            ctx.sprite(rng, src, (x0, y0), xor=False)
            dst = (60 + ((k * 3) % 8), (y0 + 31) % (h - 45))
            ctx.sprite(rng, src, dst, xor=True)
    # sprite flush against every screen edge (room for twice the width on the right where possible)
    for (x0, y0, sw, sh) in [(0, 0, 13, 5), (w - 26, 0, 13, 5), (0, h - 5, 13, 5), (w - 26, h - 5, 13, 5), (w - 13, h - 5, 13, 5), (w - 1, 7, 1, 1)]:
        ctx.sprite(rng, (x0, y0, x0 + sw - 1, y0 + sh - 1), (x0, y0), xor=False)
        ctx.sprite(rng, (x0, y0, x0 + sw - 1, y0 + sh - 1), (x0, y0), xor=True)


def directed_forms(ctx):
    """Seed-independent: every coordinate form of every primitive after a history that moved the last point."""
    g = ctx.g
    rng = random.Random('C31:directed-forms:%s' % g.mode['label'])
    w, h = g.w, g.h
    cx, cy = w // 2 - 5, h // 2 + 3
    for form in ctx.LINE_FORMS:
        for (p0, p1) in [((cx, cy), (cx + 23, cy + 9)), ((cx + 30, cy - 20), (cx - 4, cy + 31)), ((3, h - 4), (w - 5, 2))]:
            ctx.line(rng, p0, p1, form=form)
            ctx.box(rng, p0, (p0[0] + (p1[0] - p0[0]) // 3, p0[1] + (p1[1] - p0[1]) // 3), False, form=form)
            ctx.box(rng, (p1[0] - (p1[0] - p0[0]) // 4, p1[1] - (p1[1] - p0[1]) // 4), p1, True, form=form)
    for word in (b'PSET', b'PRESET'):
        for step in (True, False):
            for (x, y) in [(cx, cy), (0, 0), (w - 1, h - 1), (cx + 40, cy - 30)]:
                ctx.pset(rng, x, y, form=(word, step))
    for (c, r) in [((cx, cy), 9), ((40, 30), 0), ((w - 30, h - 25), 20), ((cx - 20, cy + 10), 3)]:
        ctx.circle_step(rng, c, r)
    for i in range(6):
        ctx.colour_case(rng, 'CIRCLE')
        ctx.colour_case(rng, 'DRAW')
    # every action verb and the omitted verb, several widths and alignments, overlapping and distant targets
    k = 0
    for verb in ctx.VERBS:
        for sw in (1, 5, 8, 13, 16, 33):
            k += 1
            x0, y0 = 30 + k % 8, 12 + (k * 5) % 40
            ctx.put_verb(rng, (x0, y0, sw, 4), (x0 + 3, y0 + 2), verb)
            ctx.put_verb(rng, (x0, y0, sw, 3), (9 + (k * 3) % 8, h - 30 - k % 5), verb)
    for (x0, y0, sw, sh) in [(40, 20, 13, 5), (47, 33, 8, 8), (60, 50, 1, 1), (33, 41, 17, 2)]:
        ctx.sprite(rng, (x0, y0, x0 + sw - 1, y0 + sh - 1), (x0, y0), xor=False, step=True)
        ctx.sprite(rng, (x0 + sw - 1, y0 + sh - 1, x0, y0), (x0, y0), xor=False, step=True)


def directed_histories(ctx):
    """Seed-independent: a reduced geometry table after every page / mode-change history."""
    g, res = ctx.g, ctx.res
    if g.npages < 2:
        return
    rng = random.Random('C31:directed-hist:%s' % g.mode['label'])
    w, h = g.w, g.h
    cx, cy = w // 2, h // 2
    hist = [('pages', 0, 1, 1), ('pages', 0, 1, 0), ('pages', 0, g.npages - 1, g.npages - 1)]
    for other in gfx.other_screens(g.mode):
        hist += [('trip', other, 1, 1), ('trip', other, 1, 0)]
    for hi in hist:
        establish(g, rng, res, hi)
        res.count('directed_histories')
        for (x, y) in [(0, 0), (w - 1, h - 1), (cx, cy)]:
            ctx.pset(rng, x, y)
        for (dx, dy) in [(9, 0), (0, 9), (9, 9), (-9, 4), (4, -9), (-7, -3), (30, 11), (-11, 30)]:
            ctx.line(rng, (cx, cy), (cx + dx, cy + dy))
        ctx.line(rng, (0, 0), (w - 1, h - 1))
        ctx.box(rng, (cx - 12, cy - 7), (cx + 12, cy + 7), False)
        ctx.box(rng, (cx + 12, cy + 7), (cx - 12, cy - 7), True)
        ctx.box(rng, (0, 0), (5, 4), True)
        for sw in (5, 8, 13):
            src = (40 + sw, 20, 40 + 2 * sw - 1, 24)
            ctx.sprite(rng, src, (40 + sw, 20), xor=False)
            ctx.sprite(rng, src, (70, 50), xor=True)


def run_mode(spec, rng, res, label):
    m = gfx.MODE_BY_LABEL[label]
    phases = (['directed'] if spec.get('directed') else []) + ['random']
    for phase in phases:
        done = 0
        tries = 0
        while tries < 3:
            tries += 1
            try:
                with gfx.GBox(m) as g:
                    bg = random.Random('%s:C31:bg:%s:%s' % (spec['seed'], label, spec.get('part', 0)))
                    ctx = Ctx(g, res)
                    if phase == 'directed':
                        background(g, bg)
                        directed(ctx)
                        directed_forms(ctx)
                        directed_histories(ctx)
                    else:
                        while done < spec['n']:
                            if done % 150 == 0:
                                establish(g, rng, res)
                            random_case(ctx, rng)
                            done += 1
                            if done % 200 == 0 and not g.validate_fast():
                                res.count('snapshot_fallbacks')
                    if g.fallbacks:
                        res.count('snapshot_fallbacks', g.fallbacks)
                break
            except gfx.ModeMismatch as e:
                res.inconclusive('mode table: %s' % e)
                return
            except gfx.Corrupt as e:
                res.violation('frame:page-buffer-corrupted:%s' % e.what, '%s: the screen can no longer be observed: %s' % (label, e), {'mode': label})
                if phase == 'directed':
                    break
            except harness.Internal:
                # reported where it was caught; continue in a fresh session
                res.count('internal_errors')
                if phase == 'directed':
                    break
    res.count('modes_covered' if spec.get('directed') else 'mode_sessions')


def run_shard(spec, res):
    t0 = time.process_time()
    rng = random.Random('%s:C31:%s:%s' % (spec['seed'], spec['kind'], spec.get('part', 0)))
    for label in spec['modes']:
        run_mode(spec, rng, res, label)
    res.count('cpu_seconds', int(round(time.process_time() - t0)))
