"""
C11 Variable storage is faithfully exposed and never aliased.

Oracle (BASIC level, session built with peek_values={}): after every step of a history that creates
scalars of all four types (names of 1..40 characters), arrays of 1..3 dimensions, assigns, SWAPs,
ERASEs (also a non-last array), reallocates strings and forces collections, EVERY live scalar and
array element is dumped with VARPTR / VARPTR$ / PEEK(VARPTR+k) (and PEEK at the string address) and
compared with
  * the MKI$/MKS$/MKD$ form of the variable as the interpreter itself computes it, and the bytes the
    history planted (numbers are planted as exact MBF / two's-complement encodings),
  * the dictionary model of all values (an assignment never changes another variable),
and the observed [VARPTR, VARPTR+size) ranges are checked to be pairwise disjoint and inside the
variable area announced at DS:358h..35Dh.
"""
import random

from ..models import rnum

META = {
    'property_id': 'C11',
    'technique': 'PEEK/VARPTR/VARPTR$ storage dump after every history step vs dictionary model + observed-address disjointness',
    'level': 'exploration',
    'level_text': (
        'Runtime oracle at BASIC level: random and directed histories over scalars of four types (1..40-character '
        'names, same name with different sigils and as array), 2-4 live arrays of 1-3 dimensions, assignment, SWAP, '
        'string reallocation, in-place MID$/LSET, forced collections and ERASE of non-last arrays; after every step '
        'all live variables/elements are dumped byte by byte through PEEK(VARPTR(x)+k) and compared with the planted '
        'encodings, with MKI$/MKS$/MKD$ of the variable, with VARPTR$ and with a dictionary model; address ranges '
        'are checked for disjointness and containment in the variable area. Frame condition of expression evaluation: '
        'every arithmetic, logical and relational operator, unary operator and conversion function, and the string '
        'operators/functions, are evaluated with live scalars and array elements of every type as left, right or only '
        'operand (directed: the full operator x operand-pair table; random: over the history\'s own variables); '
        'afterwards each operand must still have its value and its bytes at VARPTR, whatever the result or error. '
        'This includes evaluations that fail part-way with every hard error class reachable in an expression (overflow, Illegal function '
        'call, type mismatch, subscript; integer division by zero as handled by the interpreter) and DEF FN calls whose parameters shadow live variables of all four types '
        '(single-, multi-parameter, nested and always-failing functions; good, failing and variable arguments): the '
        'shadowed variables and the arguments keep value and bytes, and the full dump of ALL variables follows.'),
    'level_note': (
        'Trusted: the harness, Session.evaluate for the PEEK/VARPTR expressions, vf.models.rnum encodings. Strings whose '
        'data lie in the program text (literals of stored lines) are checked for content only. Overlap of string DATA '
        'is reported only for data inside the string space (no legitimate sharing exists there). Variable-name bytes '
        'in the variable table are not part of the statement and are not checked. Names are built from letters that '
        'cannot form a keyword (tokeniser questions belong to C17). A StringSpace invariant monitor (M-INV) runs '
        'underneath and counts the collections actually seen.'),
    'rule': ('case = (history id, step index): one full storage dump of all live variables after a step; distinct by '
             'that pair; non-trivial = at least two arrays or five variables alive at the dump'),
    'design_ref': 'DESIGN.md section 4 C11',
    'assumptions': ['DS:358h/35Ah/35Ch hold start of variables / start of arrays / end of arrays (GW-BASIC memory map)'],
    'require_counters': {'any': ['erase_nonlast_seen', 'two_arrays_alive_dumps', 'gc_seen', 'swap_seen',
                                 'string_realloc_seen', 'element_bytes_checked', 'operand_frame_checks',
                                 'deffn_calls', 'deffn_calls_failing', 'expression_evaluations_with_error']},
    'timeout': {'quick': 900, 'thorough': 10800},
}

SIZE = {'%': 2, '!': 4, '#': 8, '$': 3}
SIGILS = '%!#$'
NAME_ALPHA = 'QXZJKWVY'
NAME_TAIL = 'QXZJKWVY0123456789.'


NUM_BINOPS = [('+', 'plus'), ('-', 'minus'), ('*', 'times'), ('/', 'divide'), ('\\', 'intdiv'), (' MOD ', 'mod'),
              ('^', 'power'), (' AND ', 'and'), (' OR ', 'or'), (' XOR ', 'xor'), (' EQV ', 'eqv'), (' IMP ', 'imp'),
              ('=', 'eq'), ('<>', 'ne'), ('<', 'lt'), ('>', 'gt'), ('<=', 'le'), ('>=', 'ge')]
NUM_UNARY = [('-%s', 'negate'), ('NOT %s', 'not'), ('ABS(%s)', 'abs'), ('SGN(%s)', 'sgn'), ('INT(%s)', 'int'),
             ('FIX(%s)', 'fix'), ('CINT(%s)', 'cint'), ('CSNG(%s)', 'csng'), ('CDBL(%s)', 'cdbl'), ('SQR(%s)', 'sqr'),
             ('LEN(STR$(%s))', 'str'), ('LEN(MKD$(%s))', 'mkd'), ('LEN(HEX$(%s))', 'hex')]
STR_BINOPS = [('+', 'concat'), ('=', 'eq'), ('<>', 'ne'), ('<', 'lt'), ('>', 'gt'), ('<=', 'le'), ('>=', 'ge')]
STR_UNARY = [('LEFT$(%s,2)', 'left'), ('RIGHT$(%s,2)', 'right'), ('MID$(%s,2,3)', 'mid'), ('%s+""', 'concat-empty'),
             ('CHR$(65)+%s', 'concat-right'), ('SPACE$(LEN(%s))', 'len'), ('STRING$(2,%s+"x")', 'string'),
             ('STR$(ASC(%s+"a"))', 'asc'), ('STR$(VAL(%s))', 'val'), ('STR$(INSTR(%s,"a"))', 'instr'),
             ('STR$(CVI(%s+"ab"))', 'cvi')]


# sub-expressions that raise an error of each class when they are reached
FAILING_NUM = ['CINT(1E10)', 'SQR(-1)', 'LOG(0)', '(1\\0)', '("a"+1)', 'ZQ9%(99)', 'ASC("")', 'LEN(CHR$(300))']
FN_BODY = {'%': 'CINT(%s*2)', '!': 'SQR(%s)', '#': 'LOG(%s)', '$': 'CHR$(ASC(%s))+%s'}
GOOD_ARG = {'%': ['7', '100'], '!': ['2.5', '9'], '#': ['3.25#', '1'], '$': ['"abc"', '"z"+"y"']}
BAD_ARG = {'%': ['30000', '(-20000)'], '!': ['(-1)', '(-2.5)'], '#': ['0', '(-3#)'], '$': ['""', 'MID$("a",5)']}


def make_functions(params):
    """Function definitions over the given parameter variables (one per type at most):
    one function per parameter, one over all parameters, a nested one, one that always fails."""
    defs = []
    letters = iter('ABCDEFGH')
    firstnum = None
    for prm in params:
        sg = prm[-1]
        name = 'FNQ' + next(letters) + sg
        body = FN_BODY[sg].replace('%s', prm)
        defs.append((name, [prm], body, []))
        if sg != '$' and firstnum is None:
            firstnum = (name, prm)
    if len(params) > 1:
        terms = [('LEN(%s)+ASC(%s)' % (prm, prm)) if prm[-1] == '$' else FN_BODY[prm[-1]].replace('%s', prm) for prm in params]
        defs.append(('FNQ' + next(letters) + '#', list(params), '+'.join(terms), []))
    if firstnum is not None:
        name, prm = firstnum
        # nested: the inner call binds the same parameter again, with an argument that may make it fail
        defs.append(('FNQ' + next(letters) + '#', [prm], '%s(%s-%s)+1' % (name, prm, '3'), [name]))
        defs.append(('FNQ' + next(letters) + '!', [prm], '%s+("a"+1)' % prm, []))
    return defs


def plan(tier, seed):
    shards = [{'kind': 'directed', 'part': 0}]
    if tier == 'quick':
        for i in range(10):
            shards.append({'kind': 'history', 'n': 15, 'steps': 40, 'part': i})
    else:
        for i in range(48):
            shards.append({'kind': 'history', 'n': 62, 'steps': 44, 'part': i})
    return shards


# ---------------------------------------------------------------------------------------------
# values

def rand_number(rng, sigil):
    """(python value to plant, exact bytes)"""
    if sigil == '%':
        v = rng.choice([0, 1, -1, 255, 256, -256, 32767, -32768, rng.randint(-32768, 32767)])
        return v, (v & 0xffff).to_bytes(2, 'little')
    n = SIZE[sigil]
    if rng.random() < 0.08:
        return 0.0, bytes(n)
    mant = [rng.randrange(256) for _ in range(n - 1)]
    if sigil == '#':
        mant[0] = 0           # keep 48 mantissa bits so that a Python float carries the value exactly
    exp = rng.randint(128 - 40, 128 + 40)
    b = bytes(mant) + bytes([exp])
    v = rnum.decode(b)
    return float(v), b


def rand_string(rng):
    n = rng.choice([0, 1, 2, 3, 5, 8, 13, rng.randint(0, 40)])
    return bytes(rng.randrange(256) for _ in range(n))


def rand_name(rng, taken):
    while True:
        r = rng.random()
        if r < 0.3:
            n = rng.choice((1, 2))
        elif r < 0.8:
            n = rng.randint(3, 8)
        else:
            n = rng.choice((39, 40, rng.randint(9, 40)))
        name = rng.choice(NAME_ALPHA) + ''.join(rng.choice(NAME_TAIL) for _ in range(n - 1))
        if rng.random() < 0.35 and taken:
            # same name as an existing variable (other sigil / array vs scalar), or sharing its first two letters
            base = rng.choice(sorted(taken))
            name = base if rng.random() < 0.5 else (base[:2] + name)[:40]
        return name


# ---------------------------------------------------------------------------------------------
# model: scalars {name+sigil: value}, arrays {name+sigil: (bounds, {tuple: value})}
# numbers are (python value, bytes); strings are bytes

class Model(object):

    def __init__(self):
        self.scalars = {}
        self.arrays = {}
        self.order = []          # arrays in creation order

    def default(self, sigil):
        return b'' if sigil == '$' else (0, bytes(SIZE[sigil]))

    def objects(self):
        """[(source text, sigil, value)] of every live scalar / element."""
        out = []
        for nm, v in self.scalars.items():
            out.append((nm, nm[-1], v))
        for nm in self.order:
            bounds, vals = self.arrays[nm]
            for t in tuples(bounds):
                out.append(('%s(%s)' % (nm, ','.join(map(str, t))), nm[-1], vals.get(t, self.default(nm[-1]))))
        return out


def tuples(bounds):
    import itertools
    return itertools.product(*[range(0, b + 1) for b in bounds])


# ---------------------------------------------------------------------------------------------
# observation

class Dumper(object):

    def __init__(self, box, res, harness):
        self.box, self.res, self.h = box, res, harness

    def ev(self, expr):
        v = self.box.ev(expr)
        return v

    def word(self, addr):
        return self.ev(b'PEEK(%d)' % addr) + 256 * self.ev(b'PEEK(%d)' % (addr + 1))

    def dump(self, model, case, after):
        """Full storage dump + checks. Returns number of objects dumped."""
        res = self.res
        vs, as_, ae = self.word(0x358), self.word(0x35A), self.word(0x35C)
        if not (vs <= as_ <= ae):
            res.violation('area:pointers-not-ordered', 'DS:358/35A/35C = %d/%d/%d %s' % (vs, as_, ae, after), case)
        objs = model.objects()
        ranges = []
        strdata = []
        narr = len(model.order)
        first_array = None
        arr_base = {}
        for src, sigil, val in objs:
            s = src.encode()
            size = SIZE[sigil]
            vp = self.ev(b'VARPTR(' + s + b')')
            if vp is None:
                res.violation('varptr:error-for-live-variable', 'VARPTR(%s) raised an error %s' % (src, after), case)
                continue
            vp &= 0xffff
            is_elem = '(' in src
            if is_elem:
                an = src.split('(')[0]
                arr_base.setdefault(an, vp)
                arr_base[an] = min(arr_base[an], vp)
            ranges.append((vp, vp + size, src))
            if not (vs <= vp and vp + size <= ae):
                res.violation('varptr:outside-variable-area',
                              'VARPTR(%s)=%d size %d outside the variable area [%d,%d) %s' % (src, vp, size, vs, ae, after), case)
            raw = bytes(self.ev(b'PEEK(%d)' % ((vp + k) & 0xffff)) for k in range(size))
            res.count('element_bytes_checked' if is_elem else 'scalar_bytes_checked', size)
            if sigil == '$':
                exp_len = len(val)
                addr = raw[1] | (raw[2] << 8)
                if raw[0] != exp_len:
                    self._peek_violation(is_elem, src, 'length byte %d, value has %d bytes' % (raw[0], exp_len), raw, case, after, model, vp, arr_base)
                elif exp_len:
                    data = bytes(self.ev(b'PEEK(%d)' % ((addr + k) & 0xffff)) for k in range(exp_len))
                    res.count('string_data_bytes_checked', exp_len)
                    if data != val:
                        res.violation('peek:string-data-differs',
                                      'PEEK at the address %d stored for %s gives %r, the value is %r %s' % (
                                          addr, src, data[:40], val[:40], after), case)
                    if addr >= ae:
                        strdata.append((addr, addr + exp_len, src))
                    else:
                        res.count('string_in_program_text_seen')
            else:
                mk = self.ev({'%': b'MKI$(', '!': b'MKS$(', '#': b'MKD$('}[sigil] + s + b')')
                if mk != val[1]:
                    res.violation('value:mk-form-differs-from-planted-encoding',
                                  'MK$ form of %s is %r, planted %r %s' % (src, mk, val[1], after), case)
                if raw != mk:
                    self._peek_violation(is_elem, src, 'PEEK bytes %s, MK$ form %s' % (raw.hex(), (mk or b'').hex()), raw, case, after, model, vp, arr_base)
            # VARPTR$ : type byte + the same address
            vps = self.ev(b'VARPTR$(' + s + b')')
            if vps != bytes([size, vp & 0xff, vp >> 8]):
                res.violation('varptr$:differs-from-type-and-varptr',
                              'VARPTR$(%s)=%r but type size %d and VARPTR %d %s' % (src, vps, size, vp, after), case)
        # disjointness of the observed storage ranges
        ranges.sort()
        for (a0, e0, s0), (a1, e1, s1) in zip(ranges, ranges[1:]):
            if a1 < e0:
                res.violation('varptr:ranges-overlap', '%s at [%d,%d) overlaps %s at [%d,%d) %s' % (s0, a0, e0, s1, a1, e1, after), case)
                break
        strdata.sort()
        for (a0, e0, s0), (a1, e1, s1) in zip(strdata, strdata[1:]):
            if a1 < e0:
                res.violation('string-data:overlap-in-string-space', 'data of %s [%d,%d) overlaps data of %s [%d,%d) %s' % (
                    s0, a0, e0, s1, a1, e1, after), case)
                break
        if narr >= 2:
            res.count('two_arrays_alive_dumps')
        return len(objs)

    def _peek_violation(self, is_elem, src, detail, raw, case, after, model, vp, arr_base):
        if not is_elem:
            key = 'peek:scalar-bytes-differ'
        else:
            # lowest-address live array = the first one in array memory
            an = src.split('(')[0]
            lowest = None
            for nm in model.order:
                t0 = ','.join('0' for _ in model.arrays[nm][0])
                p = self.ev(('VARPTR(%s(%s))' % (nm, t0)).encode())
                if p is not None and (lowest is None or (p & 0xffff) < lowest[0]):
                    lowest = (p & 0xffff, nm)
            key = 'peek:array-element-bytes-differ:%s' % ('first-array' if lowest and lowest[1] == an else 'non-first-array')
        self.res.violation(key, 'PEEK at VARPTR(%s): %s %s' % (src, detail, after), case)


# ---------------------------------------------------------------------------------------------
# history steps

def lit_num(sigil, val):
    """BASIC source for a planted number, exact: integers in decimal, floats through CVS/CVD of a CHR$ chain."""
    if sigil == '%':
        return b'%d' % val[0]
    fn = b'CVS(' if sigil == '!' else b'CVD('
    return fn + b'+'.join(b'CHR$(%d)' % c for c in val[1]) + b')'


class History(object):

    def __init__(self, res, rng, harness, minv, hid):
        self.res, self.rng, self.h, self.minv, self.hid = res, rng, harness, minv, hid
        self.model = Model()
        self.steps = []
        self.box = harness.Box()
        self.dumper = Dumper(self.box, res, harness)
        self.failed = False
        self.gc0 = minv.STATE.gc_count
        self.fns = []           # (name, [parameter variables], nested parameter variables) defined in this session

    def define_functions(self, defs):
        """
        defs = [(name, [params], body text, [nested fn names])]. DEF FN needs stored lines, and storing a line
        clears the variables, so this is done first.  DEF FN itself allocates its parameter variables:
        from then on they are live variables (with default values) and part of the model.
        """
        line = 10
        for name, params, body, _ in defs:
            text = b'%d DEF %s(%s)=%s' % (line, name.encode(), ','.join(params).encode(), body.encode())
            self.steps.append(text)
            self.box.ex(text)
            line += 10
        self.box.ex(b'%d END' % line)
        self.ex(b'GOTO 10')
        if self.failed:
            return
        byname = {}
        for name, params, body, nested in defs:
            shadow = list(params)
            for n in nested:
                shadow += byname.get(n, [])
            byname[name] = shadow
            self.fns.append((name, list(params), sorted(set(shadow))))
            for prm in params:
                if prm not in self.model.scalars:
                    self.model.scalars[prm] = self.model.default(prm[-1])
        self.res.count('deffn_defined', len(defs))

    def call_function(self, fn, args, arg_vars, prefix='', suffix=''):
        """Evaluate prefix FN(args) suffix; the parameter-shadowed variables and the argument variables must keep
        their value and bytes whether the call succeeds or fails."""
        name, params, shadow = fn
        text = prefix + name + '(' + ','.join(args) + ')' + suffix
        ops = [('shadowed-parameter', v) for v in shadow] + [('argument', v) for v in arg_vars if v not in shadow]
        self.res.count('deffn_calls')
        self.evaluate('deffn-call', text.encode(), ops, string_result=name.endswith('$'))

    def close(self):
        self.box.close()

    def case(self):
        return {'history': self.hid, 'steps': self.steps[-60:]}

    def ex(self, stmt, expect_error=0):
        if self.failed:
            return None
        self.steps.append(stmt)
        try:
            out = self.box.ex(stmt)
        except self.h.Internal as e:
            self.res.violation(e.key, '%s while executing %r' % (e, stmt), self.case())
            self.failed = True
            return None
        code = self.h.err_of(out)[0]
        if code != expect_error:
            # the histories only contain statements that must succeed (memory is ample)
            self.res.violation('history:unexpected-error', '%r -> error %d, expected %d' % (stmt, code, expect_error), self.case())
            self.failed = True
            return None
        return code

    def api_set(self, name, pyval):
        if self.failed:
            return
        self.steps.append(b'set_variable ' + name.encode() + b' ' + repr(pyval)[:60].encode())
        try:
            self.box.set(name, pyval)
        except self.h.Internal as e:
            self.res.violation(e.key, str(e), self.case())
            self.failed = True

    # -- operations ------------------------------------------------------------------------
    def assign_scalar(self, nm, val, via):
        sigil = nm[-1]
        if sigil == '$':
            if via == 'basic' and all(32 <= c < 127 and c != 34 for c in val):
                self.ex(nm.encode() + b'="' + val + b'"+""')
            else:
                self.api_set(nm, val)
        else:
            # floats always through CVS/CVD of the exact bytes (the API's float conversion belongs to C43)
            if via == 'basic' or sigil != '%':
                self.ex(nm.encode() + b'=' + lit_num(sigil, val))
            else:
                self.api_set(nm, val[0])
        if not self.failed:
            self.model.scalars[nm] = val

    def assign_element(self, nm, t, val):
        sigil = nm[-1]
        tgt = ('%s(%s)' % (nm, ','.join(map(str, t)))).encode()
        if sigil == '$':
            self.api_set('ZZ$', val)
            self.model.scalars['ZZ$'] = val
            self.ex(tgt + b'=ZZ$')
        else:
            self.ex(tgt + b'=' + lit_num(sigil, val))
        if not self.failed:
            self.model.arrays[nm][1][t] = val

    def get_obj(self, src):
        if '(' in src:
            nm, rest = src.split('(')
            t = tuple(int(x) for x in rest.rstrip(')').split(','))
            return self.model.arrays[nm][1].get(t, self.model.default(nm[-1]))
        return self.model.scalars[src]

    def put_obj(self, src, val):
        if '(' in src:
            nm, rest = src.split('(')
            t = tuple(int(x) for x in rest.rstrip(')').split(','))
            self.model.arrays[nm][1][t] = val
        else:
            self.model.scalars[src] = val

    def dim(self, nm, bounds):
        self.ex(b'DIM ' + nm.encode() + b'(' + b','.join(b'%d' % b for b in bounds) + b')')
        if not self.failed:
            self.model.arrays[nm] = (tuple(bounds), {})
            self.model.order.append(nm)

    def erase(self, nm):
        last = self.model.order[-1] == nm
        self.ex(b'ERASE ' + nm.encode())
        if not self.failed:
            del self.model.arrays[nm]
            self.model.order.remove(nm)
            if not last:
                self.res.count('erase_nonlast_seen')
            self.res.count('erase_seen')

    # -- frame condition of expression evaluation ------------------------------------------
    def evaluate(self, opname, text, operands, string_result=False):
        """
        Evaluate an expression over live variables / elements (result into a sink variable that is not
        part of the model; ANY BASIC error is acceptable) and check that every operand it read still has
        its value and its bytes at VARPTR.  operands = [(side, source text)].
        """
        if self.failed:
            return
        stmt = (b'E1%=LEN(' + text + b')') if string_result else (b'E2#=' + text)
        self.steps.append(stmt)
        try:
            out = self.box.ex(stmt)
            code = self.h.err_of(out)[0]
            self.res.count('expression_evaluations')
            if code:
                self.res.count('expression_evaluations_with_error')
                self.res.count('failing_evaluation_error_%d_seen' % code)
                if opname == 'deffn-call':
                    self.res.count('deffn_calls_failing')
            for side, src in operands:
                sigil = src.split('(')[0][-1]
                val = self.get_obj(src)
                want_bytes = val if sigil == '$' else val[1]
                got_val = self.box.ev(src.encode())
                vp = self.box.ev(b'VARPTR(' + src.encode() + b')') & 0xffff
                raw = bytes(self.box.ev(b'PEEK(%d)' % ((vp + k) & 0xffff)) for k in range(SIZE[sigil]))
                self.res.count('operand_frame_checks')
                tname = {'%': 'integer', '!': 'single', '#': 'double', '$': 'string'}[sigil]
                kind = 'array-element' if '(' in src else 'scalar'
                key = 'expression-evaluation-changed-operand:%s:%s-operand:%s-%s%s' % (
                    opname, side, tname, kind, ':failing-evaluation' if code else '')
                if sigil == '$':
                    data = b''
                    if raw[0]:
                        addr = raw[1] | (raw[2] << 8)
                        data = bytes(self.box.ev(b'PEEK(%d)' % ((addr + k) & 0xffff)) for k in range(raw[0]))
                    if got_val != val or data != val:
                        self.res.violation(key, 'after %r (error %d): %s reads %r, PEEK gives %r, was %r' % (
                            stmt, code, src, got_val[:40], data[:40], val[:40]), self.case())
                        self.failed = True
                elif raw != want_bytes or got_val != val[0]:
                    self.res.violation(key, 'after %r (error %d): %s reads %r, bytes at VARPTR %s, was %r / %s' % (
                        stmt, code, src, got_val, raw.hex(), val[0], want_bytes.hex()), self.case())
                    self.failed = True
        except self.h.Internal as e:
            self.res.violation(e.key, '%s while executing %r' % (e, stmt), self.case())
            self.failed = True
        except TypeError:
            self.res.violation('dump:expression-raised-basic-error', 'reading an operand back failed after %r' % stmt, self.case())
            self.failed = True

    # -- per-step verification -----------------------------------------------------------
    def verify(self, sno):
        if self.failed:
            return
        after = 'after step %d %r' % (sno, self.steps[-1][:70])
        case = self.case()
        model = self.model
        # values through the variable API: nothing but the assigned variable changed
        try:
            for nm, v in model.scalars.items():
                got = self.box.get(nm)
                want = v if nm[-1] == '$' else v[0]
                if got != want:
                    self.res.violation('value:scalar-differs-from-model', '%s reads %r, model %r %s' % (nm, got, want, after), case)
                    self.failed = True
            for nm in model.order:
                bounds, vals = model.arrays[nm]
                got = self.box.get(nm + '()')
                flat = got
                for _ in bounds[1:]:
                    flat = [x for sub in flat for x in sub]
                want = []
                for t in tuples(bounds):
                    v = vals.get(t, model.default(nm[-1]))
                    want.append(v if nm[-1] == '$' else v[0])
                if flat != want:
                    self.res.violation('value:array-element-differs-from-model', '%s() reads %r, model %r %s' % (
                        nm, flat[:12], want[:12], after), case)
                    self.failed = True
        except self.h.Internal as e:
            self.res.violation(e.key, '%s %s' % (e, after), case)
            self.failed = True
            return
        try:
            n = self.dumper.dump(model, case, after)
        except self.h.Internal as e:
            self.res.violation(e.key, '%s %s' % (e, after), case)
            self.failed = True
            return
        except TypeError:
            # an expression of the dump raised a BASIC error (evaluate returned None)
            self.res.violation('dump:expression-raised-basic-error', 'a PEEK/VARPTR expression of the dump failed %s' % after, case)
            self.failed = True
            return
        for key, what in self.minv.drain() + self.minv.check_live(self.box.impl.memory, after):
            self.res.violation(key, what, case)
        self.res.case(('dump', self.hid, sno), nontrivial=(len(model.order) >= 2 or n >= 5))
        self.res.maxc('max_objects_in_dump', n)

    def finish(self):
        seen = self.minv.STATE.gc_count - self.gc0
        if seen:
            self.res.count('gc_seen', seen)


def random_step(hist, rng):
    m = hist.model
    names_taken = {n[:-1] for n in m.scalars} | {n[:-1] for n in m.arrays}
    names_taken.discard('ZZ')
    r = rng.random()
    scal = [n for n in m.scalars if n != 'ZZ$']
    if r < 0.16 or len(scal) < 3:
        sigil = rng.choice(SIGILS)
        nm = rand_name(rng, names_taken) + sigil
        if nm in m.scalars or nm == 'ZZ$':
            return random_step(hist, rng) if rng.random() < 0.9 else None
        val = rand_string(rng) if sigil == '$' else rand_number(rng, sigil)
        hist.assign_scalar(nm, val, rng.choice(('api', 'basic')))
        hist.res.count('scalar_created')
    elif r < 0.28 or len(m.order) < 2:
        if len(m.order) >= 4:
            return random_step(hist, rng)
        sigil = rng.choice(SIGILS)
        nm = rand_name(rng, names_taken) + sigil
        if nm in m.arrays:
            return None
        k = rng.choice((1, 1, 2, 2, 3))
        bounds = [rng.randint(0, {1: 6, 2: 2, 3: 1}[k]) for _ in range(k)]
        hist.dim(nm, bounds)
    elif r < 0.40:
        nm = rng.choice(scal)
        val = rand_string(rng) if nm[-1] == '$' else rand_number(rng, nm[-1])
        hist.assign_scalar(nm, val, rng.choice(('api', 'basic')))
    elif r < 0.55:
        nm = rng.choice(m.order)
        bounds = m.arrays[nm][0]
        t = tuple(rng.randint(0, b) for b in bounds)
        val = rand_string(rng) if nm[-1] == '$' else rand_number(rng, nm[-1])
        hist.assign_element(nm, t, val)
    elif r < 0.66:
        # SWAP two objects of one type
        objs = m.objects()
        sig = rng.choice(SIGILS)
        same = [o for o in objs if o[1] == sig and o[0] != 'ZZ$']
        if len(same) < 2:
            return None
        a, b = rng.sample(same, 2)
        hist.ex(('SWAP %s,%s' % (a[0], b[0])).encode())
        if not hist.failed:
            va, vb = hist.get_obj(a[0]), hist.get_obj(b[0])
            hist.put_obj(a[0], vb)
            hist.put_obj(b[0], va)
            hist.res.count('swap_seen')
    elif r < 0.74:
        # ERASE, preferably not the last array
        if len(m.order) < 2:
            return None
        nm = rng.choice(m.order[:-1]) if rng.random() < 0.8 else m.order[-1]
        hist.erase(nm)
    elif r < 0.90:
        # string reallocation / in-place modification / copy
        strs = [o for o in m.objects() if o[1] == '$' and o[0] != 'ZZ$']
        if not strs:
            return None
        a = rng.choice(strs)
        b = rng.choice(strs)
        va, vb = hist.get_obj(a[0]), hist.get_obj(b[0])
        q = rng.random()
        if q < 0.35 and len(va) + len(vb) <= 255:
            hist.ex(('%s=%s+%s' % (a[0], a[0], b[0])).encode())
            if not hist.failed:
                hist.put_obj(a[0], va + vb)
                hist.res.count('string_realloc_seen')
        elif q < 0.55:
            hist.ex(('%s=%s' % (a[0], b[0])).encode())
            if not hist.failed:
                hist.put_obj(a[0], vb)
                hist.res.count('string_copy_seen')
        elif q < 0.8 and len(va) >= 1:
            pos = rng.randint(1, len(va))
            hist.ex(('MID$(%s,%d,1)="#"' % (a[0], pos)).encode())
            if not hist.failed:
                hist.put_obj(a[0], va[:pos - 1] + b'#' + va[pos:])
                hist.res.count('inplace_modify_seen')
        elif len(va) >= 1:
            hist.ex(('LSET %s="<>"' % a[0]).encode())
            if not hist.failed:
                hist.put_obj(a[0], (b'<>' + b' ' * len(va))[:len(va)])
                hist.res.count('inplace_modify_seen')
        else:
            return None
    elif r < 0.95:
        # forced collection
        hist.ex(b'PRINT FRE("");')
        hist.res.count('forced_collection_steps')
    else:
        # evaluate expressions over live variables: none of the operands may change
        objs = [o for o in m.objects() if o[0] != 'ZZ$']
        nums = [o[0] for o in objs if o[1] != '$']
        strs = [o[0] for o in objs if o[1] == '$']
        for _ in range(4):
            if hist.fns and rng.random() < 0.4:
                # a function call whose parameters shadow live variables: good, failing and variable arguments
                fn = rng.choice(hist.fns)
                args, arg_vars = [], []
                for prm in fn[1]:
                    sg = prm[-1]
                    same = [o[0] for o in objs if o[1] == sg]
                    q = rng.random()
                    if q < 0.35 and same:
                        v = rng.choice(same)
                        args.append(v)
                        arg_vars.append(v)
                    elif q < 0.7:
                        args.append(rng.choice(GOOD_ARG[sg]))
                    else:
                        args.append(rng.choice(BAD_ARG[sg]))
                prefix = ''
                if nums and rng.random() < 0.4 and not fn[0].endswith('$'):
                    v = rng.choice(nums)
                    prefix = v + rng.choice(('+', '*', '-'))
                    arg_vars.append(v)
                hist.call_function(fn, args, arg_vars, prefix=prefix)
            elif nums and (rng.random() < 0.7 or not strs):
                if rng.random() < 0.3:
                    # an evaluation that fails part-way, after (or before) it has read its operands
                    a, b = rng.choice(nums), rng.choice(nums)
                    op, name = rng.choice(NUM_BINOPS[:12])
                    bad = rng.choice(FAILING_NUM)
                    text = (a + op + b + '+' + bad) if rng.random() < 0.6 else (bad + '+' + a + op + b)
                    hist.evaluate(name + '-then-error', text.encode(), [('left', a), ('right', b)])
                elif rng.random() < 0.75:
                    a, b = rng.choice(nums), rng.choice(nums)
                    op, name = rng.choice(NUM_BINOPS)
                    hist.evaluate(name, (a + op + b).encode(), [('left', a), ('right', b)])
                else:
                    a = rng.choice(nums)
                    op, name = rng.choice(NUM_UNARY)
                    hist.evaluate(name, (op % a).encode(), [('only', a)])
            elif strs:
                if rng.random() < 0.6:
                    a, b = rng.choice(strs), rng.choice(strs)
                    op, name = rng.choice(STR_BINOPS)
                    hist.evaluate('string-' + name, (a + op + b).encode(), [('left', a), ('right', b)], string_result=(op == '+'))
                else:
                    a = rng.choice(strs)
                    op, name = rng.choice(STR_UNARY)
                    hist.evaluate('string-' + name, (op % a).encode(), [('only', a)], string_result=True)
    return True


def run_history(spec, rng, res, harness, minv):
    for hno in range(spec['n']):
        hid = '%s/%s/%d' % (spec['seed'], spec.get('part', 0), hno)
        hist = History(res, rng, harness, minv, hid)
        try:
            if rng.random() < 0.7:
                # functions whose parameters are (future) live variables of the history
                sig = rng.sample(SIGILS, rng.randint(1, 4))
                params, taken = [], set()
                for sg in sig:
                    nm = rand_name(rng, taken)
                    taken.add(nm)
                    params.append(nm + sg)
                hist.define_functions(make_functions(params))
                hist.verify(0)
            sno = 0
            tries = 0
            while sno < spec['steps'] and not hist.failed and tries < spec['steps'] * 4:
                tries += 1
                nsteps = len(hist.steps)
                r = random_step(hist, rng)
                if len(hist.steps) == nsteps:
                    continue
                sno += 1
                hist.verify(sno)
            hist.finish()
            if hno == 0:
                res.sample({'history': hid, 'first_steps': hist.steps[:10], 'live_objects': len(hist.model.objects())})
        finally:
            hist.close()


# ---------------------------------------------------------------------------------------------
# directed core (seed independent)

def run_directed(spec, res, harness, minv):
    V = lambda sigil, b: (float(rnum.decode(b)) if sigil != '%' else int(rnum.decode(b)), b)
    # 1. two and three arrays: PEEK inside every array (D7 reproducer), then ERASE of the first / middle one
    for order in (('A%', 'B!', 'C$'), ('A#', 'B%', 'C!'), ('A$', 'B$', 'C%')):
        for victim in (0, 1):
            hist = History(res, None, harness, minv, 'directed/arrays/%s/%d' % (''.join(order), victim))
            try:
                hist.assign_scalar('Q%', (7, b'\x07\x00'), 'basic')
                hist.verify(0)
                for i, nm in enumerate(order):
                    hist.dim(nm, [2, 1] if i == 1 else [3])
                    hist.verify(1 + i)
                sno = 10
                for nm in order:
                    bounds = hist.model.arrays[nm][0]
                    for j, t in enumerate(tuples(bounds)):
                        sg = nm[-1]
                        if sg == '$':
                            val = b'str%d' % j + bytes([200 + j])
                        elif sg == '%':
                            val = V('%', ((-300 + 77 * j) & 0xffff).to_bytes(2, 'little'))
                        elif sg == '!':
                            val = V('!', bytes([j + 1, 0x55, 0x20 + j, 0x81 + j]))
                        else:
                            val = V('#', bytes([0, 3, 9, j, 0x55, 0xaa, 0x90 + j, 0x7e + j]))
                        hist.assign_element(nm, t, val)
                    sno += 1
                    hist.verify(sno)
                # a new scalar moves the whole array area
                hist.assign_scalar('XQ.LONGNAME.Z9!', V('!', bytes([1, 2, 3, 0x84])), 'api')
                hist.verify(sno + 1)
                hist.erase(order[victim])
                hist.verify(sno + 2)
                hist.dim('KJ%', [1, 1, 1])
                hist.verify(sno + 3)
                hist.assign_element('KJ%', (1, 0, 1), V('%', b'\x34\x12'))
                hist.verify(sno + 4)
                hist.ex(b'PRINT FRE("");')
                hist.verify(sno + 5)
                hist.erase(hist.model.order[0])
                hist.verify(sno + 6)
                hist.finish()
            finally:
                hist.close()
    # 2. scalars: every type, names of length 1, 2, 3, 39, 40, same name with four sigils and as array
    hist = History(res, None, harness, minv, 'directed/names')
    try:
        sno = 0
        for base in ('Q', 'QX', 'QXZ', 'QX' + 'K' * 37, 'QX' + 'K' * 38, 'QX' + 'K' * 37 + '1', 'Q.9'):
            for sg in SIGILS:
                nm = base + sg
                if sg == '$':
                    val = (base[:20] + sg).encode()
                elif sg == '%':
                    val = V('%', (len(base) * 257 & 0xffff).to_bytes(2, 'little'))
                elif sg == '!':
                    val = V('!', bytes([len(base), 1, 0x40, 0x85]))
                else:
                    val = V('#', bytes([0, len(base), 2, 3, 4, 5, 0xc0, 0x7b]))
                hist.assign_scalar(nm, val, 'basic' if sno % 2 else 'api')
                sno += 1
                hist.verify(sno)
        hist.dim('QX%', [2])
        hist.dim('QX$', [1, 1])
        hist.verify(sno + 1)
        hist.assign_element('QX$', (1, 0), b'element')
        hist.assign_element('QX%', (2,), V('%', b'\xff\x7f'))
        hist.verify(sno + 2)
        hist.ex(b'SWAP QX%,QX%(2)')
        if not hist.failed:
            a, b = hist.model.scalars['QX%'], hist.model.arrays['QX%'][1][(2,)]
            hist.model.scalars['QX%'], hist.model.arrays['QX%'][1][(2,)] = b, a
        hist.verify(sno + 3)
        hist.ex(b'SWAP QX$,QX$(1,0)')
        if not hist.failed:
            a, b = hist.model.scalars['QX$'], hist.model.arrays['QX$'][1][(1, 0)]
            hist.model.scalars['QX$'], hist.model.arrays['QX$'][1][(1, 0)] = b, a
        hist.verify(sno + 4)
        hist.erase('QX%')
        hist.verify(sno + 5)
        hist.finish()
    finally:
        hist.close()
    # 2b. every operator x operand type (integer/single/double/string, scalar and array element) on either side:
    #     evaluating an expression never changes the variables it reads
    from fractions import Fraction
    E = lambda sg, fr: (float(fr) if sg != '%' else int(fr), rnum.encode_exact(Fraction(fr), SIZE[sg]))
    hist = History(res, None, harness, minv, 'directed/expression-frame')
    try:
        hist.assign_scalar('QI%', E('%', 7), 'basic')
        hist.assign_scalar('QS!', E('!', Fraction(5, 2)), 'basic')
        hist.assign_scalar('QD#', E('#', Fraction(13, 4)), 'basic')
        hist.assign_scalar('QT$', b'abc', 'basic')
        hist.assign_scalar('QU$', b'ab\xffz', 'api')
        hist.dim('KI%', [2])
        hist.dim('KS!', [1, 1])
        hist.dim('KD#', [2])
        hist.dim('KT$', [1])
        hist.assign_element('KI%', (1,), E('%', -3))
        hist.assign_element('KS!', (1, 0), E('!', Fraction(3, 2)))
        hist.assign_element('KD#', (0,), E('#', Fraction(3, 4)))
        hist.assign_element('KD#', (2,), E('#', Fraction(-41, 8)))
        hist.assign_element('KT$', (1,), b'element')
        hist.verify(1)
        nums = ['QI%', 'QS!', 'QD#', 'KI%(1)', 'KS!(1,0)', 'KD#(0)', 'KD#(2)']
        strs = ['QT$', 'QU$', 'KT$(1)', 'KT$(0)']
        for op, name in NUM_BINOPS:
            for a in nums:
                for b in nums:
                    hist.evaluate(name, (a + op + b).encode(), [('left', a), ('right', b)])
                hist.evaluate(name + '-constant', (a + op + '2').encode(), [('left', a)])
                hist.evaluate(name + '-constant', ('2' + op + a).encode(), [('right', a)])
        for op, name in NUM_UNARY:
            for a in nums:
                hist.evaluate(name, (op % a).encode(), [('only', a)])
        hist.verify(2)
        for op, name in STR_BINOPS:
            for a in strs:
                for b in strs:
                    hist.evaluate('string-' + name, (a + op + b).encode(), [('left', a), ('right', b)], string_result=(op == '+'))
        for op, name in STR_UNARY:
            for a in strs:
                hist.evaluate('string-' + name, (op % a).encode(), [('only', a)], string_result=True)
        hist.verify(3)
        hist.finish()
    finally:
        hist.close()
    # 2c. DEF FN calls whose parameters shadow live variables (all four types, nested, multi-parameter, always failing),
    #     succeeding and failing; and plain expressions failing part-way with every error class
    hist = History(res, None, harness, minv, 'directed/shadowed-parameters')
    try:
        params = ['QI%', 'QS!', 'QD#', 'QT$']
        hist.define_functions(make_functions(params))
        hist.verify(0)
        hist.assign_scalar('QI%', E('%', 7), 'basic')
        hist.assign_scalar('QS!', E('!', Fraction(5, 2)), 'basic')
        hist.assign_scalar('QD#', E('#', Fraction(13, 4)), 'basic')
        hist.assign_scalar('QT$', b'global', 'basic')
        hist.assign_scalar('QV#', E('#', Fraction(-9, 8)), 'basic')
        hist.dim('KI%', [2])
        hist.dim('KD#', [1])
        hist.assign_element('KI%', (1,), E('%', -3))
        hist.assign_element('KD#', (1,), E('#', Fraction(3, 4)))
        hist.verify(1)
        sno = 1
        for fn in hist.fns:
            choices = []
            for prm in fn[1]:
                sg = prm[-1]
                same = {'%': ['QI%', 'KI%(1)'], '!': ['QS!'], '#': ['QD#', 'QV#', 'KD#(1)'], '$': ['QT$']}[sg]
                choices.append([(a, None) for a in GOOD_ARG[sg] + BAD_ARG[sg]] + [(v, v) for v in same])
            # every argument choice for single-parameter functions; a diagonal for the others
            n = max(len(c) for c in choices)
            for i in range(n):
                pick = [c[(i + 2 * j) % len(c)] for j, c in enumerate(choices)]
                args = [a for a, _ in pick]
                avars = [v for _, v in pick if v]
                hist.call_function(fn, args, avars)
                if not fn[0].endswith('$'):
                    hist.call_function(fn, args, avars + ['QV#', 'KI%(1)'], prefix='QV#*', suffix='+KI%(1)')
            sno += 1
            hist.verify(sno)
        for bad in FAILING_NUM:
            for a, b in (('QI%', 'QD#'), ('QD#', 'KD#(1)'), ('KI%(1)', 'QS!'), ('QV#', 'QV#')):
                for op, name in NUM_BINOPS[:7]:
                    hist.evaluate(name + '-then-error', (a + op + b + '+' + bad).encode(), [('left', a), ('right', b)])
                hist.evaluate('error-then-times', (bad + '+' + a + '*' + b).encode(), [('left', a), ('right', b)])
            sno += 1
            hist.verify(sno)
        hist.finish()
    finally:
        hist.close()
    # 3. string pointing into the program text, copied, then modified in place
    hist = History(res, None, harness, minv, 'directed/code-literal')
    try:
        hist.box.ex(b'10 QS$="literal in code":QT$=QS$:END')
        hist.steps.append(b'10 QS$="literal in code":QT$=QS$:END')
        hist.ex(b'DIM QA$(1),QB%(1)')
        hist.model.arrays['QA$'] = ((1,), {})
        hist.model.arrays['QB%'] = ((1,), {})
        hist.model.order += ['QA$', 'QB%']
        hist.ex(b'GOTO 10')
        hist.model.scalars['QS$'] = b'literal in code'
        hist.model.scalars['QT$'] = b'literal in code'
        hist.verify(1)
        hist.ex(b'MID$(QT$,1,1)="L"')
        hist.model.scalars['QT$'] = b'Literal in code'
        hist.verify(2)
        hist.ex(b'QA$(1)=QS$+"!"')
        hist.model.arrays['QA$'][1][(1,)] = b'literal in code!'
        hist.verify(3)
        hist.finish()
    finally:
        hist.close()
    res.sample({'kind': 'directed', 'what': 'arrays x3 with PEEK in each + ERASE first/middle; names 1..40 x 4 sigils; code literal'})


def run_shard(spec, res):
    from .. import harness
    from ..models import c10_minv as minv
    minv.install()
    kind = spec['kind']
    rng = random.Random('%s:C11:%s:%s' % (spec['seed'], kind, spec.get('part', 0)))
    if kind == 'directed':
        run_directed(spec, res, harness, minv)
    elif kind == 'history':
        run_history(spec, rng, res, harness, minv)
    else:
        raise ValueError(kind)
    if not minv.STATE.available:
        res.count('monitor_unavailable')
    if minv.STATE.monitor_errors:
        res.count('monitor_errors', minv.STATE.monitor_errors)
