"""
C29 Files written to a cassette image read back intact.

Oracle: R-FILE tape model = ordered list of (name, type, contents). A writer Session attached to a
fresh CAS / WAV image in the sandbox writes the files with BASIC statements (OPEN/PRINT#, SAVE
in B/A/P, BSAVE); a *second* Session attached to the same image reads them back in tape order
(OPEN/INPUT$/LINE INPUT#/EOF, LOAD, BLOAD); a *third* Session reads one file by name from the
start of the tape (everything before it must be reported Skipped); optionally an earlier file
is requested after the end of the tape was reached (rewind-and-retry).
Contents of programs and memory images are compared through an independent channel: the host
files produced by SAVE / BSAVE to the native C: mount in the writer and in the reader.
"""
import os
import random
import shutil
import struct
import tempfile

META = {
    'property_id': 'C29',
    'technique': 'tape-contents reference list + write/reattach/read differential over seeded tapes; exhaustive record-boundary length sweep',
    'level': 'exploration',
    'level_text': (
        'Runtime oracle: every file written to a fresh CAS or WAV image must, after the device is re-attached in a new Session, be found by '
        'name with the same type letter, with exactly the written contents (data files: read back through a seeded mix of INPUT$(k,#1) with k = 1..255 not aligned to the 255-byte tape records, LINE INPUT# and INPUT#, EOF 0 before every piece and '
        'true exactly at the end, concatenation = what was written; programs: host bytes of SAVE-to-disk after LOAD equal those before SAVE-to-tape, formats B, A, P; memory '
        'images: BLOADed bytes equal BSAVEd bytes and nothing beyond the length is touched); Found/Skipped messages must list the tape in '
        'order; a file read directly from a fresh attach must skip exactly the files before it. Directed core in both tiers: every contents '
        'length 245..265 and 500..520 for each of the 6 file kinds on CAS, each followed by a second file (D9 shape: 254-byte data file + '
        'follower), lengths 0..3 and 764..766; zero-length / 1 / 255 / 256 / 257-byte files of every kind (empty data file, empty program, BSAVE of length 0) read and skipped over, first / middle / last on the tape, CAS and WAV; WAV: the record-boundary lengths. Random tapes of 1-4 files with random names, kinds, lengths '
        '0..1100.'),
    'level_note': (
        'Trusted: disk SAVE/LOAD and BSAVE/BLOAD to the native mount as observation channel (C15/C34), Python file I/O. Not pinned and not '
        'tested: NUL and 0x1A inside data files (text-file terminators on tape), duplicate names on one tape, names with blanks/control '
        'characters or longer than 8, appending to a tape in a later writer session (a new attach starts at the beginning of the tape), '
        'real audio distortion of WAV images. A request for a file that lies before the tape position may answer Device Timeout once (end '
        'of tape); the oracle only demands that a repeated request then finds it. WAV tapes are kept short in quick (bit-level audio).'),
    'rule': ('case = one tape (image format, list of files with kind, name, length and content seed, read plan); distinct by that '
             'description; non-trivial = every tape (at least one file written and read back)'),
    'design_ref': 'DESIGN.md section 4 C29',
    'assumptions': ['disk SAVE/BSAVE on the native mount are faithful observation channels'],
    'exhaustive': {
        'quick': 'CAS: contents lengths 245..265 and 500..520 x 6 file kinds (data/chunks, data/lines, SAVE B, A, P, BSAVE), each followed by a second file',
        'thorough': 'same sweep plus 755..775 and 1010..1030',
    },
    'require_counters': {'any': ['tapes', 'files_written', 'files_read_back', 'skipped_messages', 'found_messages', 'wav_tapes',
                                 'boundary_length_files', 'direct_reads_with_skips', 'eof_checks', 'zero_length_memory_images', 'empty_programs', 'inputstr_reads_across_record_boundary', 'line_input_reads']},
    'timeout': {'quick': 900, 'thorough': 10800},
}

KINDS = ['Dc', 'Dl', 'B', 'A', 'P', 'M']     # data (chunks) / data (lines) / SAVE B,A,P / BSAVE
TYPE_LETTER = {'Dc': b'D', 'Dl': b'D', 'B': b'B', 'A': b'A', 'P': b'P', 'M': b'M'}
VID_SEG = 0xB800
VID_OFF = 4096          # text page 1: not displayed, so Found/Skipped messages do not touch it

DATA_ALPHABET = bytes(b for b in range(1, 256) if b not in (0x1a, 0x0d, 0x0a))


def plan(tier, seed):
    shards = []
    windows = [(245, 265), (500, 520)] if tier == 'quick' else [(245, 265), (500, 520), (755, 775), (1010, 1030)]
    lengths = [0, 0, 1, 2, 3, 764, 765, 766]     # 0 twice: with different followers / tape positions
    for lo, hi in windows:
        lengths += list(range(lo, hi + 1))
    for kind in KINDS:
        shards.append({'kind': 'sweep', 'fkind': kind, 'part': KINDS.index(kind), 'lengths': lengths, 'fmt': 'CAS'})
    shards.append({'kind': 'sweep_wav', 'part': 0, 'lengths': [254, 255, 253] if tier == 'quick' else [253, 254, 255, 256, 509, 510]})
    shards.append({'kind': 'empties', 'part': 0})
    if tier == 'quick':
        for i in range(6):
            shards.append({'kind': 'random', 'part': i, 'n': 70, 'fmt': 'CAS', 'maxlen': 1100})
        for i in range(2):
            shards.append({'kind': 'random', 'part': 100 + i, 'n': 7, 'fmt': 'WAV', 'maxlen': 300})
    else:
        for i in range(40):
            shards.append({'kind': 'random', 'part': i, 'n': 450, 'fmt': 'CAS', 'maxlen': 1100})
        for i in range(12):
            shards.append({'kind': 'random', 'part': 100 + i, 'n': 45, 'fmt': 'WAV', 'maxlen': 600})
    return shards


# ---------------------------------------------------------------------------------------
# contents

def data_bytes(seed, n):
    rng = random.Random('c29data:%s' % seed)
    if rng.random() < 0.5:
        return bytes(rng.choice(DATA_ALPHABET) for _ in range(n))
    return bytes(rng.choice(b'abcdefghijklmnopqrstuvwxyz0123456789 ,.;') for _ in range(n))


def mem_bytes(seed, n):
    rng = random.Random('c29mem:%s' % seed)
    return bytes(rng.getrandbits(8) for _ in range(n))


def split_lines(seed, data):
    """Cut data (no CR inside) into lines; contents on tape = line+CR for each, so consume len-1 per line."""
    rng = random.Random('c29lines:%s' % seed)
    lines = []
    pos = 0
    n = len(data)
    # total = sum(len(line) + 1) must equal n
    while pos < n:
        room = n - pos
        k = min(room - 1, rng.choice([0, 1, 5, 20, 60, 100, 200, 254]))
        lines.append(data[pos:pos + k])
        pos += k + 1
    return lines


def contents_length(kind, ref):
    """Bytes of a program as they go to tape, from its disk reference file (magic byte / EOF byte / CR LF removed)."""
    if kind == 'A':
        return len(ref.rstrip(b'\x1a').replace(b'\r\n', b'\r'))
    return max(0, len(ref) - 2)


def program_lines(seed, pad, nlines):
    """
    A program whose size grows by exactly one byte per unit of pad: `nlines` comment lines (fixed by the
    caller from the target size, so that the line overhead does not change while pad is adjusted).
    """
    rng = random.Random('c29prog:%s' % seed)
    lines = [b'10 A%%=%d:B$="%s"' % (rng.randint(0, 32767), bytes(rng.choice(b'abcXYZ 123') for _ in range(rng.randint(0, 6))))]
    n = 20
    for i in range(nlines):
        k = pad // nlines + (1 if i < pad % nlines else 0)
        lines.append(b"%d '%s" % (n, bytes(rng.choice(b'abcdefghijklmnopqrstuvwxyz') for _ in range(k))))
        n += 10
    lines.append(b'%d PRINT A%%;B$' % n)
    return lines


# ---------------------------------------------------------------------------------------
# tape session plumbing

class Stop(Exception):
    pass


class Tape(object):

    def __init__(self, res, case):
        self.res = res
        self.case = case
        self.root = tempfile.mkdtemp(prefix='vfbox_c29_')
        ext = 'cas' if case['fmt'] == 'CAS' else 'wav'
        self.image = os.path.join(self.root, 'tape.' + ext)
        self.spec = '%s:%s' % (case['fmt'], self.image)
        self.mount = os.path.join(self.root, 'c')
        self.expected = []     # per file: dict(name, letter, kind, contents..., boundary)
        self.lengths_written = set()
        self.read_calls = 0

    def attach(self):
        from .. import harness
        return harness.Box(root=self.root, budget=200000, mounts={'C': self.mount, 'Z': None, 'CAS1': self.spec})

    def cleanup(self):
        shutil.rmtree(self.root, ignore_errors=True)

    def fail(self, key, what):
        self.res.violation(key, what, self.case)
        raise Stop()

    def host(self, name):
        try:
            with open(os.path.join(self.mount, name), 'rb') as f:
                return f.read()
        except (IOError, OSError):
            return None

    def put_host(self, name, data):
        with open(os.path.join(self.mount, name), 'wb') as f:
            f.write(data)

    def mech(self, default):
        """One key per mechanism: a text file whose data + terminator exactly fills its last record."""
        for e in self.expected:
            if e.get('boundary'):
                return 'tape:text-file-data-plus-terminator-fills-last-record:reader-runs-into-next-record'
        return default

    def ok(self, box, cmd, what):
        from .. import harness
        out = box.ex(cmd)
        code, _ = harness.err_of(out)
        if code or out.strip():
            self.fail(self.mech('write:unexpected-error:%s' % what), '%r -> %r' % (cmd, out))
        return out


def parse_messages(out):
    """[(name, type letter, 'Found'|'Skipped')] from console output; also returns the remaining text."""
    msgs = []
    rest = []
    for line in out.split(b'\r\n'):
        if line.endswith(b' Found.') or line.endswith(b' Skipped.'):
            verb = 'Found' if line.endswith(b' Found.') else 'Skipped'
            body = line[:line.rindex(b' ')]
            msgs.append((body[:8].rstrip(), body[9:10], verb))
        elif line:
            rest.append(line)
    return msgs, b'\r\n'.join(rest)


# ---------------------------------------------------------------------------------------
# writing

def write_file(tape, box, idx, f):
    from .. import harness
    name = f['name'].encode('ascii')
    kind = f['fkind']
    exp = {'name': name, 'letter': TYPE_LETTER[kind], 'kind': kind, 'idx': idx}
    if kind in ('Dc', 'Dl'):
        data = data_bytes(f['seed'], f['len'])
        tape.ok(box, b'OPEN "CAS1:%s" FOR OUTPUT AS 1' % name, 'open-output')
        if kind == 'Dc':
            rng = random.Random('c29chunks:%s' % f['seed'])
            pos = 0
            while pos < len(data):
                k = min(len(data) - pos, rng.choice([1, 7, 50, 128, 254, 255, 255]))
                box.set('A$', data[pos:pos + k])
                tape.ok(box, b'PRINT #1, A$;', 'print')
                pos += k
            exp['data'] = data
        else:
            data = data.replace(b'\r', b'.')
            lines = split_lines(f['seed'], data)
            for l in lines:
                box.set('A$', l)
                tape.ok(box, b'PRINT #1, A$', 'print')
            exp['lines'] = lines
            exp['data'] = b''.join(l + b'\r' for l in lines)
        tape.ok(box, b'CLOSE #1', 'close')
        exp['boundary'] = (len(exp['data']) + 1) % 255 == 0
        tape.lengths_written.add(len(exp['data']))
    elif kind in ('B', 'A', 'P'):
        suffix = {'B': b'', 'A': b',A', 'P': b',P'}[kind]
        ref = 'REF%d.BAS' % idx
        # f['len'] = length of the contents as they go to tape: tokenised bytes (B, P) or text with CR line ends (A)
        target = max(f['len'], 60)
        nlines = target // 180 + 1
        pad = max(0, target - 60)
        size = None
        empty = f['len'] == 0          # length 0 = the empty program
        if empty:
            tape.res.count('empty_programs')
        for attempt in range(1 if empty else 5):
            tape.ok(box, b'NEW', 'new')
            for l in ([] if empty else program_lines(f['seed'], pad, nlines)):
                tape.ok(box, l, 'enter-line')
            tape.ok(box, b'SAVE "C:%s"%s' % (ref.encode(), suffix), 'save-disk')
            size = contents_length(kind, tape.host(ref) or b'')
            if empty or size == target or pad + (target - size) < 0:
                break
            pad += target - size
        exp['ref'] = tape.host(ref)
        exp['size'] = size
        tape.lengths_written.add(size)
        tape.ok(box, b'SAVE "CAS1:%s"%s' % (name, suffix), 'save-tape')
        tape.ok(box, b'NEW', 'new')
        if kind == 'A':
            exp['boundary'] = (size + 1) % 255 == 0
    else:
        n = f['len']          # 0 = zero-length memory image
        data = mem_bytes(f['seed'], n)
        if n and f.get('first') is not None:
            data = bytes([f['first']]) + data[1:]
        if n and f.get('last') is not None:
            data = data[:-1] + bytes([f['last']])
        tape.ok(box, b'DEF SEG=&HB800', 'defseg')
        if n:
            tape.put_host('SRC.BIN', b'\xfd' + struct.pack('<HHH', VID_SEG, VID_OFF, n) + data + b'\x1a')
            tape.ok(box, b'BLOAD "C:SRC.BIN"', 'bload-disk')
        else:
            tape.res.count('zero_length_memory_images')
        tape.ok(box, b'BSAVE "CAS1:%s", %d, %d' % (name, VID_OFF, n), 'bsave-tape')
        exp['data'] = data
        tape.lengths_written.add(n)
    tape.res.count('files_written')
    if exp.get('boundary'):
        tape.res.count('boundary_length_files')
    tape.expected.append(exp)


# ---------------------------------------------------------------------------------------
# reading

def check_messages(tape, msgs, want, what):
    if msgs != want:
        names = set((e['name'], e['letter']) for e in tape.expected)
        extra = [m for m in msgs if (m[0], m[1]) not in names]
        rest = [m for m in msgs if (m[0], m[1]) in names]
        if extra and rest == want and all(m[2] == 'Skipped' for m in extra):
            # entries that are not on the tape: contents of a skipped file were taken for a header record
            tape.fail('search:contents-of-skipped-file-reported-as-phantom-file',
                      '%s: messages %r name files that were never written (tape: %r)' % (what, extra, sorted(names)))
        tape.fail(tape.mech('read:found-skipped-messages-differ-from-tape-order'),
                  '%s: messages %r, expected %r' % (what, msgs, want))
    tape.res.count('found_messages', sum(1 for m in msgs if m[2] == 'Found'))
    tape.res.count('skipped_messages', sum(1 for m in msgs if m[2] == 'Skipped'))


def read_file(tape, box, exp, skipped, retry_on_timeout=False):
    """Read one file by name and verify it. `skipped` = expected entries reported Skipped before it."""
    from .. import harness
    name, kind = exp['name'], exp['kind']
    want = [(e['name'], e['letter'], 'Skipped') for e in skipped] + [(name, exp['letter'], 'Found')]
    tag = {'Dc': 'data-file', 'Dl': 'data-file', 'B': 'program-B', 'A': 'program-A', 'P': 'program-P', 'M': 'memory-image'}[kind]

    def opening(cmd):
        out = box.ex(cmd)
        code, _ = harness.err_of(out)
        msgs, rest = parse_messages(out)
        if code == 24 and retry_on_timeout:
            # end of tape reached: the tape is rewound; ask again
            tape.res.count('timeouts_then_retry')
            out = box.ex(cmd)
            code, _ = harness.err_of(out)
            msgs, rest = parse_messages(out)
            if code == 55:
                tape.fail('search:device-left-open-after-failed-search', '%r after Device Timeout -> %r (every later request fails)' % (cmd, out))
            if code:
                tape.fail(tape.mech('search:file-before-tape-position-not-found-after-rewind'),
                          '%r after Device Timeout -> %r' % (cmd, out))
            # after a rewind everything before the file is skipped
            before = [e for e in tape.expected if e['idx'] < exp['idx']]
            check_messages(tape, msgs, [(e['name'], e['letter'], 'Skipped') for e in before] + [(name, exp['letter'], 'Found')], 'retry of %r' % cmd)
            return
        if code:
            if skipped:
                tape.fail(tape.mech('search:error-or-not-found-while-skipping-over-earlier-files'),
                          '%r (files before it: %r) -> %r' % (cmd, [(e['name'], e['kind'], e.get('size', len(e.get('data', b'')))) for e in skipped], out))
            tape.fail(tape.mech('read:%s:not-found-or-error-on-open' % tag), '%r -> %r' % (cmd, out))
        check_messages(tape, msgs, want, repr(cmd))

    if kind in ('Dc', 'Dl'):
        opening(b'OPEN "CAS1:%s" FOR INPUT AS 1' % name)
        # Read the contents back through a seeded mix of read primitives and chunk sizes; the concatenation of
        # what they deliver must be exactly what was written (each piece is compared where it is read).
        #   INPUT$(k,#1)   k = 1..255, not aligned to the 255-byte tape records, may run across line ends
        #   LINE INPUT #1  (files written as lines) rest of the current line, consumes its CR
        #   INPUT #1, S$   (only where the rest of the line is a plain token: no blanks, commas, quotes, controls)
        #   EOF(1)         0 before every piece
        data = exp['data']
        tape.read_calls += 1
        rrng = random.Random('c29read:%s:%s:%d' % (exp['kind'], exp['name'], tape.read_calls))
        style = rrng.choice(['mixed', 'mixed', 'small', 'big', 'aligned'])
        pos = 0
        plain = set(b'abcdefghijklmnopqrstuvwxyzABCDEFGHIJKLMNOPQRSTUVWXYZ0123456789.;')
        while pos < len(data):
            e = box.ev(b'EOF(1)')
            tape.res.count('eof_checks')
            if e != 0:
                tape.fail(tape.mech('read:data-file:eof-before-end-of-contents'), 'file %r: EOF=%r at byte %d of %d' % (name, e, pos, len(data)))
            room = len(data) - pos
            cr = data.find(b'\r', pos)
            seg = data[pos:cr] if cr >= 0 else None
            prim = 'chars'
            if kind == 'Dl' and seg is not None:
                x = rrng.random()
                if x < 0.45:
                    prim = 'line'
                elif x < 0.65 and seg and all(c in plain for c in seg):
                    prim = 'input'
            if prim == 'chars':
                if style == 'aligned':
                    k = min(255, room)
                elif style == 'small':
                    k = min(room, rrng.choice([1, 1, 2, 3, 7, 20]))
                elif style == 'big':
                    k = min(room, rrng.choice([100, 128, 200, 254, 255, 255]))
                else:
                    k = min(room, rrng.choice([1, 2, 7, 50, 100, 128, 200, 254, 255, rrng.randint(1, 255)]))
                before_rec, after_rec = pos // 255, (pos + k - 1) // 255
                part = box.ev(b'INPUT$(%d, #1)' % k)
                tape.res.count('inputstr_reads')
                if after_rec != before_rec:
                    tape.res.count('inputstr_reads_across_record_boundary')
                if part is None:
                    tape.fail(tape.mech('read:data-file:shorter-than-written'),
                              'file %r (%d bytes): INPUT$(%d,#1) failed at byte %d' % (name, len(data), k, pos))
                want = data[pos:pos + k]
                if part != want:
                    tape.fail(tape.mech('read:data-file:contents-differ:input$-chunk'),
                              'file %r (%d bytes): INPUT$(%d,#1) at byte %d (tape records %d..%d) gave %r.., written %r..'
                              % (name, len(data), k, pos, before_rec, after_rec, part[:24], want[:24]))
                pos += k
            else:
                out = box.ex(b'LINE INPUT #1, L$' if prim == 'line' else b'INPUT #1, L$')
                code, _ = harness.err_of(out)
                if code or out.strip():
                    tape.fail(tape.mech('read:data-file:error-on-existing-line'), 'file %r at byte %d (%s): %r' % (name, pos, prim, out))
                got = box.get('L$')
                tape.res.count('line_input_reads' if prim == 'line' else 'input_hash_reads')
                if got != seg:
                    tape.fail(tape.mech('read:data-file:contents-differ:%s' % ('line-input' if prim == 'line' else 'input#')),
                              'file %r at byte %d: wrote %r read %r' % (name, pos, seg[:40], got[:40]))
                pos = cr + 1
        e = box.ev(b'EOF(1)')
        tape.res.count('eof_checks')
        if e != -1:
            extra = box.ev(b'INPUT$(1, 1)')
            tape.fail(tape.mech('read:data-file:longer-than-written'),
                      'file %r (%d bytes): EOF=%r after all contents were read; next byte %r' % (name, len(exp['data']), e, extra))
        out = box.ex(b'CLOSE #1')
        if harness.err_of(out)[0]:
            tape.fail(tape.mech('read:data-file:error-on-close'), 'CLOSE -> %r' % out)
    elif kind in ('B', 'A', 'P'):
        suffix = {'B': b'', 'A': b',A', 'P': b',P'}[kind]
        box.ex(b'NEW')
        opening(b'LOAD "CAS1:%s"' % name)
        outname = 'OUT%d.BAS' % exp['idx']
        try:
            os.remove(os.path.join(tape.mount, outname))
        except OSError:
            pass
        out = box.ex(b'SAVE "C:%s"%s' % (outname.encode(), suffix))
        if harness.err_of(out)[0] or out.strip():
            tape.fail(tape.mech('read:%s:loaded-program-cannot-be-saved-in-its-format' % tag), 'SAVE after LOAD of %r -> %r' % (name, out))
        got = tape.host(outname)
        if got != exp['ref']:
            tape.fail(tape.mech('read:%s:contents-differ' % tag),
                      'program %r (%d bytes on disk) differs after the tape round trip (%d bytes)' % (name, len(exp['ref']), len(got or b'')))
        box.ex(b'NEW')
    else:
        data = exp['data']
        n = len(data)
        guard = 24
        tape.put_host('FILL.BIN', b'\xfd' + struct.pack('<HHH', VID_SEG, VID_OFF, n + guard) + b'\xee' * (n + guard) + b'\x1a')
        for cmd in (b'DEF SEG=&HB800', b'BLOAD "C:FILL.BIN"'):
            out = box.ex(cmd)
            if harness.err_of(out)[0]:
                tape.fail('harness:disk-bload-failed', '%r -> %r' % (cmd, out))
        if exp['idx'] % 2:
            opening(b'BLOAD "CAS1:%s", %d' % (name, VID_OFF))
        else:
            opening(b'BLOAD "CAS1:%s"' % name)
        try:
            os.remove(os.path.join(tape.mount, 'OUT.BIN'))
        except OSError:
            pass
        out = box.ex(b'BSAVE "C:OUT.BIN", %d, %d' % (VID_OFF, n + guard))
        if harness.err_of(out)[0]:
            tape.fail('harness:disk-bsave-failed', 'BSAVE -> %r' % out)
        raw = tape.host('OUT.BIN') or b''
        got = raw[7:7 + n + guard]
        if got[:n] != data:
            if data[-1:] == b'\x1a' and got[:n - 1] == data[:-1]:
                tape.fail('read:memory-image:final-byte-1A-not-loaded',
                          'image %r (%d bytes) ends with byte 0x1A; BLOAD from tape left the last byte unloaded' % (name, n))
            tape.fail(tape.mech('read:memory-image:contents-differ'), 'image %r (%d bytes) differs after the tape round trip' % (name, n))
        if got[n:] != b'\xee' * guard:
            tape.fail(tape.mech('read:memory-image:bytes-beyond-length-written'), 'BLOAD of %r (%d bytes) changed memory beyond its length' % (name, n))
        # independent spot check through PEEK
        for off in (sorted(set([0, n - 1, n // 2])) if n else []):
            v = box.ev(b'PEEK(%d)' % (VID_OFF + off))
            if v != data[off]:
                tape.fail(tape.mech('read:memory-image:contents-differ'), 'PEEK(%d)=%r, wrote %d' % (VID_OFF + off, v, data[off]))
    tape.res.count('files_read_back')


def run_tape(res, case):
    from .. import harness
    tape = Tape(res, case)
    try:
        os.makedirs(tape.mount, exist_ok=True)
        # ---- writer session
        with tape.attach() as box:
            for idx, f in enumerate(case['files']):
                write_file(tape, box, idx, f)
        if not os.path.exists(tape.image) or os.path.getsize(tape.image) == 0:
            tape.fail('write:no-image-produced', 'image %s missing or empty after the writer session' % os.path.basename(tape.image))
        res.count('tapes')
        res.count('wav_tapes' if case['fmt'] == 'WAV' else 'cas_tapes')
        res.maxc('max_files_per_tape', len(case['files']))
        res.count('files_per_tape_total', len(case['files']))
        # The reader sessions are judged independently: a failure while READING a file must not hide what
        # happens when the same file is only SKIPPED OVER on the way to a later one (and vice versa).
        def session(body):
            try:
                with tape.attach() as box:
                    body(box)
            except Stop:
                pass
            except harness.Internal as e:
                res.violation(tape.mech(e.key), str(e), case)

        # ---- reader session 1: everything in tape order
        def in_order(box):
            for exp in tape.expected:
                read_file(tape, box, exp, [])
            if case.get('rewind') and len(tape.expected) >= 1:
                # ask for an earlier file once the end of the tape has been passed
                exp = tape.expected[case['rewind'] % len(tape.expected)]
                res.count('rewind_requests')
                read_file(tape, box, exp, [], retry_on_timeout=True)
        session(in_order)
        # ---- reader session 2: one file directly from a fresh attach (everything before it is skipped over)
        k = case.get('direct')
        if k is not None and k < len(tape.expected):
            def direct(box):
                read_file(tape, box, tape.expected[k], tape.expected[:k])
                if k:
                    res.count('direct_reads_with_skips')
            session(direct)
        # ---- reader session 3: read file j from a fresh attach, then ask for a file at or before it while
        #      other files still follow (the search runs over them to the end of the tape, rewinds, is repeated)
        if case.get('back') and case['back'][0] < len(tape.expected) - 1:
            j, t = case['back']

            def backward(box):
                read_file(tape, box, tape.expected[j], tape.expected[:j])
                res.count('backward_requests')
                read_file(tape, box, tape.expected[t], [], retry_on_timeout=True)
            session(backward)
    except Stop:
        pass
    except harness.Internal as e:
        res.violation(tape.mech(e.key), str(e), case)
    except harness.error.BASICError as e:
        res.violation('api:variable-access-error', repr(e), case)
    finally:
        tape.cleanup()
    return tape


# ---------------------------------------------------------------------------------------
# case generation

NAME_CHARS = 'ABCDEFGHIJKLMNOPQRSTUVWXYZabcdefghijklmnopqrstuvwxyz0123456789_-$#@!'


def rand_name(rng, used):
    while True:
        n = ''.join(rng.choice(NAME_CHARS) for _ in range(rng.choice([1, 2, 4, 6, 8, 8])))
        if n not in used:
            used.add(n)
            return n


def rand_len(rng, maxlen):
    x = rng.random()
    if x < 0.35:
        k = rng.choice([1, 2, 3, 4]) if maxlen > 600 else rng.choice([1, 1, 2])
        return max(0, min(maxlen, 255 * k + rng.randint(-3, 2)))
    if x < 0.45:
        return rng.randint(0, 4)
    return rng.randint(0, maxlen)


def gen_tape(rng, fmt, maxlen):
    used = set()
    nfiles = rng.choice([1, 2, 2, 3, 3, 4])
    files = []
    for _ in range(nfiles):
        files.append({'fkind': rng.choice(KINDS), 'name': rand_name(rng, used), 'len': rand_len(rng, maxlen), 'seed': rng.getrandbits(30)})
    case = {'fmt': fmt, 'files': files, 'direct': rng.randrange(nfiles)}
    if rng.random() < 0.25:
        case['rewind'] = rng.randrange(1, 8)
    if nfiles >= 2 and rng.random() < 0.3:
        j = rng.randrange(nfiles - 1)
        case['back'] = [j, rng.randrange(j + 1)]
    return case


def sweep_cases(fkind, lengths, fmt):
    cases = []
    for i, n in enumerate(lengths):
        follower = {'fkind': ['Dl', 'B', 'M', 'A'][i % 4], 'name': 'NEXT', 'len': 30 + i % 7, 'seed': 1000 + i}
        files = [{'fkind': fkind, 'name': 'T%d' % n, 'len': n, 'seed': n}, follower]
        if i % 3 == 0:
            files.insert(0, {'fkind': ['Dc', 'P'][i % 2], 'name': 'FIRST', 'len': 10 + i % 5, 'seed': 2000 + i})
        case = {'fmt': fmt, 'files': files, 'direct': len(files) - 1}
        if i % 5 == 0:
            case['back'] = [0, 0]
        cases.append(case)
    # contents that look like a header record (first byte 0xA5) in a file that is skipped
    if fkind == 'M':
        cases.append({'fmt': fmt, 'direct': 1, 'files': [{'fkind': 'M', 'name': 'A5', 'len': 40, 'seed': 'a5', 'first': 0xa5},
                                                          {'fkind': 'Dl', 'name': 'NEXT', 'len': 12, 'seed': 7}]})
        cases.append({'fmt': fmt, 'direct': 0, 'files': [{'fkind': 'M', 'name': 'END1A', 'len': 33, 'seed': 'e1a', 'last': 0x1a},
                                                          {'fkind': 'Dl', 'name': 'NEXT', 'len': 12, 'seed': 7}]})
    if fkind == 'Dc':
        # last record of 164 bytes + terminator: count byte 0xA5
        cases.append({'fmt': fmt, 'direct': 1, 'files': [{'fkind': 'Dc', 'name': 'C165', 'len': 164, 'seed': 3},
                                                          {'fkind': 'B', 'name': 'NEXT', 'len': 60, 'seed': 7}]})
    return cases


def run_shard(spec, res):
    kind = spec['kind']
    rng = random.Random('%s:C29:%s:%s' % (spec['seed'], kind, spec.get('part', 0)))
    if kind == 'sweep':
        cases = sweep_cases(spec['fkind'], spec['lengths'], spec['fmt'])
        res.count('sweep_lengths', len(cases))
    elif kind == 'empties':
        # zero-length / one-byte files of every kind: read in order, skipped over, first / middle / last on the tape, CAS and WAV
        cases = []
        for fmt in ('CAS', 'WAV'):
            kinds = KINDS if fmt == 'CAS' else ['M', 'Dc', 'B', 'A']
            for n in ((0, 1, 255, 256, 257) if fmt == 'CAS' else (0, 1)):
                for fk in kinds:
                    small = {'fkind': fk, 'name': 'E%d' % n, 'len': n, 'seed': n}
                    a = {'fkind': 'Dl', 'name': 'BEFORE', 'len': 9, 'seed': 1}
                    b = {'fkind': 'B' if fk != 'B' else 'Dc', 'name': 'AFTER', 'len': 70, 'seed': 2}
                    cases.append({'fmt': fmt, 'files': [small, b], 'direct': 1})
                    if fmt == 'CAS' or n == 0:
                        cases.append({'fmt': fmt, 'files': [a, small, b], 'direct': 2, 'back': [1, 0]})
                        cases.append({'fmt': fmt, 'files': [a, small], 'direct': 1})
            if fmt == 'CAS':
                allz = [{'fkind': fk, 'name': 'Z%s' % fk, 'len': 0, 'seed': 0} for fk in KINDS]
                cases.append({'fmt': fmt, 'files': allz + [{'fkind': 'B', 'name': 'LAST', 'len': 80, 'seed': 3}], 'direct': 6})
                cases.append({'fmt': fmt, 'files': list(reversed(allz)), 'direct': 5, 'rewind': 1})
    elif kind == 'sweep_wav':
        cases = []
        for n in spec['lengths']:
            for fk in ('Dc', 'A', 'B'):
                cases.append({'fmt': 'WAV', 'files': [{'fkind': fk, 'name': 'W%d' % n, 'len': n, 'seed': n},
                                                      {'fkind': 'Dl', 'name': 'NEXT', 'len': 20, 'seed': 5}], 'direct': 1})
    else:
        cases = [gen_tape(rng, spec['fmt'], spec['maxlen']) for _ in range(spec['n'])]
    covered = set()
    for i, case in enumerate(cases):
        res.case(repr(case))
        if i < 2:
            res.sample(case)
        tape = run_tape(res, case)
        if kind == 'sweep' and tape.expected:
            # contents length actually achieved for the swept file (the one named T<n>)
            for e in tape.expected:
                if e['name'].startswith(b'T'):
                    covered.add(e.get('size') if e.get('size') is not None else len(e['data']))
    if kind == 'sweep':
        need = set(range(250, 261)) | set(range(505, 516))
        res.count('sweep_boundary_lengths_covered', len(need & covered))
        if not need <= covered:
            res.inconclusive('sweep %s did not reach contents lengths %r' % (spec['fkind'], sorted(need - covered)))
