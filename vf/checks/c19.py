"""
C19 Structured control flow follows its reference semantics.

Oracle: generated structured programs (vf.gen.c19_progs.gen_c19) print a tag and counter values at
every statement; the output of the real interpreter (RUN under a step budget) must equal the trace of
the independent reference interpreter R-CTRL (vf.models.c19_rctrl), including which error message and
line ends it. Budget exhausted: the implementation's output must be a prefix of the reference trace.
A directed, seed-independent core with hand-derived expected outputs runs in both tiers.
"""
import random

from ..gen import c19_progs as G
from ..models import c19_rctrl as M

META = {
    'property_id': 'C19',
    'technique': 'reference-interpreter monitor (R-CTRL) over generated structured programs, trace equality under a step budget',
    'level': 'exploration',
    'level_text': (
        'Runtime oracle: each generated program (FOR/NEXT nesting up to 5 with positive/negative/zero steps, empty loops, '
        'integer bounds at the type limits, single counters with dyadic steps, WHILE/WEND, GOSUB/RETURN to depth 20, early '
        'GOTO out of loops, guarded backward jumps, IF/THEN/ELSE incl. nested (3 levels, THEN / THEN line / GOTO line forms, ELSE at any level) and line-number forms, ON n GOTO/GOSUB, '
        'multi-statement lines, one structural mismatch) is run in a fresh sandboxed session; its printed trace is compared '
        'byte for byte with the trace of an independent interpreter of the same AST. Held = every observed program agreed.'),
    'level_note': (
        'Trusted: the harness step budget, the printer AST->text (a printer fault shows as a violation, not as silence). '
        'Not pinned by the statement and therefore not generated or accepted as a set: the counter value after an empty '
        'loop (never printed); zero STEP other than start=end in random programs (the directed core accepts "zero times" or '
        '"runs until stopped" for start<>end and flags anything else); ON n with n<0 or n>255 (Illegal function call or '
        'fall-through both accepted); stray NEXT/WEND while an abandoned loop of that kind is still open; jumps into loop '
        'bodies; crossed loops; RETURN n. Single counters only with steps and bounds exact in binary and short in PRINT.'),
    'rule': ('case = one generated program (its full text); distinct by text; non-trivial = the reference executed at '
             'least 8 statements and the program was not discarded as reaching an unpinned situation'),
    'design_ref': 'DESIGN.md section 4 C19',
    'assumptions': ['R-CTRL (independent reference interpreter written from the statement / GW-BASIC manual)',
                    'PRINT of integers and short dyadic fractions is as in the GW-BASIC manual'],
    'require_counters': {'any': [
        'ref_for:empty-skip', 'ref_next:exit', 'ref_next:iterate', 'ref_wend:exit', 'ref_while:skip', 'ref_return',
        'ref_on-goto:select', 'ref_on-goto:fallthrough-zero', 'ref_on-goto:fallthrough-beyond', 'ref_on-gosub:select',
        'ref_if:else', 'ended_err1', 'ended_err3', 'ended_err30', 'ended_err26', 'ended_err29', 'ended_err6',
        'ended_end', 'budget_exhausted', 'gen_early_exit_goto', 'gen_for_negative_step', 'gen_for_single_counter',
        'gen_for_zero_step', 'directed_cases', 'if_table_programs', 'gen_nested_if_goto_form', 'gen_nested_if_line_form',
        'gen_for_after_then_or_else', 'gen_while_after_then_or_else', 'gen_for_after_then_or_else_inside_for',
        'skip_table_programs', 'gen_nop_in_if_branch', 'gen_dead_region_for', 'gen_dead_region_while', 'gen_dead_region_if_then']},
    'timeout': {'quick': 600, 'thorough': 7200},
}

BUDGET = 400


def plan(tier, seed):
    shards = [{'kind': 'directed'}, {'kind': 'if_table'}]
    if tier == 'quick':
        for i in range(14):
            shards.append({'kind': 'random', 'part': i, 'n': 100})
    else:
        for i in range(47):
            shards.append({'kind': 'random', 'part': i, 'n': 1100})
    return shards


# ---------------------------------------------------------------------------------------------------
# shared by C19 / C21 / C22: run one lines-form program and judge it

def execute(prog, budget, harness):
    """-> (output bytes, broke, boundaries). Raises harness.Internal."""
    lines, direct = G.to_basic(prog)
    with harness.Box(budget=budget) as box:
        if direct is None:
            out = box.run(lines, budget=budget)
        else:
            box.ex(b'NEW')
            box.enter(lines)
            out = box.ex(direct, budget)
        broke, boundaries = box.stepper.break_hit, box.stepper.boundaries
        if not broke:
            for text in G.after_texts(prog):
                out += box.ex(text, budget)
        return out, broke, boundaries


def run_and_judge(prog, budget, res, harness, prefix='', nontrivial=None, per_code=True, rekey=None):
    """Run, compare with R-CTRL, report into res. Returns the Verdict (or None after an internal error)."""
    lines, direct = G.to_basic(prog)
    case = {'lines': lines, 'direct': direct, 'prog': {'lines': prog['lines'], 'direct': prog.get('direct'),
                                                       'indents': prog.get('indents'), 'sep': prog.get('sep'), 'after': prog.get('after')}}
    key = b'\n'.join(lines) + b'\n' + (direct or b'')
    try:
        out, broke, boundaries = execute(prog, budget, harness)
    except harness.Internal as e:
        res.case(key)
        res.violation(e.key, str(e), case)
        return None
    if broke and prog.get('after'):
        prog = dict(prog)
        prog['after'] = None
    v = M.judge(prog, out, broke, budget)
    m = v.machine
    if v.status == 'discard':
        res.case(key, nontrivial=False)
        res.count('discarded_unpinned')
        return v
    res.case(key, nontrivial=(m.steps >= 8) if nontrivial is None else bool(nontrivial(m)))
    for name, n in m.counts.items():
        if ':err' in name:
            # 'trap:err5' also counts as 'trap'
            res.count('ref_' + name.split(':err')[0], n)
            if not per_code:
                continue
        res.count('ref_' + name, n)
    res.maxc('max_gosub_depth', m.max_gosub)
    res.count('ref_statements_executed', m.steps)
    if broke:
        res.count('budget_exhausted')
    else:
        end = M._end_name(m.done)
        if per_code or not end.startswith('err'):
            res.count('ended_' + end)
        else:
            res.count('ended_by_defined_error_code' if m.done[1] in M.MESSAGES else 'ended_by_undefined_error_code')
        # informational: the reference's step count mirrors the statement boundaries of the implementation
        if v.status == 'ok' and not prog.get('direct') and not prog.get('after'):
            want = m.steps + (2 if m.done[0] == 'end' else 1)
            res.count('steps_equal_boundaries' if boundaries == want else 'steps_differ_from_boundaries')
    if m.oob_seen:
        res.count('on_selector_out_of_range_seen')
    if v.status == 'mismatch':
        case['output'] = out
        case['expected'] = bytes(m.out)
        res.violation(prefix + (rekey(v.key) if rekey else v.key), v.what, case)
    return v


# ---------------------------------------------------------------------------------------------------
# directed core: program text + hand-derived expected output (no R-CTRL, no generator)

E = b'\xff\r\n'
DIRECTED = [
    ('for:positive-step', ['10 FOR I%=1 TO 3:PRINT I%;:NEXT:PRINT "E";I%'], b' 1  2  3 E 4 \r\n'),
    ('for:negative-step', ['10 FOR I%=3 TO 1 STEP -1:PRINT I%;:NEXT:PRINT "E";I%'], b' 3  2  1 E 0 \r\n'),
    ('for:step-overshoots-end', ['10 FOR I%=1 TO 10 STEP 4:PRINT I%;:NEXT:PRINT "E";I%'], b' 1  5  9 E 13 \r\n'),
    ('for:start-past-end', ['10 PRINT "a":FOR I%=2 TO 1:PRINT "body":NEXT:PRINT "b"'], b'a\r\nb\r\n'),
    ('for:start-past-end', ['10 PRINT "a"', '20 FOR I%=1 TO 2 STEP -1', '30 PRINT "body"', '40 NEXT I%', '50 PRINT "b"'],
     b'a\r\nb\r\n'),
    ('for:start-past-end:nested-loops-skipped',
     ['10 FOR I%=5 TO 1', '20 FOR J%=1 TO 2:PRINT "in":NEXT J%', '30 NEXT I%', '40 PRINT "b"'], b'b\r\n'),
    ('for:start-equals-end', ['10 FOR I%=2 TO 2:PRINT I%;:NEXT:PRINT "E"'], b' 2 E\r\n'),
    ('for:single-counter', ['10 FOR X=0 TO 1 STEP .25:PRINT X;:NEXT:PRINT "E"'], b' 0  .25  .5  .75  1 E\r\n'),
    ('for:single-counter', ['10 FOR X!=2 TO 1 STEP -.5:PRINT X!;:NEXT:PRINT "E"'], b' 2  1.5  1 E\r\n'),
    ('for:bounds-evaluated-once', ['10 N%=3:FOR I%=1 TO N%:N%=N%+1:PRINT I%;:NEXT:PRINT "E"'], b' 1  2  3 E\r\n'),
    ('for:nested', ['10 FOR I%=1 TO 2:FOR J%=1 TO 2:PRINT I%;J%;:NEXT J%:NEXT I%:PRINT "E"'],
     b' 1  1  1  2  2  1  2  2 E\r\n'),
    ('for:next-with-variable-list', ['10 FOR I%=1 TO 2:FOR J%=1 TO 2:PRINT I%;J%;:NEXT J%,I%:PRINT "E"'],
     b' 1  1  1  2  2  1  2  2 E\r\n'),
    ('diverge-after:for:empty-skip:multi-next',
     ['10 FOR I%=1 TO 2', '20 FOR J%=2 TO 1', '30 PRINT "body"', '40 NEXT J%,I%', '50 PRINT "x";I%'], b'x 3 \r\n'),
    ('diverge-after:for:empty-skip:start-plus-step-beyond-integer-range',
     ['10 PRINT "a":FOR I%=32767 TO 1:PRINT "body":NEXT:PRINT "b"'], b'a\r\nb\r\n'),
    ('diverge-after:for:empty-skip:start-plus-step-beyond-integer-range',
     ['10 PRINT "a":FOR I%=-32768 TO 5 STEP -2:PRINT "body":NEXT I%:PRINT "b"'], b'a\r\nb\r\n'),
    ('for:overflow-at-upper-limit', ['10 FOR I%=32766 TO 32767:PRINT I%:NEXT', '20 PRINT "no"'],
     b' 32766 \r\n 32767 \r\nOverflow in 10' + E),
    ('for:overflow-at-lower-limit', ['10 FOR I%=-32767 TO -32768 STEP -1:PRINT I%:NEXT', '20 PRINT "no"'],
     b'-32767 \r\n-32768 \r\nOverflow in 10' + E),
    ('for:ends-just-below-limit', ['10 FOR I%=32760 TO 32764 STEP 3:PRINT I%:NEXT:PRINT "E";I%'],
     b' 32760 \r\n 32763 \r\nE 32766 \r\n'),
    ('for:early-goto-out-of-inner-loop',
     ['10 FOR I%=1 TO 2', '20 FOR J%=1 TO 3', '30 IF J%=2 THEN GOTO 50', '40 PRINT I%;J%:NEXT J%', '50 PRINT "x";I%',
      '60 NEXT I%', '70 PRINT "done"'], b' 1  1 \r\nx 1 \r\n 2  1 \r\nx 2 \r\ndone\r\n'),
    ('for:early-goto-out-then-unnamed-next',
     ['10 FOR I%=1 TO 2', '20 FOR J%=1 TO 3', '30 IF J%=2 THEN 50', '40 PRINT I%;J%:NEXT', '50 PRINT "x";I%',
      '60 NEXT', '70 PRINT "done"'], b' 1  1 \r\nx 1 \r\n 2  1 \r\nx 2 \r\ndone\r\n'),
    ('while:loop', ['10 W%=0:WHILE W%<3:PRINT W%;:W%=W%+1:WEND:PRINT "E"'], b' 0  1  2 E\r\n'),
    ('while:false-at-entry', ['10 WHILE 0:PRINT "a":WHILE 1:PRINT "b":WEND:WEND:PRINT "E"'], b'E\r\n'),
    ('while:nested', ['10 A%=0:WHILE A%<2:B%=0:WHILE B%<2:PRINT A%;B%;:B%=B%+1:WEND:A%=A%+1:WEND:PRINT "E"'],
     b' 0  0  0  1  1  0  1  1 E\r\n'),
    ('gosub:return-resumes-after-call', ['10 GOSUB 100:PRINT "after":END', '100 PRINT "sub":RETURN'], b'sub\r\nafter\r\n'),
    ('gosub:return-inside-then-branch',
     ['10 IF 1=1 THEN PRINT "t":GOSUB 100:PRINT "u" ELSE PRINT "e"', '20 PRINT "n":END', '100 PRINT "s":RETURN'],
     b't\r\ns\r\nu\r\nn\r\n'),
    ('gosub:depth-20',
     ['10 GOSUB 100:PRINT "back";D%:END', '100 D%=D%+1:IF D%<20 THEN GOSUB 100', '110 PRINT D%;:D%=D%-1:RETURN'],
     b''.join(b' %d ' % (20 - k) for k in range(20)) + b'back 0 \r\n'),
    ('gosub:return-from-inside-loop',
     ['10 FOR I%=1 TO 2:GOSUB 100:NEXT:PRINT "E":END', '100 FOR J%=1 TO 3:IF J%=2 THEN RETURN', '110 PRINT I%;J%:NEXT:RETURN'],
     b' 1  1 \r\n 2  1 \r\nE\r\n'),
    ('on-goto:select', ['10 K%=2:ON K% GOTO 20,30,40', '20 PRINT "a"', '30 PRINT "b"', '40 PRINT "c"'], b'b\r\nc\r\n'),
    ('on-goto:zero-falls-through', ['10 K%=0:ON K% GOTO 30:PRINT "ft"', '20 PRINT "a"', '30 PRINT "b"'], b'ft\r\na\r\nb\r\n'),
    ('on-goto:beyond-list-falls-through', ['10 K%=3:ON K% GOTO 30,30:PRINT "ft"', '20 PRINT "a"', '30 PRINT "b"'],
     b'ft\r\na\r\nb\r\n'),
    ('on-goto:255-falls-through', ['10 ON 255 GOTO 30:PRINT "ft"', '20 END', '30 PRINT "b"'], b'ft\r\n'),
    ('on-gosub:select-and-return', ['10 K%=2:PRINT "a":ON K% GOSUB 20,30:PRINT "b":END', '20 PRINT "c":RETURN', '30 PRINT "d":RETURN'],
     b'a\r\nd\r\nb\r\n'),
    ('on-gosub:zero-falls-through', ['10 ON 0 GOSUB 20:PRINT "b":END', '20 PRINT "c":RETURN'], b'b\r\n'),
    ('if:else', ['10 IF 1=2 THEN PRINT "t" ELSE PRINT "e":PRINT "f"', '20 IF 1=1 THEN PRINT "t":PRINT "u" ELSE PRINT "e"',
                 '30 IF 1=2 THEN PRINT "t":PRINT "u"', '40 PRINT "n"'], b'e\r\nf\r\nt\r\nu\r\nn\r\n'),
    ('if:nested-else-binds-to-inner',
     ['10 IF 1=1 THEN IF 1=2 THEN PRINT "a" ELSE PRINT "b" ELSE PRINT "c"',
      '20 IF 1=2 THEN IF 1=2 THEN PRINT "a" ELSE PRINT "b" ELSE PRINT "c"',
      '30 IF 1=1 THEN IF 1=1 THEN PRINT "a" ELSE PRINT "b" ELSE PRINT "c"'], b'b\r\nc\r\na\r\n'),
    ('if:line-number-forms',
     ['10 IF 1=2 THEN 100 ELSE 30', '20 PRINT "no"', '30 IF 1=1 GOTO 50', '40 PRINT "no"', '50 IF 1=1 THEN 70', '60 PRINT "no"',
      '70 PRINT "end":END', '100 PRINT "wrong"'], b'end\r\n'),
    ('loop-after-then:for-inside-for', ['10 FOR I%=1 TO 2', '20 IF I%=1 THEN FOR J%=1 TO 2:PRINT I%;J%:NEXT J%', '30 PRINT "x";I%', '40 NEXT I%',
                                        '50 PRINT "e"'], b' 1  1 \r\n 1  2 \r\nx 1 \r\nx 2 \r\ne\r\n'),
    ('loop-after-then:for-inside-skipped-for', ['10 FOR I%=2 TO 1', '20 IF 1=1 THEN FOR J%=1 TO 2:PRINT "b":NEXT', '30 NEXT', '40 PRINT "e"'],
     b'e\r\n'),
    ('loop-after-else:for-inside-skipped-for', ['10 FOR I%=2 TO 1', '20 IF 1=2 THEN PRINT "t" ELSE FOR J%=1 TO 2:PRINT "b":NEXT J%', '30 NEXT I%',
                                                '40 PRINT "e"'], b'e\r\n'),
    ('loop-after-else:while-inside-while',
     ['10 W%=0:WHILE W%<2:W%=W%+1', '20 IF W%=5 THEN PRINT "t" ELSE WHILE V%<W%:V%=V%+1:PRINT W%;V%:WEND', '30 WEND', '40 PRINT "e"'],
     b' 1  1 \r\n 2  2 \r\ne\r\n'),
    ('loop-after-then:while-inside-false-while', ['10 WHILE 0', '20 IF 1=1 THEN WHILE 1:PRINT "b":WEND', '30 WEND', '40 PRINT "e"'], b'e\r\n'),
    ('loop-after-then:while-inside-for-and-for-inside-while',
     ['10 FOR I%=1 TO 2:V%=0', '20 IF I%=2 THEN WHILE V%<2:V%=V%+1:PRINT "w";V%:WEND', '30 NEXT',
      '40 W%=0:WHILE W%<2:W%=W%+1', '50 IF W%=1 THEN PRINT "t" ELSE FOR J%=1 TO 2:PRINT "f";J%:NEXT', '60 WEND:PRINT "e"'],
     b'w 1 \r\nw 2 \r\nt\r\nf 1 \r\nf 2 \r\ne\r\n'),
    ('loop-after-then:false-condition-skips-the-whole-loop',
     ['10 FOR I%=1 TO 2', '20 IF I%=3 THEN FOR J%=1 TO 2:PRINT "no":NEXT J%', '30 PRINT I%', '40 NEXT', '50 PRINT "e"'], b' 1 \r\n 2 \r\ne\r\n'),
    ('layout:blanks-after-line-number-and-around-colons',
     ['10     FOR I%=1 TO 2 : FOR J%=2 TO 1 :PRINT "no" : NEXT :  PRINT I% : NEXT', '20   PRINT "e"'], b' 1 \r\n 2 \r\ne\r\n'),
    ('mismatch:next-without-for', ['10 PRINT "a":NEXT I%', '20 PRINT "no"'], b'a\r\nNEXT without FOR in 10' + E),
    ('mismatch:next-without-for', ['10 PRINT "a"', '20 NEXT', '30 PRINT "no"'], b'a\r\nNEXT without FOR in 20' + E),
    ('mismatch:next-in-subroutine-of-loop', ['10 FOR I%=1 TO 2', '20 GOSUB 100', '30 NEXT', '40 END', '100 PRINT "S"', '110 NEXT'],
     b'S\r\nNEXT without FOR in 110' + E),
    ('mismatch:wend-without-while', ['10 PRINT "a"', '20 WEND', '30 PRINT "no"'], b'a\r\nWEND without WHILE in 20' + E),
    ('mismatch:wend-without-while', ['10 W%=0:WHILE W%<2:W%=W%+1:WEND:PRINT "x":WEND'], b'x\r\nWEND without WHILE in 10' + E),
    ('mismatch:return-without-gosub', ['10 PRINT "a":RETURN', '20 PRINT "no"'], b'a\r\nRETURN without GOSUB in 10' + E),
    ('mismatch:return-after-falling-into-subroutine', ['10 PRINT "a"', '100 PRINT "s"', '110 RETURN'],
     b'a\r\ns\r\nRETURN without GOSUB in 110' + E),
    ('mismatch:second-return', ['10 GOSUB 100', '20 PRINT "b":RETURN', '100 PRINT "s":RETURN'],
     b's\r\nb\r\nRETURN without GOSUB in 20' + E),
    ('mismatch:for-without-next', ['10 PRINT "a":FOR I%=1 TO 2:PRINT I%', '20 PRINT "b"'], b'a\r\nFOR without NEXT in 10' + E),
    ('mismatch:while-without-wend', ['10 PRINT "a":WHILE 1:PRINT "b"', '20 PRINT "c"'], b'a\r\nWHILE without WEND in 10' + E),
    ('multi-statement:goto-mid-line', ['10 PRINT "a":GOTO 30:PRINT "no"', '20 PRINT "no"', '30 PRINT "b":END:PRINT "no"'], b'a\r\nb\r\n'),
    ('stop', ['10 PRINT "a":STOP:PRINT "b"'], b'a\r\nBreak in 10' + E),
    ('nest-depth-5',
     ['10 FOR A%=1 TO 2:FOR B%=1 TO 1:FOR C%=2 TO 1 STEP -1:FOR D%=0 TO 0:FOR E%=1 TO 2',
      '20 T%=T%+1', '30 NEXT:NEXT:NEXT:NEXT:NEXT', '40 PRINT T%;A%;B%;C%;D%;E%'], b' 8  3  2  0  1  3 \r\n'),
]

# zero STEP with start <> end: the statement names no direction for a zero step, so either reading is
# accepted - the body never runs (start counted as already past) or the loop runs until it is stopped.
ZERO_STEP = [
    ('below', ['10 FOR I%=1 TO 3 STEP 0', '20 PRINT "B";I%', '30 NEXT', '40 PRINT "after"']),
    ('above', ['10 FOR I%=4 TO 3 STEP 0', '20 PRINT "B";I%', '30 NEXT', '40 PRINT "after"']),
    ('equal', ['10 FOR I%=3 TO 3 STEP 0', '20 PRINT "B";I%', '30 NEXT', '40 PRINT "after"']),
]


def _directed(res):
    from .. import harness
    for key, lines, expected in DIRECTED:
        blines = [l.encode('ascii') for l in lines]
        res.case(('directed', tuple(lines)))
        res.count('directed_cases')
        try:
            with harness.Box(budget=2000) as box:
                out = box.run(blines, budget=2000)
        except harness.Internal as e:
            res.violation(e.key, str(e), {'lines': blines})
            continue
        if out != expected:
            k = key if key.startswith('diverge-after:') else 'directed:' + key
            res.violation(k, 'program %r printed %r, reference semantics give %r' % (lines, out, expected),
                          {'lines': blines, 'output': out, 'expected': expected})
    res.sample({'kind': 'directed', 'program': DIRECTED[16][1], 'expected': DIRECTED[16][2]})
    for name, lines in ZERO_STEP:
        blines = [l.encode('ascii') for l in lines]
        res.case(('zero-step', name))
        res.count('directed_cases')
        try:
            with harness.Box(budget=60) as box:
                out = box.run(blines, budget=60)
                broke = box.stepper.break_hit
        except harness.Internal as e:
            res.violation(e.key, str(e), {'lines': blines})
            continue
        bodies = out.count(b'B ')
        if broke and bodies >= 25 and b'after' not in out:
            res.count('zero_step_ran_until_stopped')
        elif not broke and bodies == 0 and out == b'after\r\n' and name != 'equal':
            res.count('zero_step_ran_zero_times')
        else:
            res.violation('for:zero-step:start-%s-end:body-ran-%s-then-loop-ended' % (name, 'once' if bodies == 1 else 'a-few-times'),
                          'FOR I%%=%s ran its body %d time(s) and then left the loop (%r); with a zero step the counter '
                          'never passes the end: accepted are zero times or running until stopped' % (lines[0][10:], bodies, out[:80]),
                          {'lines': blines, 'output': out})


# ---------------------------------------------------------------------------------------------------
# nested one-line IFs: every form at every level, all truth combinations; expected output by structural
# recursion over the tree (independent of R-CTRL's flattened lines and of the generator)

def _if_shapes(level, maxlevel, need_else, counter):
    """All IF trees: node = (var, form, then, els); then/els = ('jump', k) | ('stmts', tag, nested|None) | None."""
    var = 'ABC'[level - 1]
    out = []
    inner_ok = level < maxlevel
    for form in ('then', 'line', 'goto'):
        for has_else in ((True,) if need_else else (False, True)):
            thens = []
            if form == 'then':
                thens.append(('stmts', None))
                if inner_ok:
                    for n in _if_shapes(level + 1, maxlevel, has_else, counter):
                        thens.append(('stmts', n))
            else:
                thens.append(('jump',))
            if not has_else:
                elses = [None]
            else:
                elses = [('stmts', None), ('jump',)]
                if inner_ok:
                    for n in _if_shapes(level + 1, maxlevel, need_else, counter):
                        elses.append(('stmts', n))
            for t in thens:
                for e in elses:
                    out.append((var, form, t, e))
    return out


def _if_text(node, names):
    """-> (text, labelled node) assigning tags / jump numbers in textual order."""
    var, form, t, e = node

    def branch(b):
        if b is None:
            return None, None
        if b[0] == 'jump':
            names['j'] += 1
            return '%d' % (100 + names['j']), ('jump', names['j'])
        names['t'] += 1
        tag = 'p%d' % names['t']
        text = 'PRINT "%s;";' % tag
        nested = None
        if b[1] is not None:
            ntext, nested = _if_text(b[1], names)
            text += ':' + ntext
        return text, ('stmts', tag, nested)
    ttext, tl = branch(t)
    if form == 'goto':
        text = 'IF %s GOTO %s' % (var, ttext)
    else:
        text = 'IF %s THEN %s' % (var, ttext)
    etext, el = branch(e)
    if etext is not None:
        text += ' ELSE ' + etext
    return text, (var, tl, el)


def _if_eval(node, env, out):
    """Returns the jump number taken, or None when control falls to the next line."""
    var, t, e = node
    b = t if env[var] else e
    if b is None:
        return None
    if b[0] == 'jump':
        return b[1]
    out.append(b[1] + ';')
    if b[2] is not None:
        return _if_eval(b[2], env, out)
    return None


def _if_table(res):
    from .. import harness
    shapes = _if_shapes(1, 2, False, None)
    deep = _if_shapes(1, 3, False, None)
    pick = random.Random('C19:if-table')
    shapes = shapes + pick.sample(deep, min(len(deep), 260))
    n = 0
    with harness.Box(budget=200) as box:
        for shape in shapes:
            names = {'t': 0, 'j': 0}
            text, node = _if_text(shape, names)
            if len(text) > 230:
                continue
            nvars = 3 if (' C ' in text or 'IF C' in text) else 2
            for bits in range(1 << nvars):
                env = {'A': bits & 1, 'B': (bits >> 1) & 1, 'C': (bits >> 2) & 1}
                lines = ['10 A=%d:B=%d:C=%d' % (env['A'], env['B'], env['C']), '20 ' + text, '30 PRINT "N":END']
                for k in range(1, names['j'] + 1):
                    lines.append('%d PRINT "J%d":END' % (100 + k, k))
                toks = []
                j = _if_eval(node, env, toks)
                expected = (''.join(toks) + ('N' if j is None else 'J%d' % j) + '\r\n').encode('ascii')
                try:
                    out = box.run([l.encode('ascii') for l in lines], budget=200)
                except harness.Internal as e:
                    res.violation(e.key, str(e), {'lines': lines})
                    continue
                n += 1
                if out != expected:
                    forms = sorted(set(w for w in ('THEN', 'GOTO', 'ELSE') if w in text))
                    res.violation('if-table:nested-one-line-if:wrong-branch',
                                  '%r with A=%d B=%d C=%d printed %r, an ELSE pairs with the nearest unmatched IF: %r'
                                  % (text, env['A'], env['B'], env['C'], out, expected), {'lines': lines, 'forms': forms})
    # every statement of the skip vocabulary inside each kind of skipped region (expected outputs fixed by hand)
    m = 0
    with harness.Box(budget=200) as box:
        for t in G.SAFE_NOPS + G.DEAD_NOPS:
            forms = [
                ('false-if-then', ['10 IF 1=0 THEN %s:PRINT "no" ELSE PRINT "e"' % t, '20 PRINT "f"'], b'e\r\nf\r\n'),
                ('false-if-no-else', ['10 IF 1=0 THEN %s:PRINT "no"' % t, '20 PRINT "f"'], b'f\r\n'),
                ('true-if-else-skipped', ['10 IF 1=1 THEN PRINT "t" ELSE %s:PRINT "no"' % t, '20 PRINT "f"'], b't\r\nf\r\n'),
                ('nested-false-if', ['10 IF 1=0 THEN IF 1=1 THEN %s ELSE %s:PRINT "no" ELSE PRINT "e"' % (t, t), '20 PRINT "f"'], b'e\r\nf\r\n'),
                ('zero-trip-for', ['10 FOR I=1 TO 0:%s:PRINT "no":NEXT:PRINT "e"' % t], b'e\r\n'),
                ('zero-trip-for-over-lines', ['10 FOR I=1 TO 0', '20 %s' % t, '30 PRINT "no":%s' % t, '40 NEXT I', '50 PRINT "e"'], b'e\r\n'),
                ('false-while', ['10 WHILE 0:%s:PRINT "no":WEND:PRINT "e"' % t], b'e\r\n'),
                ('data-scan', ['10 GOTO 30', '20 %s:DATA 5' % t, '30 READ A:PRINT A'], b' 5 \r\n'),
                ('gosub-return', ['10 GOSUB 40:PRINT "b":END', '20 %s' % t, '40 RETURN'], b'b\r\n'),
            ]
            for name, lines, expected in forms:
                try:
                    out = box.run([l.encode('ascii') for l in lines], budget=200)
                except harness.Internal as e:
                    res.violation(e.key, str(e), {'lines': lines})
                    continue
                m += 1
                if out != expected:
                    res.violation('skip-table:%s:statement-not-stepped-over' % name,
                                  'program %r printed %r, expected %r' % (lines, out, expected), {'lines': lines})
    n += m
    res.count('skip_table_programs', m)
    res.bulk(n, n)
    res.count('if_table_programs', n - m)
    res.sample({'kind': 'if_table', 'line': _if_text(shapes[40], {'t': 0, 'j': 0})[0], 'programs': n})


def run_shard(spec, res):
    if spec['kind'] == 'directed':
        return _directed(res)
    if spec['kind'] == 'if_table':
        return _if_table(res)
    from .. import harness
    rng = random.Random('%s:C19:%s:%s' % (spec['seed'], spec['kind'], spec.get('part', 0)))
    for i in range(spec['n']):
        prog = G.gen_c19(rng)
        for name, n in prog['features'].items():
            if name.startswith('max_'):
                res.maxc(name, n)
            elif name != 'est_steps':
                res.count('gen_' + name, n)
        v = run_and_judge(prog, BUDGET, res, harness)
        if i < 1 and spec.get('part', 0) < 3:
            lines, _ = G.to_basic(prog)
            res.sample({'kind': 'random', 'program': lines[:40], 'reference_trace_head': bytes(v.machine.out[:200]) if v and v.machine else None})
