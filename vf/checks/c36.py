"""
C36 The text cursor and screen content stay consistent.

Oracles
 (a) invariant (M-INV): after ANY statement (every statement boundary of every line / program, every class of
     workload incl. control codes, line editing, errors, mode switches) the text cursor the interpreter keeps
     is inside 1..height x 1..width, every cursor position sent to the display is inside the screen, and
     CSRLIN / POS(0) are inside the screen and report that cursor (or, when a character was just written in the
     last column, the documented convention POS = 1 and CSRLIN = the row where output continues).
 (b) LOCATE r,c: moves exactly there (CSRLIN = r, POS(0) = c, next character lands at (r, c)) or raises
     Illegal function call; positions outside the screen must raise it, positions inside the scroll window
     must be accepted.
 (c) reference model R-TXT (vf.models.c36_rtxt) for plain text on a cleared screen: after every step the whole
     character grid (Session.get_chars), CSRLIN, POS(0) and SCREEN(r, c) samples equal the model: wrapping at
     the width, scrolling only inside the VIEW PRINT window, rows outside unchanged.
"""
import hashlib
import logging
import random

from ..models.c36_rtxt import RTxt

logging.disable(logging.WARNING)

META = {
    'property_id': 'C36',
    'technique': 'reference-model monitor (R-TXT plain-text placement) + cursor-range invariant at every statement boundary + LOCATE/CSRLIN/POS/SCREEN() read-back',
    'level': 'exploration',
    'level_text': (
        'Runtime oracle on real sessions in text modes (40/80 columns; CGA, EGA, VGA, MDA, Tandy) and graphics modes '
        '(SCREEN 1, 2, 7, 9, Hercules 3, PCjr 3/5/6): histories of PRINT of printable strings (length 0-400, with ; or '
        'newline), LOCATE over the whole range +-2, CLS, VIEW PRINT a TO b, WIDTH 40/80 are mirrored by an independent '
        'placement model and compared cell by cell after every step; segments with control codes, zones, numbers, KEY '
        'ON/OFF, INPUT line editing and mode switches check the cursor-range and report-consistency invariants only. '
        'Held = no disagreement on the observed histories.'),
    'level_note': (
        'Trusted: harness, R-TXT. The reference placement includes GW-BASIC\'s PRINT rule: an output item that does not fit '
        'in the rest of the row (cursor not in column 1) starts on the next row; it is demanded for PRINT of strings of '
        'every composition (spaces, bytes 128-254), several items, numbers, WRITE and PRINT# to SCRN:. Control characters '
        'are not generated in modelled output. Not pinned by the statement and therefore accepted either way / not '
        'generated: whether WRITE / PRINT# end a line that filled the last column with one or two row advances; whether the wrap after a PRINT ...; that ends exactly in the last column of '
        'the window\'s bottom row scrolls at once or only when the next character arrives (both accepted and counted; '
        'pcbasic does either depending on a stale line-continuation flag of that row); where VIEW PRINT, WIDTH and SCREEN leave the cursor (the model is '
        're-synchronised by LOCATE / CLS after them); output on row 25 and SCREEN(r,c) outside an active VIEW PRINT '
        'window (not generated in modelled segments; after output on row 25 the model continues from the observed screen '
        'or from a CLS, without another LOCATE); attributes; LOCATE to a row outside an active window or to row '
        '25 may either move there or raise error 5. The column-80 convention (POS=1, CSRLIN=row of the next character) '
        'is what GW-BASIC documents and is the only reading of "report it" in that state that was accepted.'),
    'rule': ('case = (mode, history of steps up to the compared step); distinct by that; non-trivial = the step printed at least '
             'one character, moved the cursor, scrolled or changed the window'),
    'design_ref': 'DESIGN.md section 4 C36',
    'assumptions': ['GW-BASIC screen-editor semantics as encoded in vf/models/c36_rtxt.py'],
    'require_counters': {'any': ['model_steps', 'wraps_seen', 'scrolls_seen', 'scrolls_inside_view_window', 'rows_outside_window_checked',
                                 'locate_ok', 'locate_error5', 'last_column_state_seen', 'boundary_invariant_checks', 'row25_followups_completed', 'next_char_probes', 'new_line_rule_decided_placement',
                                 'new_line_rule_decided_placement_string_with_spaces', 'output_steps_items', 'output_steps_numbers',
                                 'output_steps_write', 'output_steps_file', 'repositions_from_last_column_state',
                                 'screen_fn_samples', 'wild_steps', 'graphics_mode_histories', 'width40_histories',
                                 'control_code_steps']},
    'timeout': {'quick': 900, 'thorough': 7200},
}

MODES = [
    # (name, Box kwargs, setup statements, text width)
    ('cga-text80', dict(video='cga'), [b'SCREEN 0', b'WIDTH 80'], 80),
    ('cga-text40', dict(video='cga'), [b'SCREEN 0', b'WIDTH 40'], 40),
    ('ega-text80', dict(video='ega'), [b'SCREEN 0', b'WIDTH 80'], 80),
    ('vga-text40', dict(video='vga'), [b'SCREEN 0', b'WIDTH 40'], 40),
    ('mda-text80', dict(video='mda', monitor='mono'), [b'SCREEN 0', b'WIDTH 80'], 80),
    ('tandy-text80', dict(video='tandy', syntax='tandy'), [b'SCREEN 0', b'WIDTH 80'], 80),
    ('pcjr-text40', dict(video='pcjr', syntax='pcjr'), [b'SCREEN 0', b'WIDTH 40'], 40),
    ('cga-screen1', dict(video='cga'), [b'SCREEN 1'], 40),
    ('cga-screen2', dict(video='cga'), [b'SCREEN 2'], 80),
    ('ega-screen7', dict(video='ega'), [b'SCREEN 7'], 40),
    ('ega-screen9', dict(video='ega'), [b'SCREEN 9'], 80),
    ('vga-screen8', dict(video='vga'), [b'SCREEN 8'], 80),
    ('hercules-screen3', dict(video='hercules', monitor='mono'), [b'SCREEN 3'], 80),
    ('pcjr-screen3', dict(video='pcjr', syntax='pcjr'), [b'SCREEN 3'], 20),
    ('tandy-screen5', dict(video='tandy', syntax='tandy'), [b'SCREEN 5'], 40),
    ('tandy-screen6', dict(video='tandy', syntax='tandy'), [b'SCREEN 6'], 80),
    ('olivetti-screen3', dict(video='olivetti'), [b'SCREEN 3'], 80),
]
MODE_WEIGHTS = [0, 0, 0, 1, 1, 2, 3, 4, 5, 6, 7, 8, 9, 10, 11, 12, 13, 14, 15, 16]

PRINTABLE = b' !#$%&\'()*+,-./0123456789:;<=>?@ABCDEFGHIJKLMNOPQRSTUVWXYZ[\\]^_`abcdefghijklmnopqrstuvwxyz{|}~'


def plan(tier, seed):
    shards = [{'kind': 'directed'}]
    if tier == 'quick':
        for i in range(15):
            shards.append({'kind': 'histories', 'n': 32, 'len': 42, 'part': i})
    else:
        for i in range(96):
            shards.append({'kind': 'histories', 'n': 110, 'len': 48, 'part': i})
    return shards


def rstr(rng, n):
    return bytes(rng.choice(PRINTABLE) for _ in range(n))


def rtext(rng, n):
    """Printable text of varied composition: plain, space-heavy, only spaces, spaces at the ends, bytes 128-254."""
    k = rng.random()
    if k < 0.35:
        return rstr(rng, n)
    if k < 0.6:
        return bytes(32 if rng.random() < 0.5 else rng.choice(PRINTABLE) for _ in range(n))
    if k < 0.68:
        return b' ' * n
    if k < 0.8:
        a = rng.randint(0, n)
        b = rng.randint(0, n - a)
        return b' ' * a + rstr(rng, n - a - b) + b' ' * b
    if k < 0.9:
        return bytes(rng.choice([rng.randint(128, 254), 32, rng.choice(PRINTABLE)]) for _ in range(n))
    words = b''
    while len(words) < n:
        words += rstr(rng, rng.randint(1, 9)).replace(b' ', b'x') + b' ' * rng.randint(1, 3)
    return words[:n]


class Run(object):
    """One session under test + its model."""

    def __init__(self, harness, res, rng, mode):
        self.h, self.res, self.rng = harness, res, rng
        self.name, self.kw, self.setup, self.width = mode
        self.history = []
        self.digest = b''
        self.model = None
        self.bad = 0

    def case(self):
        return {'mode': self.name, 'history': list(self.history)}

    # -- invariants -------------------------------------------------------------------------------------
    def dims(self):
        ch = self.box.s.get_chars()
        return len(ch), len(ch[0])

    def check_internal(self, when):
        """The interpreter's own cursor is inside the screen."""
        ts = self.box.impl.text_screen
        H, W = self.dims()
        r, c = ts.current_row, ts.current_col
        self.res.count('boundary_invariant_checks')
        if not (1 <= r <= H and 1 <= c <= W):
            self.res.violation('cursor:outside-screen', '%s: text cursor at row %d col %d on a %dx%d screen (%s) after %r' % (
                self.name, r, c, H, W, when, self.history[-1:]), self.case())
            self.bad += 1
            return False
        return True

    def check_signals(self):
        """Where the statement leaves the display's cursor (its last move_cursor signal) is inside the screen."""
        H, W = self.dims()
        last = None
        for s in self.video.drain():
            if s.event_type == 'set_mode':
                self.sig_dims = (s.params[2], s.params[3])
                last = None
            elif s.event_type == 'move_cursor':
                last = (s.params[0], s.params[1])
        if last is not None:
            row, col = last
            sh, sw = getattr(self, 'sig_dims', (H, W))
            self.res.count('cursor_signals_checked')
            if not (1 <= row <= sh and 1 <= col <= sw):
                self.res.violation('cursor:display-position-outside-screen', '%s: the display cursor is left at row %d col %d on %dx%d after %r' % (
                    self.name, row, col, sh, sw, self.history[-1:]), self.case())
                self.bad += 1

    def boundary(self, n, queues):
        self.check_internal('statement boundary')

    def reports(self):
        """(CSRLIN, POS(0)) at BASIC level."""
        try:
            return self.box.ev(b'CSRLIN'), self.box.ev(b'POS(0)')
        except self.h.Internal as e:
            self.res.violation(e.key, str(e), self.case())
            return None, None

    def check_reports(self):
        """CSRLIN / POS inside the screen and consistent with the kept cursor."""
        H, W = self.dims()
        ts = self.box.impl.text_screen
        r, c = ts.current_row, ts.current_col
        cs, ps = self.reports()
        if cs is None or ps is None:
            return
        if not (1 <= cs <= H and 1 <= ps <= W):
            self.res.violation('report:outside-screen', '%s: CSRLIN=%r POS(0)=%r on a %dx%d screen after %r' % (
                self.name, cs, ps, H, W, self.history[-1:]), self.case())
            self.bad += 1
            return
        if (cs, ps) == (r, c):
            return
        if c == W and ps == 1 and cs in (r, r + 1):
            self.res.count('last_column_state_seen')
            return
        self.res.violation('report:differs-from-cursor', '%s: CSRLIN=%d POS(0)=%d but the cursor is kept at row %d col %d after %r' % (
            self.name, cs, ps, r, c, self.history[-1:]), self.case())
        self.bad += 1

    def probe(self, after):
        """
        "CSRLIN and POS report it": the next character must land in the cell they report.  Reads (CSRLIN, POS),
        prints one marker character with ';' and looks where it went.  Only inside the scroll area (output on
        row 25 / outside an active window is not pinned).  Returns (row, col) reported, or None if not probed.
        `after` names the class of the statement that positioned the cursor (mechanism for the key).
        """
        res = self.res
        H, W = self.dims()
        cs, ps = self.reports()
        if cs is None or ps is None or not (1 <= cs <= H and 1 <= ps <= W):
            return None
        sa = self.box.impl.text_screen.scroll_area
        if not (sa.top <= cs <= sa.bottom):
            return None
        before = self.box.s.get_chars()
        old = before[cs - 1][ps - 1]
        marker = b'#' if old != b'#' else b'@'
        out = self.ex(b'PRINT "%s";' % marker)
        if self.err(out):
            return None
        res.count('next_char_probes')
        res.case((self.name, 'probe', after, self.digest))
        now = self.box.s.get_chars()
        if now[cs - 1][ps - 1] != marker:
            landed = [(r + 1, c + 1) for r in range(H) for c in range(W) if now[r][c] == marker and before[r][c] != marker][:3]
            res.violation('cursor:next-character-not-at-reported-position:after-%s' % after,
                          '%s: CSRLIN=%d POS(0)=%d after %r, but the next character printed went to %r (cell %d,%d holds %r)' % (
                              self.name, cs, ps, self.history[-2:-1], landed, cs, ps, now[cs - 1][ps - 1]), self.case())
            self.bad += 1
            return None
        return cs, ps

    # -- running ---------------------------------------------------------------------------------------------
    def ex(self, cmd, keys=None, record=True):
        box = self.box
        if record:
            self.history.append(cmd if keys is None else [cmd, keys])
            self.digest = hashlib.blake2b(self.digest + repr((cmd, keys)).encode(), digest_size=8).digest()
        if keys:
            box.keys(keys)
        box.stepper.on_boundary_cb = self.boundary
        try:
            out = box.ex(cmd, 3000)
        except self.h.Internal as e:
            self.res.violation(e.key, str(e), self.case())
            out = None
        finally:
            box.stepper.on_boundary_cb = None
        q = box.impl.queues.inputs
        try:
            while True:
                q.get(False)
        except Exception:
            pass
        self.check_internal('end of line')
        self.check_signals()
        return out

    def err(self, out):
        return self.h.err_of(out)[0] if out is not None else -1

    def resync(self):
        """Back to a cleared screen with a known cursor: start of a modelled segment."""
        self.scrn_open = False
        for cmd in (b'KEY OFF', b'VIEW PRINT', b'CLS', b'LOCATE 1,1'):
            out = self.ex(cmd)
            if self.err(out):
                self.res.inconclusive('C36: %s failed during re-synchronisation in %s' % (cmd.decode(), self.name))
                return False
        H, W = self.dims()
        self.model = RTxt(W, H)
        self.width = W
        self.res.count('resyncs')
        return self.compare('resync', True)

    # -- model comparison ----------------------------------------------------------------------------------------
    def observe(self):
        ch = self.box.s.get_chars()
        grid = [[ord(c) for c in row] for row in ch]
        cs, ps = self.reports()
        return grid, cs, ps

    def matches(self, m, obs):
        grid, cs, ps = obs
        return grid == m.grid and cs == m.csrlin() and ps == m.pos()

    def compare(self, what, nontrivial, alts=None):
        """Compare the session with the model (or any of the alternative models); adopt the matching one."""
        res = self.res
        if alts is None:
            self.rule_matters = False
        obs = self.observe()
        res.count('model_steps')
        res.case((self.name, len(self.history), self.digest), nontrivial=nontrivial)
        cands = alts if alts else [self.model]
        for i, m in enumerate(cands):
            if self.matches(m, obs):
                if alts and len(alts) > 1:
                    tags = getattr(self, 'alt_tags', None) or []
                    if i < len(tags):
                        if any(t[0] != tags[i][0] for t in tags):
                            res.count('print_break_rule_followed' if tags[i][0] else 'print_break_rule_not_followed')
                        if any(t[1] != tags[i][1] for t in tags):
                            res.count('wrap_at_last_column_completed_at_once' if tags[i][1] else 'wrap_at_last_column_deferred')
                self.model = m
                self.sample_screen_fn()
                return True
        m = cands[0]
        grid, cs, ps = obs
        if grid != m.grid:
            diff_rows = [i for i in range(len(grid)) if grid[i] != m.grid[i]]
            # a changed row outside the scroll area names the mechanism best
            r = next((i for i in diff_rows if not m.in_window(i + 1)), diff_rows[0])
            c = next(j for j in range(len(grid[r])) if grid[r][j] != m.grid[r][j])
            outside = not m.in_window(r + 1)
            key = 'text:row-outside-window-changed' if outside else (
                'text:placement:string-not-fitting-in-rest-of-row' if getattr(self, 'rule_matters', False) else (
                    'text:placement:after-scroll' if m.scrolls else ('text:placement:after-wrap' if m.wraps else 'text:placement')))
            res.violation(key, '%s: after %s the screen has %r at row %d col %d, the reference %r (window %d-%d, model cursor %d,%d%s)' % (
                self.name, what, chr(grid[r][c]), r + 1, c + 1, chr(m.grid[r][c]), m.top, m.bottom, m.row, m.col,
                ' wrapped' if m.wrapped else ''), self.case())
        else:
            key = 'report:csrlin-pos-vs-reference' + (':last-column' if m.wrapped else '')
            res.violation(key, '%s: after %s CSRLIN=%r POS(0)=%r, reference cursor %d,%d (%s)' % (
                self.name, what, cs, ps, m.csrlin(), m.pos(), 'after a character in the last column' if m.wrapped else 'plain'), self.case())
        self.bad += 1
        self.model = None
        return False

    def sample_screen_fn(self):
        m, rng = self.model, self.rng
        for _ in range(3):
            r = rng.randint(m.top, m.bottom) if m.view else rng.randint(1, m.h)
            c = rng.randint(1, m.w)
            try:
                v = self.box.ev(b'SCREEN(%d,%d)' % (r, c))
            except self.h.Internal as e:
                self.res.violation(e.key, str(e), self.case())
                return
            self.res.count('screen_fn_samples')
            if v != m.screen(r, c):
                self.res.violation('screen-fn:value', '%s: SCREEN(%d,%d)=%r, last character written there is %r' % (
                    self.name, r, c, v, m.screen(r, c)), self.case())
                self.bad += 1
                return

    # -- modelled steps ---------------------------------------------------------------------------------------------
    def alternatives(self, words, newline, single_newline_too=False):
        """
        Reference placements of a sequence of output items (each item is subject to the rule "an item that does
        not fit in the rest of the row starts on the next row"), over the timings the statement does not pin.
        """
        m = self.model
        alts, tags = [], []
        for single in ((False, True) if single_newline_too else (False,)):
            for eager in (False, True):
                c = m.copy()
                c.break_rule = True
                for w in words[:-1]:
                    c.print_(w, False)
                c.print_(words[-1] if words else b'', newline, eager_final=eager, single_newline=single)
                st = (c.grid, c.row, c.col, c.wrapped)
                if not any(st == (o.grid, o.row, o.col, o.wrapped) for o in alts):
                    alts.append(c)
                    tags.append((True, eager))
        self.alt_tags = tags
        # diagnosis only: would the placement without the new-line rule differ?
        c = m.copy()
        c.break_rule = False
        for w in words[:-1]:
            c.print_(w, False)
        c.print_(words[-1] if words else b'', newline)
        self.rule_matters = c.grid != alts[0].grid
        return alts

    def step_output(self, kind, words, newline=True):
        """
        Output through another route than a single PRINT "string":
          items    PRINT "a";"b";...        each item placed by the rule separately
          numbers  PRINT n;n;...            an item is sign-or-space, digits, one space
          write    WRITE "a",n,...          one item: "a",n,... and one carriage return
          file     PRINT #1,"a";"b" to SCRN: opened FOR OUTPUT; one carriage return
        """
        m = self.model
        before_scrolls, before_wraps = m.scrolls, m.wraps
        if kind == 'items':
            cmd = b'PRINT ' + b';'.join(b'"%s"' % w for w in words) + (b'' if newline else b';')
            alts = self.alternatives(words, newline)
        elif kind == 'numbers':
            cmd = b'PRINT ' + b';'.join(b'%d' % n for n in words) + (b'' if newline else b';')
            alts = self.alternatives([(b' %d ' % n) if n >= 0 else (b'%d ' % n) for n in words], newline)
        elif kind == 'write':
            parts = [(b'"%s"' % w) if isinstance(w, bytes) else (b'%d' % w) for w in words]
            cmd = b'WRITE ' + b','.join(parts)
            newline = True
            alts = self.alternatives([b','.join(parts)], True, single_newline_too=True)
        elif kind == 'file':
            if not getattr(self, 'scrn_open', False):
                if self.err(self.ex(b'CLOSE:OPEN "SCRN:" FOR OUTPUT AS 1')):
                    self.model = None
                    return
                self.scrn_open = True
            cmd = b'PRINT#1,' + b';'.join(b'"%s"' % w for w in words) + (b'' if newline else b';')
            alts = self.alternatives(words, newline, single_newline_too=True)
        else:
            raise ValueError(kind)
        if len(cmd) > 250:
            return
        out = self.ex(cmd)
        if self.err(out):
            self.res.violation('print:unexpected-error', '%s: %s output raised error %d' % (self.name, kind, self.err(out)), self.case())
            self.model = None
            return
        self.res.count('output_steps_' + kind)
        if self.rule_matters:
            self.res.count('new_line_rule_decided_placement')
        ok = self.compare('%s output of %d item(s)%s from %d,%d%s' % (kind, len(words), '' if newline else ';', m.row, m.col,
                                                                     ' (wrapped)' if m.wrapped else ''), True, alts)
        if ok:
            m2 = self.model
            if m2.scrolls > before_scrolls:
                self.res.count('scrolls_seen', m2.scrolls - before_scrolls)
            if m2.wraps > before_wraps:
                self.res.count('wraps_seen', m2.wraps - before_wraps)

    def step_print(self, s, newline):
        m = self.model
        before_scrolls, before_wraps = m.scrolls, m.wraps
        alts = self.alternatives([s], newline)
        tags = self.alt_tags
        if self.rule_matters:
            self.res.count('new_line_rule_decided_placement')
            if b' ' in s:
                self.res.count('new_line_rule_decided_placement_string_with_spaces')
        out = self.ex(b'PRINT "%s"%s' % (s, b'' if newline else b';'))
        if len(self.res.samples) < 4 and len(s) > 20:
            self.res.sample({'mode': self.name, 'step': 'PRINT', 'chars': len(s), 'newline': newline, 'from': [m.row, m.col, m.wrapped],
                             'window': [m.top, m.bottom], 'reference_cursor_after': [alts[0].csrlin(), alts[0].pos()],
                             'reference_scrolls': alts[0].scrolls - before_scrolls, 'text': s[:40]})
        if self.err(out):
            self.res.violation('print:unexpected-error', '%s: PRINT of a plain string raised error %d' % (self.name, self.err(out)), self.case())
            self.model = None
            return
        ok = self.compare('PRINT of %d characters%s from %d,%d%s' % (len(s), '' if newline else ';', m.row, m.col, ' (wrapped)' if m.wrapped else ''),
                          bool(s) or newline, alts)
        if ok:
            m2 = self.model
            if m2.scrolls > before_scrolls:
                self.res.count('scrolls_seen', m2.scrolls - before_scrolls)
                if m2.view:
                    self.res.count('scrolls_inside_view_window', m2.scrolls - before_scrolls)
                    self.res.count('rows_outside_window_checked', m2.h - (m2.bottom - m2.top + 1))
            if m2.wraps > before_wraps:
                self.res.count('wraps_seen', m2.wraps - before_wraps)
            if m2.wrapped:
                self.res.count('ended_in_last_column')

    def step_locate(self, r, c):
        """LOCATE with any r, c: moves there or raises 5 (must raise outside the screen, must move inside the window)."""
        m = self.model
        H, W = m.h, m.w
        out = self.ex(b'LOCATE %d,%d' % (r, c))
        code = self.err(out)
        on_screen = 1 <= r <= H and 1 <= c <= W
        must_accept = on_screen and m.in_window(r)
        self.res.case((self.name, 'locate', r, c, m.top, m.bottom, m.wrapped, self.digest))
        if len(self.res.samples) < 6 and not on_screen:
            self.res.sample({'mode': self.name, 'step': 'LOCATE', 'row': r, 'col': c, 'error': code})
        if code == 0:
            self.res.count('locate_ok')
            if not on_screen:
                self.res.violation('locate:accepted-outside-screen', '%s: LOCATE %d,%d accepted on a %dx%d screen' % (self.name, r, c, H, W), self.case())
                self.bad += 1
                self.model = None
                return
            cs, ps = self.reports()
            if (cs, ps) != (r, c):
                key = 'locate:not-at-requested-cell' + (':from-last-column-state' if m.wrapped else '')
                self.res.violation(key, '%s: LOCATE %d,%d accepted but CSRLIN=%r POS(0)=%r (cursor was %d,%d%s)' % (
                    self.name, r, c, cs, ps, m.row, m.col, ', after a character in the last column' if m.wrapped else ''), self.case())
                self.bad += 1
                self.model = None
                return
            m.locate(r, c)
            if not m.in_window(r):
                # legal but outside the modelled window (row 25): only the report was checked; come back
                self.res.count('locate_outside_window_accepted')
                r2 = self.rng.randint(m.top, m.bottom)
                if self.err(self.ex(b'LOCATE %d,1' % r2)) == 0:
                    m.locate(r2, 1)
                else:
                    self.model = None
                    return
            self.compare('LOCATE %d,%d' % (r, c), True)
        elif code == 5:
            self.res.count('locate_error5')
            if must_accept:
                self.res.violation('locate:rejected-inside-window', '%s: LOCATE %d,%d raised Illegal function call (window %d-%d, width %d)' % (
                    self.name, r, c, m.top, m.bottom, W), self.case())
                self.bad += 1
            # the error message was printed: the screen is no longer the modelled one
            self.model = None
        else:
            self.res.violation('locate:other-error', '%s: LOCATE %d,%d raised error %d' % (self.name, r, c, code), self.case())
            self.bad += 1
            self.model = None

    def step_cls(self):
        out = self.ex(b'CLS')
        if self.err(out):
            self.model = None
            return
        self.model.cls()
        self.compare('CLS', True)

    def step_view(self, a, b):
        m = self.model
        if a is None:
            out = self.ex(b'VIEW PRINT')
            m.view_print()
        else:
            out = self.ex(b'VIEW PRINT %d TO %d' % (a, b))
            m.view_print(a, b)
        if self.err(out):
            self.res.violation('view-print:unexpected-error', '%s: VIEW PRINT %r TO %r raised %d' % (self.name, a, b, self.err(out)), self.case())
            self.model = None
            return
        self.check_reports()
        # where VIEW PRINT leaves the cursor is not pinned; what is pinned is that the reported position is where
        # output continues. Either continue from the reported position (no LOCATE), or put the cursor somewhere known.
        if self.rng.random() < 0.5:
            self.adopt_by_probe('view-print')
            return
        r, c = self.rng.randint(m.top, m.bottom), self.rng.randint(1, m.w)
        if self.err(self.ex(b'LOCATE %d,%d' % (r, c))):
            self.res.violation('locate:rejected-inside-window', '%s: LOCATE %d,%d raised an error right after VIEW PRINT %r TO %r' % (
                self.name, r, c, a, b), self.case())
            self.model = None
            return
        m.locate(r, c)
        self.compare('VIEW PRINT %r TO %r + LOCATE' % (a, b), True)

    def adopt_by_probe(self, after):
        """Continue the model from the position BASIC reports, verified by where the next character lands."""
        m = self.model
        pos = self.probe(after)
        if pos is None:
            self.model = None
            return False
        # the probe printed one marker at the reported cell: mirror it
        if m.wrapped and pos == (m.csrlin(), m.pos()):
            pass        # the model's own wrapped state already stands for that position
        else:
            m.locate(*pos)
        before_scrolls = m.scrolls
        m.print_(b'#' if self.box.s.get_chars()[pos[0] - 1][pos[1] - 1] == b'#' else b'@', False)
        return self.compare('continuing at the reported position %d,%d after %s' % (pos[0], pos[1], after), True)

    def step_reposition_from_wrap(self, kind=None):
        """
        Fill the row up to and including the last column with PRINT ...; (cursor left in the pending-wrap state),
        execute a statement that repositions the cursor, then continue printing WITHOUT LOCATE: reported position
        and the cell of the next character must agree, and the model continues from there.
        """
        m, rng = self.model, self.rng
        W = m.w
        if m.wrapped:
            n = W
        else:
            n = W - m.col + 1
        self.step_print(rstr(rng, n) if n <= 240 else rstr(rng, 240), False)
        m = self.model
        if m is None or not m.wrapped:
            return
        kind = kind or rng.choice(['view-print', 'view-print', 'view-print-off', 'cls', 'locate', 'key', 'width', 'screen'])
        self.res.count('repositions_from_last_column_state')
        if kind == 'view-print':
            a = rng.randint(1, 24)
            b = rng.randint(a, 24)
            if self.err(self.ex(b'VIEW PRINT %d TO %d' % (a, b))):
                self.model = None
                return
            m.view_print(a, b)
            self.check_reports()
            self.adopt_by_probe('view-print')
        elif kind == 'view-print-off':
            if self.err(self.ex(b'VIEW PRINT')):
                self.model = None
                return
            wrapped, row, col = m.wrapped, m.row, m.col
            m.view_print()
            m.row, m.col, m.wrapped = row, col, wrapped
            self.check_reports()
            self.adopt_by_probe('view-print')
        elif kind == 'cls':
            if self.err(self.ex(b'CLS')):
                self.model = None
                return
            m.cls()
            if self.compare('CLS from the last-column state', True):
                self.adopt_by_probe('cls')
        elif kind == 'locate':
            r, c = rng.randint(m.top, m.bottom), rng.choice([1, W, rng.randint(1, W)])
            self.step_locate(r, c)
            if self.model is not None:
                self.adopt_by_probe('locate')
        else:
            cmd = {'key': rng.choice([b'KEY ON', b'KEY OFF']),
                   'width': b'WIDTH %d' % (40 if W == 80 else 80),
                   'screen': self.setup[0]}[kind]
            self.ex(cmd)
            self.model = None
            self.check_reports()
            self.probe(kind)

    def step_width(self):
        w = 40 if self.width == 80 else 80
        out = self.ex(b'WIDTH %d' % w)
        self.model = None
        if self.err(out) == 0:
            H, W = self.dims()
            self.res.count('width_switches')
            if W != w:
                self.res.violation('width:not-applied', '%s: WIDTH %d accepted but the screen has %d columns' % (self.name, w, W), self.case())
            self.check_reports()

    def step_row25(self, newline, col=None):
        """
        KEY OFF + LOCATE 25,c + PRINT on row 25 (what lands on row 25 is not pinned), then back into the modelled
        world WITHOUT another LOCATE: after a newline the observed screen and reported cursor are adopted, after
        PRINT ...; a CLS clears it; then plain PRINTs run down to the bottom of rows 1-24 and beyond: scrolling
        only inside rows 1-24, row 25 unchanged, reports consistent.
        """
        m, rng = self.model, self.rng
        if m.view:
            return
        W = m.w
        c = col or rng.randint(1, max(1, W - 12))
        out = self.ex(b'LOCATE 25,%d' % c)
        if self.err(out):
            self.model = None
            return
        cs, ps = self.reports()
        if (cs, ps) != (25, c):
            self.res.violation('locate:not-at-requested-cell', '%s: LOCATE 25,%d accepted but CSRLIN=%r POS(0)=%r' % (self.name, c, cs, ps), self.case())
            self.bad += 1
            self.model = None
            return
        out = self.ex(b'PRINT "%s"%s' % (rstr(rng, rng.randint(1, min(8, W - c))), b'' if newline else b';'))
        if self.err(out):
            self.model = None
            return
        self.check_reports()
        self.res.count('row25_excursions')
        if newline:
            grid, cs, ps = self.observe()
            if cs is None or not (1 <= cs <= 24):
                # where a newline leaves the cursor from row 25 is not pinned; only continue from inside the window
                self.model = None
                return
            m.grid = grid
            m.locate(cs, ps)
        else:
            if self.err(self.ex(b'CLS')):
                self.model = None
                return
            m.cls()
            if not self.compare('CLS after output on row 25', True):
                return
        # run down to the bottom of the scroll area and past it, no LOCATE in between
        n = (m.bottom - self.model.row) + rng.randint(3, 6)
        for i in range(n):
            if self.model is None:
                return
            if i == n // 2:
                self.step_print(rstr(rng, min(240, 2 * W + rng.randint(1, W))), rng.random() < 0.5)
            else:
                self.step_print(rstr(rng, rng.randint(0, 12)), True)
        if self.model is not None:
            self.res.count('row25_followups_completed')

    def step_ctrl_from_wrap(self, code):
        """A cursor-moving control code printed from the last-column state, then: report == cell of the next character."""
        m = self.model
        n = m.w if m.wrapped else m.w - m.col + 1
        self.step_print(rstr(self.rng, min(n, 240)), False)
        if self.model is None or not self.model.wrapped:
            return
        self.ex(b'PRINT CHR$(%d);' % code)
        self.model = None
        self.res.count('control_code_steps')
        self.res.count('control_codes_from_last_column_state')
        self.check_reports()
        self.probe('control-code')

    def fill_outside_rows(self):
        """Distinct text on every row, so that any movement of rows outside a later window is visible."""
        for r in range(1, self.model.h):
            s = (b'%02d' % r) + rstr(self.rng, min(self.model.w - 3, 8))
            if self.err(self.ex(b'LOCATE %d,1' % r)):
                self.model = None
                return
            # (step_print adopts a copy of the model: always go through self.model)
            self.model.locate(r, 1)
            self.step_print(s, False)
            if self.model is None:
                return

    # -- unmodelled steps (invariants only) -------------------------------------------------------------------------------
    def wild_step(self):
        r = self.rng
        W = self.width
        k = r.random()
        keys = None
        if k < 0.30:
            codes = [r.choice([7, 8, 9, 10, 11, 12, 13, 28, 29, 30, 31]) for _ in range(r.randint(1, 6))]
            parts = []
            for cd in codes:
                parts.append(b'CHR$(%d)' % cd)
                if r.random() < 0.5:
                    parts.append(b'"%s"' % rstr(r, r.randint(0, 2 * W)))
            cmd = b'PRINT ' + b';'.join(parts) + r.choice([b'', b';'])
            self.res.count('control_code_steps')
        elif k < 0.45:
            cmd = b'PRINT ' + b','.join(b'"%s"' % rstr(r, r.randint(0, 20)) for _ in range(r.randint(1, 9))) + r.choice([b'', b',', b';'])
        elif k < 0.55:
            cmd = b'PRINT TAB(%d)"%s";SPC(%d)%d;%d' % (r.randint(1, 300), rstr(r, r.randint(0, 10)), r.randint(0, 300), r.randint(-9999, 9999), r.randint(0, 99))
        elif k < 0.62:
            cmd = r.choice([b'KEY ON', b'KEY OFF', b'KEY LIST'])
        elif k < 0.72:
            cmd = b'LOCATE %d,%d:PRINT "%s"%s' % (r.choice([25, 24, r.randint(1, 25)]), r.choice([W, W - 1, r.randint(1, W)]), rstr(r, r.randint(0, 2 * W)),
                                                 r.choice([b'', b';']))
        elif k < 0.80:
            cmd = b'FOR I=1 TO %d:PRINT STRING$(%d,%d);:NEXT' % (r.randint(1, 40), r.choice([W - 1, W, W + 1, r.randint(1, 2 * W)]), r.randint(33, 126))
        elif k < 0.90:
            # line editing through INPUT (stored one-line program)
            ks = []
            for _ in range(r.randint(1, 30)):
                if r.random() < 0.55:
                    ks.append(chr(r.choice(PRINTABLE)))
                else:
                    ks.append(r.choice(['\x08', '\t', '\n', '\x1b', '\x05', '\x12', '\x0b', '\x0e', '\x1c', '\x1d', '\x1e', '\x1f', '\x06', '\x02', '\x7f', '\x0c']))
            if r.random() < 0.4:
                ks.insert(r.randrange(len(ks) + 1), ''.join(chr(r.choice(PRINTABLE)) for _ in range(r.randint(W - 5, 3 * W))))
            self.ex(r.choice([b'10 INPUT A$', b'10 LINE INPUT A$', b'10 INPUT "p";A$']))
            cmd, keys = b'RUN', ''.join(ks) + '\r'
            self.res.count('input_editing_steps')
        elif k < 0.95:
            a = r.randint(1, 24)
            cmd = r.choice([b'VIEW PRINT %d TO %d' % (a, r.randint(a, 24)), b'VIEW PRINT', b'CLS', b'CLS 2'])
        else:
            cmd = r.choice([b'SCREEN 0', b'WIDTH 40', b'WIDTH 80', self.setup[0]])
        self.ex(cmd, keys)
        self.res.count('wild_steps')
        self.res.case((self.name, 'wild', len(self.history), self.digest))
        self.check_reports()
        if r.random() < 0.3:
            self.probe('unmodelled-output')

    # -- a whole history -------------------------------------------------------------------------------------------------
    def run(self, nsteps, script=None):
        h, res, rng = self.h, self.res, self.rng
        with h.Box(budget=3000, **self.kw) as box:
            self.box = box
            self.video, _ = h.record_queues(box.s, audio=False)
            for cmd in self.setup:
                if self.err(self.ex(cmd)):
                    res.count('mode_rejected')
                    return
            H, W = self.dims()
            if W != self.width:
                res.count('mode_rejected')
                return
            res.count('histories')
            if not self.setup[0].startswith(b'SCREEN 0'):
                res.count('graphics_mode_histories')
            if W == 40:
                res.count('width40_histories')
            if not self.resync():
                return
            if script is not None:
                for st in script:
                    if st[0] == 'resync':
                        self.resync()
                    elif self.model is None:
                        break
                    elif st[0] == 'fill_outside_rows':
                        self.fill_outside_rows()
                    elif st[0] == 'wild_script':
                        self.model = None
                        for cmd in st[1]:
                            self.ex(cmd)
                            self.res.count('wild_steps')
                            self.res.case((self.name, 'wild', len(self.history), self.digest))
                            self.check_reports()
                        break
                    else:
                        getattr(self, 'step_' + st[0])(*st[1:])
                return
            wild_left = 0
            for i in range(nsteps):
                if self.bad > 5:
                    break
                if self.model is None and wild_left <= 0:
                    if not self.resync():
                        return
                    continue
                if wild_left > 0:
                    self.wild_step()
                    wild_left -= 1
                    continue
                m = self.model
                W = m.w
                k = rng.random()
                if k < 0.55:
                    n = rng.choice([rng.randint(0, W - 1), rng.randint(0, 12), W - 1, W, W + 1, 2 * W, rng.randint(W, 3 * W), rng.randint(0, 400)])
                    rem = W - m.col + 1
                    if not m.wrapped and m.col > 1 and rng.random() < 0.45:
                        # lengths around what is left of the row
                        n = max(0, rem + rng.randint(-2, 2))
                    n = min(n, 240)     # one direct line holds 255 characters
                    route = rng.random()
                    if route < 0.62:
                        self.step_print(rtext(rng, n), rng.random() < 0.6)
                    elif route < 0.74:
                        k2 = rng.randint(1, 4)
                        cuts = sorted(rng.randint(0, n) for _ in range(k2 - 1))
                        txt = rtext(rng, n)
                        items = [txt[a:b] for a, b in zip([0] + cuts, cuts + [n])]
                        if sum(len(i) for i in items) + 4 * len(items) < 230:
                            self.step_output('items', items, rng.random() < 0.6)
                    elif route < 0.84:
                        self.step_output('numbers', [rng.choice([rng.randint(-9, 9), rng.randint(-32768, 32767), rng.randint(0, 999)])
                                                     for _ in range(rng.randint(1, 9))], rng.random() < 0.6)
                    elif route < 0.92:
                        self.step_output('write', [rtext(rng, min(n, 120)).replace(b',', b'.')] + [rng.randint(-999, 9999) for _ in range(rng.randint(0, 2))])
                    else:
                        txt = rtext(rng, min(n, 200))
                        h2 = rng.randint(0, len(txt))
                        self.step_output('file', [txt[:h2], txt[h2:]] if rng.random() < 0.5 else [txt], rng.random() < 0.6)
                elif k < 0.72:
                    if rng.random() < 0.75:
                        r_, c_ = rng.randint(m.top, m.bottom), rng.choice([1, W, W - 1, rng.randint(1, W)])
                    else:
                        r_, c_ = rng.randint(-1, m.h + 2), rng.randint(-1, W + 2)
                    self.step_locate(r_, c_)
                elif k < 0.77:
                    self.step_cls()
                elif k < 0.86:
                    if m.view and rng.random() < 0.3:
                        self.step_view(None, None)
                    else:
                        if not m.view and rng.random() < 0.5:
                            self.fill_outside_rows()
                            if self.model is None:
                                continue
                        a = rng.randint(1, 24)
                        b = rng.choice([a, min(24, a + 1), rng.randint(a, 24), rng.randint(a, 24)])
                        self.step_view(a, b)
                elif k < 0.89:
                    self.step_width()
                elif k < 0.93 and not m.view:
                    self.step_row25(rng.random() < 0.5)
                elif k < 0.96:
                    self.step_reposition_from_wrap()
                elif k < 0.98:
                    self.step_ctrl_from_wrap(rng.choice([28, 29, 30, 31, 9, 11, 13, 10, 12]))
                else:
                    # leave the modelled world for a few steps
                    self.model = None
                    wild_left = rng.randint(2, 6)


def directed(harness, res):
    rng = random.Random('C36:directed')
    W = 80
    scripts = [
        # column-80 boundary: exactly width-1, width, width+1 characters, with and without newline, at the bottom row
        [('print', b'A' * 79, True), ('print', b'B' * 80, True), ('print', b'C' * 81, True), ('print', b'D' * 80, False),
         ('print', b'e', False), ('locate', 24, 1), ('print', b'F' * 80, False), ('print', b'g', True), ('locate', 24, 80), ('print', b'h', False),
         ('print', b'', True), ('print', b'I' * 160, True)],
        # LOCATE from the last-column state (D-new): LOCATE r,80 must go to r,80
        [('print', b'A' * 80, False), ('locate', 5, 80), ('print', b'x', False), ('locate', 7, 79), ('print', b'yz', False), ('locate', 9, 80), ('print', b'w', True)],
        # scroll window: rows outside never move
        [('fill_outside_rows',), ('view', 5, 10)] + [('print', b'line %d' % i, True) for i in range(12)] + [('print', b'Z' * 200, True), ('cls',), ('view', None, None),
                                                                                                        ('print', b'after', True)],
        [('fill_outside_rows',), ('view', 24, 24), ('print', b'only row', True), ('print', b'Q' * 100, False), ('view', 1, 1), ('print', b'top', True), ('print', b'R' * 81, True)],
        # LOCATE range table
        [('locate', r, c) for r, c in ((1, 1), (24, 80), (25, 1), (25, 80), (0, 1), (1, 0), (26, 1), (1, 81), (-1, 5), (24, 81), (12, 40))],
        [('resync',), ('locate', 0, 0), ('resync',), ('locate', 26, 81), ('resync',), ('locate', 1, 81), ('resync',), ('locate', 26, 1),
         ('resync',), ('locate', 0, 1), ('resync',), ('locate', 1, 0), ('resync',), ('locate', -1, 5), ('resync',), ('view', 5, 10), ('locate', 4, 1),
         ('resync',), ('view', 5, 10), ('locate', 11, 1), ('resync',), ('view', 5, 10), ('locate', 10, 80)],
    ]
    for mode in (MODES[0], MODES[8], MODES[10]):
        for sc in scripts:
            Run(harness, res, rng, mode).run(0, sc)
    # mode / width switches with the cursor right of the new width, key line on and off (invariants only)
    for mode, stmts in (
            (MODES[0], [b'KEY ON', b'LOCATE 1,70', b'WIDTH 40', b'PRINT "x";', b'WIDTH 80', b'LOCATE 24,80', b'WIDTH 40']),
            (MODES[0], [b'LOCATE 1,70', b'WIDTH 40', b'PRINT "x";']),
            (MODES[11], [b'KEY ON', b'LOCATE 3,70', b'SCREEN 7', b'PRINT "x";', b'SCREEN 8', b'LOCATE 24,80', b'PRINT "y";', b'SCREEN 7']),
            (MODES[5], [b'KEY ON', b'LOCATE 1,70', b'SCREEN 3', b'PRINT "x";', b'LOCATE 25,20', b'SCREEN 0', b'WIDTH 80']),
    ):
        Run(harness, res, rng, mode).run(0, [('wild_script', stmts)])
    # the new-line rule: strings of several compositions, lengths around what is left of the row, every kind of start column
    for mode in (MODES[0], MODES[1], MODES[10]):
        W = mode[3]
        sc = []
        row = 2
        for c in (2, W // 2, W - 5, W - 1, W):
            rem = W - c + 1
            for d in (-1, 0, 1, 2, W):
                n = max(1, rem + d)
                for comp in (lambda n: b'x' * n, lambda n: (b'ab ' * n)[:n], lambda n: b' ' * n, lambda n: b' ' + b'y' * (n - 2) + b' ' if n > 2 else b' ' * n):
                    row = row + 2 if row < 20 else 2
                    if row == 2:
                        sc.append(('cls',))
                    sc += [('locate', row, c), ('print', comp(n), n % 2 == 0)]
        sc += [('cls',), ('locate', 3, W - 6), ('output', 'items', [b'ab cd', b'e f', b'  ', b'ghijkl mn'], True),
               ('locate', 6, W - 4), ('output', 'numbers', [1, -22, 333, 4444], True),
               ('locate', 9, W - 7), ('output', 'write', [b'a b c', 12], True),
               ('locate', 12, W - 6), ('output', 'file', [b'uv w', b'x  yz'], True)]
        Run(harness, res, rng, mode).run(0, sc)
    # cursor-moving control codes printed from the last-column state
    for mode in (MODES[0], MODES[1], MODES[8]):
        sc = []
        for code in (28, 29, 30, 31, 9, 11, 13, 10, 12):
            for r0 in (3, 24):
                sc += [('resync',), ('locate', r0, 5), ('ctrl_from_wrap', code)]
        Run(harness, res, rng, mode).run(0, sc)
    # every statement that repositions the cursor, executed from the last-column (pending wrap) state, then output
    for mode in (MODES[0], MODES[1], MODES[7], MODES[10], MODES[5]):
        for kind in ('view-print', 'view-print-off', 'cls', 'locate', 'key', 'width', 'screen'):
            Run(harness, res, rng, mode).run(0, [('locate', 3, 5), ('reposition_from_wrap', kind), ('print', b'more', True),
                                                 ('locate', 24, 1), ('reposition_from_wrap', kind), ('print', b'tail', True)])
    # output on row 25, then plain printing without another LOCATE (with newline / with ; + CLS)
    for mode in (MODES[0], MODES[1], MODES[5], MODES[8], MODES[10]):
        for nl in (True, False):
            Run(harness, res, rng, mode).run(0, [('row25', nl, 3), ('print', b'after', True), ('row25', not nl, 20), ('cls',), ('print', b'Z' * 30, True)])
    # 40 columns
    s40 = [('print', b'A' * 39, True), ('print', b'B' * 40, True), ('print', b'C' * 41, False), ('locate', 3, 40), ('print', b'x', False),
           ('fill_outside_rows',), ('view', 10, 12)] + [('print', b'%d' % i, True) for i in range(8)]
    for mode in (MODES[1], MODES[7], MODES[9]):
        Run(harness, res, rng, mode).run(0, s40)


def run_shard(spec, res):
    from .. import harness
    kind = spec['kind']
    rng = random.Random('%s:C36:%s:%s' % (spec['seed'], kind, spec.get('part', 0)))
    if kind == 'directed':
        return directed(harness, res)
    if kind == 'histories':
        for i in range(spec['n']):
            # one generator per history, drawn unconditionally: later histories do not depend on earlier verdicts
            hrng = random.Random(rng.getrandbits(64))
            mode = MODES[hrng.choice(MODE_WEIGHTS)]
            Run(harness, res, hrng, mode).run(spec['len'])
        return
    raise ValueError(kind)
