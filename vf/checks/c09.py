"""
C09 String functions and statements match their reference definitions.

Oracle: R-STR (vf/models/c09_rstr.py, Python-bytes definitions written from the GW-BASIC manual)
against the real interpreter at BASIC level only: operands are planted with set_variable (bytes in),
one BASIC statement is executed (direct mode, or a stored line reached with GOTO), the result is
read back with get_variable (bytes out) and the error code is taken from the output.
"""
import random

from ..models import c09_rstr as R

META = {
    'property_id': 'C09',
    'technique': 'reference-model monitor (Python-bytes definitions of the string functions/statements) at BASIC level',
    'level': 'exploration',
    'level_text': (
        'Runtime oracle: every observed value / error code of LEFT$ RIGHT$ MID$ INSTR STRING$ SPACE$ LEN ASC CHR$ + '
        'the six string comparisons, the MID$ statement, LSET and RSET is compared with an independent Python-bytes '
        'definition; in-place statements are also checked for unchanged target length, source operands for being '
        'left unchanged. A seed-independent boundary table (lengths 0,1,2,254,255 x arguments -32768,-1,0,1,2,len-1,'
        'len,len+1,254,255,256,257,32767) runs in both tiers; random strings over all 256 byte values and random '
        'arguments make up the volume (about 40 k statements quick, 800 k thorough). LSET, RSET and MID$= are also '
        'run INSIDE stored programs on targets that still point into the program text (a quoted literal assigned in a '
        'program line, a copy C$=A$ of such a variable, an array element, a second in-place statement on the same '
        'target); the copy must not change the original, and the program is run twice (the literal in the program text '
        'must not be modified). A further share runs every function and statement with operands that are expressions '
        'of several temporaries (LEFT$(A$,k)+MID$(A$,k+1), A$+"") in a string space of 1.3-2.4 kB (CLEAR ,n) with a '
        'filler of random size, so that collections happen inside the functions between operand evaluations (observed: '
        'gc_during_statement_seen); Out of string space is accepted there, any other deviation is not.'),
    'level_note': (
        'Trusted: the harness, Python bytes slicing. Edges the statement does not pin are either not generated or '
        'accept the plausible set: STRING$(n,"") is not generated; a numeric argument outside -32768..32767 must give '
        'some BASIC error (Illegal function call or Overflow - which one is not pinned); MID$(t$,start,0)=.. replaces nothing and raises '
        'nothing whatever the start (pinned to the no-op reading: a zero length disables the start check); fractional arguments are only generated as n+.25 / n+.75 (the '
        'tie rule belongs to C03). When the source of a MID$ statement is the target variable itself the reference is '
        'the left-to-right in-place character move of GW-BASIC (documented PC-BASIC behaviour); such cases are only '
        'generated in direct mode with the target in string space. INSTR follows the manual rules in their stated '
        'order (start>LEN(x$) -> 0, x$ empty -> 0, y$ empty -> start). Type-mismatch arguments are not generated.'),
    'rule': ('case = (operation, operand strings, numeric arguments, operand forms); distinct by that tuple; every case '
             'is counted non-trivial except when all string operands are empty and all numeric arguments are in range '
             '(only the empty result can be observed there)'),
    'design_ref': 'DESIGN.md section 4 C09',
    'assumptions': ['GW-BASIC manual definitions as transcribed in vf/models/c09_rstr.py',
                    'set_variable/get_variable move string bytes unchanged (C43)'],
    'require_counters': {'any': ['ifc_seen', 'string_too_long_seen', 'overlap_effective_seen', 'len255_operand_seen',
                                 'program_text_target_cases', 'second_inplace_on_same_target_cases',
                                 'gc_during_statement_seen', 'pressure_statements_compared']},
    'timeout': {'quick': 900, 'thorough': 7200},
}

NUM_EDGE = [-32768, -1, 0, 1, 2, 254, 255, 256, 257, 32767]
HUGE = [40000, -40000, 65536, 1e10, -1e10, 32768, -32769]
CMP_OPS = ['=', '<>', '<', '>', '<=', '>=']
SAFE_LIT = b'abcXYZ019 ,.;:!#%&()*+-/<=>?@[]^_{}~'

FUNC_OPS = ['left', 'right', 'mid2', 'mid3', 'instr2', 'instr3', 'string_code', 'string_char', 'space',
            'len', 'asc', 'chr', 'concat', 'cmp']
STMT_OPS = ['midstmt2', 'midstmt3', 'midself2', 'midself3', 'lset', 'rset']


def plan(tier, seed):
    shards = [{'kind': 'directed', 'part': i, 'parts': 4} for i in range(4)]
    if tier == 'quick':
        for i in range(10):
            shards.append({'kind': 'random', 'n': 3000, 'part': i})
        for i in range(4):
            shards.append({'kind': 'pressure', 'n': 2000, 'part': i})
    else:
        for i in range(32):
            shards.append({'kind': 'random', 'n': 21500, 'part': i})
        for i in range(12):
            shards.append({'kind': 'pressure', 'n': 14000, 'part': i})
    return shards


# ---------------------------------------------------------------------------------------------
# statement construction

def _num_src(form, v, var):
    """Source text of a numeric argument in the chosen form; returns (text, plant) where plant is
    (varname, value) to set beforehand or None."""
    if form == 'ivar':
        return var + b'%', (var.decode() + '%', v)
    if form == 'svar':
        return var + b'!', (var.decode() + '!', float(v))
    t = repr(v) if isinstance(v, float) else '%d' % v
    if 'e+' in t:
        t = '%.0f' % v
    if t.startswith('-'):
        t = '(%s)' % t
    return t.encode(), None


def _str_src(form, var, value):
    """Source text of a string operand: variable, temporary expression or literal."""
    if form == 'temp' and len(value) <= 255:
        return b'(' + var + b'$+"")'
    if form == 'tcat':
        # same value, built from two temporaries and a concatenation (three allocations)
        k = len(value) // 2
        return b'(LEFT$(%s$,%d)+MID$(%s$,%d))' % (var, k, var, k + 1)
    if form == 'lit':
        return b'"' + value + b'"'
    return var + b'$'


def _is_lit_safe(s):
    return len(s) <= 40 and all(c in SAFE_LIT for c in s)


class Case(object):
    """One statement with its planted operands and expected outcome."""
    __slots__ = ('op', 'a', 'b', 't', 'nums', 'forms', 'stmt', 'plants', 'expect', 'result_var',
                 'target_var', 'huge', 'program', 'element')


def build(op, a, b, t, nums, forms, program=False, element=False):
    """
    op: operation name; a, b: source strings; t: target string of in-place statements;
    nums: tuple of numeric arguments (int within 16 bit, or a HUGE value, or float n+.25/.75);
    forms: dict of operand forms.
    """
    c = Case()
    c.op, c.a, c.b, c.t, c.nums, c.forms, c.program, c.element = op, a, b, t, tuple(nums), forms, program, element
    plants = [('A$', a), ('B$', b)]
    ints = []
    huge = False
    srcs = []
    for i, v in enumerate(nums):
        form = forms.get('n%d' % i, 'lit')
        if isinstance(v, float) and v != int(v):
            iv = int(v + 0.5) if v >= 0 else -int(-v + 0.5)
            form = 'lit' if form == 'ivar' else form
        else:
            iv = int(v)
        if not -32768 <= iv <= 32767:
            huge = True
            if form == 'ivar':
                form = 'lit'
        ints.append(iv)
        txt, plant = _num_src(form, v, (b'N', b'M')[i])
        srcs.append(txt)
        if plant:
            plants.append(plant)
    c.huge = huge
    fa = forms.get('a', 'var')
    fb = forms.get('b', 'var')
    if fa == 'lit' and not _is_lit_safe(a):
        fa = 'var'
    if fb == 'lit' and not _is_lit_safe(b):
        fb = 'var'
    if op == 'cmp' and len(a) + len(b) > 16:
        # six comparisons share one line: keep it short
        fa = 'var' if fa == 'lit' else fa
        fb = 'var' if fb == 'lit' else fb
    sa, sb = _str_src(fa, b'A', a), _str_src(fb, b'B', b)
    c.result_var = None
    c.target_var = None
    tv = b'T$(2)' if element else b'T$'
    if op == 'left':
        c.stmt = b'R$=LEFT$(' + sa + b',' + srcs[0] + b')'
        c.expect, c.result_var = R.left(a, ints[0]), 'R$'
    elif op == 'right':
        c.stmt = b'R$=RIGHT$(' + sa + b',' + srcs[0] + b')'
        c.expect, c.result_var = R.right(a, ints[0]), 'R$'
    elif op == 'mid2':
        c.stmt = b'R$=MID$(' + sa + b',' + srcs[0] + b')'
        c.expect, c.result_var = R.mid(a, ints[0]), 'R$'
    elif op == 'mid3':
        c.stmt = b'R$=MID$(' + sa + b',' + srcs[0] + b',' + srcs[1] + b')'
        c.expect, c.result_var = R.mid(a, ints[0], ints[1]), 'R$'
    elif op == 'instr2':
        c.stmt = b'R%=INSTR(' + sa + b',' + sb + b')'
        c.expect, c.result_var = R.instr(a, b), 'R%'
    elif op == 'instr3':
        c.stmt = b'R%=INSTR(' + srcs[0] + b',' + sa + b',' + sb + b')'
        c.expect, c.result_var = R.instr(a, b, ints[0]), 'R%'
    elif op == 'string_code':
        c.stmt = b'R$=STRING$(' + srcs[0] + b',' + srcs[1] + b')'
        c.expect, c.result_var = R.string_code(ints[0], ints[1]), 'R$'
    elif op == 'string_char':
        c.stmt = b'R$=STRING$(' + srcs[0] + b',' + sa + b')'
        c.expect, c.result_var = R.string_char(ints[0], a), 'R$'
    elif op == 'space':
        c.stmt = b'R$=SPACE$(' + srcs[0] + b')'
        c.expect, c.result_var = R.space(ints[0]), 'R$'
    elif op == 'len':
        c.stmt = b'R%=LEN(' + sa + b')'
        c.expect, c.result_var = R.length(a), 'R%'
    elif op == 'asc':
        c.stmt = b'R%=ASC(' + sa + b')'
        c.expect, c.result_var = R.asc(a), 'R%'
    elif op == 'chr':
        c.stmt = b'R$=CHR$(' + srcs[0] + b')'
        c.expect, c.result_var = R.chr_(ints[0]), 'R$'
    elif op == 'concat':
        c.stmt = b'R$=' + sa + b'+' + sb
        c.expect, c.result_var = R.concat(a, b), 'R$'
    elif op == 'cmp':
        c.stmt = b':'.join(b'C%d%%=(%s%s%s)' % (i, sa, o.encode(), sb) for i, o in enumerate(CMP_OPS))
        c.expect = ('ok', [R.compare(o, a, b)[1] for o in CMP_OPS])
        c.result_var = 'cmp'
    elif op in ('midstmt2', 'midstmt3', 'midself2', 'midself3'):
        same = op.startswith('midself')
        n = ints[1] if op.endswith('3') else None
        args = srcs[0] + ((b',' + srcs[1]) if op.endswith('3') else b'')
        c.stmt = b'MID$(' + tv + b',' + args + b')=' + (tv if same else sb)
        c.expect = R.mid_statement(t, ints[0], n, t if same else b, same_string=same)
        c.target_var = tv
    elif op == 'lset':
        c.stmt = b'LSET ' + tv + b'=' + sb
        c.expect, c.target_var = R.lset(t, b), tv
    elif op == 'rset':
        c.stmt = b'RSET ' + tv + b'=' + sb
        c.expect, c.target_var = R.rset(t, b), tv
    else:
        raise ValueError(op)
    if huge:
        # not pinned which error (Illegal function call / Overflow); must be a BASIC error though
        c.expect = ('anyerror',)
    c.plants = plants
    return c


# ---------------------------------------------------------------------------------------------
# execution + comparison

class Runner(object):

    def __init__(self, res, pressure=None):
        from .. import harness
        self.h = harness
        self.res = res
        self.box = None
        self.calls = 0
        self.sentinel = 0
        self.pressure = pressure       # random.Random: run in a nearly full string space
        self.minv = None
        if pressure is not None:
            from ..models import c10_minv
            self.minv = c10_minv
            c10_minv.install()

    def _box(self):
        if self.box is None or self.calls % 3000 == 0:
            self.close()
            self.box = self.h.Box()
            if self.pressure is not None:
                # leave about 1.5 kB for variables and strings: every statement or two collects
                box = self.box
                total = int(box.ev(b'PEEK(&H2C)+256*PEEK(&H2D)'))
                free = int(box.ev(b'FRE("")'))
                box.ex(b'CLEAR ,%d' % (total - (free - self.pressure.choice((1300, 1500, 1800, 2400)))))
            self.box.ex(b'DIM T$(3)')
        return self.box

    def close(self):
        if self.box is not None:
            self.box.close()
            self.box = None

    def run(self, c, sample=False):
        res, h = self.res, self.h
        box = self._box()
        self.calls += 1
        key = (c.op, c.a, c.b, c.t, c.nums, tuple(sorted(c.forms.items())), c.program, c.element)
        inrange = not c.huge and c.expect[0] == 'ok'
        trivial = (not c.a and not c.b and not c.t and inrange and c.op not in ('string_code', 'space', 'chr'))
        res.case(key, nontrivial=not trivial)
        if 255 in (len(c.a), len(c.b), len(c.t)):
            res.count('len255_operand_seen')
        casej = {'op': c.op, 'stmt': c.stmt, 'A$': c.a, 'B$': c.b, 'T$': c.t, 'nums': list(c.nums),
                 'program': c.program, 'element': c.element}
        gc0 = self.minv.STATE.gc_count if self.minv else 0
        try:
            if c.program:
                # stored line reached by GOTO (storing a line clears the variables: plant afterwards)
                box.ex(b'10 ' + c.stmt + b':END')
                box.ex(b'DIM T$(3)')
            for name, val in c.plants:
                box.set(name, val)
            self.sentinel += 1
            sent = b'\xfe%d' % self.sentinel
            if c.result_var == 'R$':
                box.set('R$', sent)
            elif c.result_var == 'R%':
                box.set('R%', -12345)
            elif c.result_var == 'cmp':
                for i in range(6):
                    box.set('C%d%%' % i, 7)
            if c.target_var is not None:
                box.set('T$', c.t)
                if c.element:
                    box.ex(b'T$(2)=T$:T$(1)="guard1":T$(3)="guard3"')
            if self.pressure is not None:
                # burn the free space down to a random small rest with garbage (G$ reassigned): the next
                # collection then happens INSIDE the statement, at a random one of its allocations
                rest = self.pressure.randint(0, 2 * (len(c.a) + len(c.b)) + len(c.t) + 8)
                for _ in range(12):
                    free = int(box.ev(b'FRE(0)'))
                    if free <= rest + 1:
                        break
                    box.set('G$', b'g' * min(255, free - rest - 1))
                box.set('G$', b'')
            gc1 = self.minv.STATE.gc_count if self.minv else 0
            out = box.ex(b'GOTO 10' if c.program else c.stmt)
            code, _ = h.err_of(out)
            if self.minv is not None:
                res.count('pressure_statements')
                if self.minv.STATE.gc_count > gc1:
                    res.count('gc_during_statement_seen')
                for k_, w_ in self.minv.drain():
                    if not k_.startswith('note:'):
                        res.violation(k_, '%s (statement %r)' % (w_, c.stmt), casej)
            # observed
            if c.result_var == 'cmp':
                val = [box.get('C%d%%' % i) for i in range(6)]
            elif c.result_var is not None:
                val = box.get(c.result_var)
            else:
                if c.element:
                    arr = box.get('T$()')
                    val = arr[2]
                    if arr[1] != b'guard1' or arr[3] != b'guard3':
                        res.violation('%s:neighbour-element-changed' % c.op,
                                      '%r changed the neighbouring array elements: %r' % (c.stmt, arr), casej)
                else:
                    val = box.get('T$')
            a_after, b_after = box.get('A$'), box.get('B$')
        except h.error.BASICError as e:
            # only set_variable raises this: the planted operands did not fit (pressure mode)
            res.count('pressure_plant_failed_error_%d' % e.err)
            return
        except h.Internal as e:
            res.violation(e.key, '%s while executing %r (A$ %d bytes, B$ %d bytes)' % (e, c.stmt, len(c.a), len(c.b)), casej)
            # the session may be left inconsistent: start a new one
            self.close()
            self.calls = 1
            return
        got = ('err', code) if code else ('ok', val)
        sfx = ''
        if self.pressure is not None:
            sfx = ':temporary-operands-under-memory-pressure'
            if code == 14:
                # Out of string space is a legitimate outcome here (the statement says nothing about memory)
                res.count('pressure_out_of_string_space_seen')
                return
            res.count('pressure_statements_compared')
        if code == 5:
            res.count('ifc_seen')
        elif code == 15:
            res.count('string_too_long_seen')
        elif code == 6 and c.huge:
            res.count('overflow_argument_error_seen')
        if sample:
            res.sample({'stmt': c.stmt, 'A$': c.a[:24], 'B$': c.b[:24], 'T$': c.t[:24], 'nums': list(c.nums),
                        'expected': repr(c.expect)[:120], 'observed': repr(got)[:120]})
        exp = c.expect
        if c.op.startswith('midself') and exp[0] == 'ok':
            snap = R.mid_statement(c.t, int(c.nums[0]), (int(c.nums[1]) if c.op.endswith('3') else None), c.t)
            if snap != exp:
                res.count('overlap_effective_seen')
        if exp[0] == 'anyerror':
            ok = got[0] == 'err'
        else:
            ok = (got in exp[1]) if exp[0] == 'either' else (got == exp)
        if not ok:
            if c.huge:
                res.violation('%s:argument-beyond-integer-range:not-a-basic-error' % c.op,
                              '%r -> %r; expected a BASIC error' % (c.stmt, got), casej)
            elif got[0] == 'ok' and exp[0] == 'ok':
                if c.target_var is not None and len(got[1]) != len(c.t):
                    res.violation('%s:target-length-changed' % c.op + sfx,
                                  '%r: target length %d -> %d' % (c.stmt, len(c.t), len(got[1])), casej)
                else:
                    res.violation('%s:value' % c.op + sfx, '%r with A$=%r B$=%r T$=%r -> %r, reference %r' % (
                        c.stmt, c.a[:40], c.b[:40], c.t[:40], got[1] if not isinstance(got[1], bytes) else got[1][:60],
                        exp[1] if not isinstance(exp[1], bytes) else exp[1][:60]), casej)
            else:
                res.violation('%s:error-class' % c.op + sfx, '%r with LEN(A$)=%d LEN(B$)=%d LEN(T$)=%d -> %r, reference %r' % (
                    c.stmt, len(c.a), len(c.b), len(c.t), (got if got[0] == 'err' else 'no error'),
                    (exp if exp[0] != 'ok' else 'no error')), casej)
        # an in-place statement that fails must leave its target alone
        if code and c.target_var is not None and val != c.t:
            res.violation('%s:target-changed-by-failing-statement' % c.op + sfx,
                          '%r failed with error %d but the target changed to %r' % (c.stmt, code, val[:60]), casej)
        # frame: source operands are never modified
        if a_after != c.a or b_after != c.b:
            res.violation('%s:source-operand-changed' % c.op + sfx,
                          '%r changed a source operand (A$ %r->%r, B$ %r->%r)' % (
                              c.stmt, c.a[:30], a_after[:30], c.b[:30], b_after[:30]), casej)



# ---------------------------------------------------------------------------------------------
# in-place statements inside a stored program on targets that still point into the PROGRAM TEXT

PT_VARIANTS = {
    # name: (assignment of the literal, optional copy line, origin expression, target expression)
    'scalar': (b'T$=', None, b'T$', b'T$'),
    'element': (b'T$(2)=', None, b'T$(2)', b'T$(2)'),
    'copy': (b'T$=', b'C$=T$', b'T$', b'C$'),
    'copy-to-element': (b'T$=', b'T$(1)=T$', b'T$', b'T$(1)'),
    'copy-of-element': (b'T$(2)=', b'C$=T$(2)', b'T$(2)', b'C$'),
}


def pt_stmt_text(st, tgt):
    """st = ('lset'|'rset', srcform, src) or ('mid', start, n|None, srcform, src); srcform 'lit' or 'var' (B$)."""
    if st[0] in ('lset', 'rset'):
        src = (b'"' + st[2] + b'"') if st[1] == 'lit' else b'B$'
        return st[0].upper().encode() + b' ' + tgt + b'=' + src
    src = (b'"' + st[4] + b'"') if st[3] == 'lit' else b'B$'
    args = b'%d' % st[1] + (b',%d' % st[2] if st[2] is not None else b'')
    return b'MID$(' + tgt + b',' + args + b')=' + src


def pt_reference(cur, st):
    if st[0] == 'lset':
        return R.lset(cur, st[2])
    if st[0] == 'rset':
        return R.rset(cur, st[2])
    return R.mid_statement(cur, st[1], st[2], st[4])


def run_progtext(runner, lit, variant, stmts, sample=False):
    """
    10 <origin>="<lit>" / 20 [copy] / 30 <in-place 1> / 40 [<in-place 2>] / 50 END, reached with GOTO 10,
    executed twice (a literal modified inside the program text would show in the second run).
    All 'var' sources of one case share B$ (the last one planted): the builder gives them the same value.
    """
    res, h = runner.res, runner.h
    box = runner._box()
    runner.calls += 1
    assign, copy, origin, tgt = PT_VARIANTS[variant]
    lines = [b'10 ' + assign + b'"' + lit + b'"']
    if copy:
        lines.append(b'20 ' + copy)
    for i, st in enumerate(stmts):
        lines.append(b'%d ' % (30 + 10 * i) + pt_stmt_text(st, tgt))
    lines.append(b'90 END')
    bval = b''
    for st in stmts:
        if (st[1] if st[0] != 'mid' else st[3]) == 'var':
            bval = st[2] if st[0] != 'mid' else st[4]
    # reference
    cur, exp_err = lit, None
    for i, st in enumerate(stmts):
        r = pt_reference(cur, st)
        if r[0] == 'err':
            exp_err = (r[1], 30 + 10 * i)
            break
        if r[0] == 'either':
            raise ValueError('unpinned case generated')
        cur = r[1]
    casej = {'op': 'progtext', 'program': lines, 'B$': bval, 'variant': variant}
    res.case(('progtext', lit, variant, tuple(stmts)), nontrivial=bool(lit))
    res.count('program_text_target_cases')
    if len(stmts) > 1:
        res.count('second_inplace_on_same_target_cases')
    kinds = '+'.join(st[0] for st in stmts)
    try:
        box.ex(b'NEW')
        for l in lines:
            box.ex(l)
        for run_no in (1, 2):
            box.ex(b'CLEAR')
            box.ex(b'DIM T$(3)')
            box.ex(b'T$(3)="guard3"')
            box.set('B$', bval)
            out = box.ex(b'GOTO 10')
            code, line = h.err_of(out)
            got_t = box.get('T$()')[int(tgt[3:4])] if tgt.startswith(b'T$(') else box.get(tgt.decode())
            got_o = box.get('T$()')[int(origin[3:4])] if origin.startswith(b'T$(') else box.get(origin.decode())
            guard = box.get('T$()')[3]
            b_after = box.get('B$')
            if sample and run_no == 1:
                res.sample({'program': lines, 'B$': bval[:24], 'expected_target': cur[:60], 'observed_target': got_t[:60]})
            suffix = '' if run_no == 1 else ':second-run-of-the-same-program'
            if exp_err is None and code:
                res.violation('%s:program-text-target:error-class%s' % (kinds, suffix),
                              'program %r with B$=%r -> error %d in %r, reference: no error' % (lines, bval[:30], code, line), casej)
                break
            if exp_err is not None and (code, line) != exp_err:
                res.violation('%s:program-text-target:error-class%s' % (kinds, suffix),
                              'program %r with B$=%r -> error %r in %r, reference: error %d in %d' % (
                                  lines, bval[:30], code, line, exp_err[0], exp_err[1]), casej)
                break
            if code == 5:
                res.count('ifc_seen')
            if got_t != cur:
                if len(got_t) != len(lit):
                    key = '%s:program-text-target:target-length-changed%s' % (kinds, suffix)
                else:
                    key = '%s:program-text-target:value%s' % (kinds, suffix)
                res.violation(key, 'program %r with B$=%r: %s reads %r, reference %r' % (
                    lines, bval[:30], tgt.decode(), got_t[:60], cur[:60]), casej)
                break
            if origin != tgt and got_o != lit:
                res.violation('%s:program-text-target:in-place-on-copy-changed-the-original' % kinds,
                              'program %r: %s reads %r after modifying its copy %s in place (was %r)' % (
                                  lines, origin.decode(), got_o[:60], tgt.decode(), lit[:60]), casej)
                break
            if guard != b'guard3' or b_after != bval:
                res.violation('%s:program-text-target:other-variable-changed' % kinds,
                              'program %r: T$(3)=%r B$=%r afterwards' % (lines, guard, b_after[:30]), casej)
                break
        box.ex(b'NEW')
        box.ex(b'DIM T$(3)')
    except h.Internal as e:
        res.violation(e.key, '%s while running %r' % (e, lines), casej)
        runner.close()
        runner.calls = 1


def pt_directed():
    """Seed-independent table: every variant x LSET / RSET / MID$= (+ a second in-place statement)."""
    out = []
    lits = [b'12345678', b'a', b'', b'literal in the program text, 40 chars...']
    for lit in lits:
        for variant in sorted(PT_VARIANTS):
            for src in (b'xy', b'', b'longer than the target is, by far.......!'):
                for form in ('lit', 'var'):
                    out.append((lit, variant, [('lset', form, src)]))
                    out.append((lit, variant, [('rset', form, src)]))
            for start in (1, 2, len(lit), len(lit) + 1, 0, 255, 256):
                for n in (None, 0, 1, 3, 255):
                    out.append((lit, variant, [('mid', start, n, 'lit', b'QRS')]))
            out.append((lit, variant, [('mid', 1, 2, 'var', b'\x00\xff!')]))
            # a second in-place statement on the same target
            out.append((lit, variant, [('lset', 'lit', b'xy'), ('rset', 'lit', b'z')]))
            out.append((lit, variant, [('rset', 'lit', b'xy'), ('mid', 1, 1, 'lit', b'#')]))
            out.append((lit, variant, [('mid', 1, 1, 'lit', b'#'), ('lset', 'var', b'ab')]))
            out.append((lit, variant, [('mid', 2, None, 'var', b'uv'), ('mid', 1, 1, 'var', b'uv')]))
    return out


def pt_random(rng):
    n = rng.choice((0, 1, 2, 3, 8, 8, 12, 20, 40, rng.randint(0, 60)))
    lit = bytes(rng.choice(SAFE_LIT) for _ in range(n))
    variant = rng.choice(sorted(PT_VARIANTS))
    bval = rand_string(rng)
    stmts = []
    for _ in range(rng.choice((1, 1, 2))):
        form = rng.choice(('lit', 'var'))
        if form == 'lit':
            src = bytes(rng.choice(SAFE_LIT) for _ in range(rng.choice((0, 1, 2, 5, n, n + 3))))
        else:
            src = bval
        q = rng.random()
        if q < 0.35:
            stmts.append(('lset', form, src))
        elif q < 0.7:
            stmts.append(('rset', form, src))
        else:
            start = rng.choice((1, 1, 2, max(1, n), n + 1, 0, rng.randint(1, max(1, n))))
            stmts.append(('mid', start, rng.choice((None, 1, 2, 5, 255)), form, src))
    return lit, variant, stmts

# ---------------------------------------------------------------------------------------------
# generators

def fixed_string(n, shift=0):
    """Deterministic string of length n running through all byte values."""
    return bytes((shift + 37 * i) % 256 for i in range(n))


def directed_cases():
    """Seed-independent boundary table."""
    out = []
    lens = [0, 1, 2, 3, 254, 255]
    for ln in lens:
        a = fixed_string(ln)
        args = sorted(set(NUM_EDGE + [ln - 1, ln, ln + 1]) - {-2})
        for n in args:
            for op in ('left', 'right', 'mid2'):
                out.append(build(op, a, b'', b'', (n,), {'n0': 'ivar'}))
            out.append(build('left', a, b'', b'', (n,), {'n0': 'lit', 'a': 'temp'}))
        for n in args:
            for m in (-1, 0, 1, ln, 255, 256):
                out.append(build('mid3', a, b'', b'', (n, m), {'n0': 'ivar', 'n1': 'ivar'}))
        out.append(build('len', a, b'', b'', (), {}))
        out.append(build('asc', a, b'', b'', (), {}))
        # INSTR: needle at the start, at the end, absent, empty; every start boundary
        needles = [b'', a[:1], a[-1:], a[-2:], a[1:3], b'\xee\xee', a + b'x' if ln < 255 else a]
        for nd in needles:
            out.append(build('instr2', a, nd, b'', (), {}))
            for n in args:
                out.append(build('instr3', a, nd, b'', (n,), {'n0': 'ivar'}))
        # concatenation at the 255 boundary
        for lb in (0, 1, 2, 255 - ln, 256 - ln, 255):
            if 0 <= lb <= 255:
                out.append(build('concat', a, fixed_string(lb, 11), b'', (), {}))
        # comparisons: equal, prefix, differing first/last byte, high bytes
        others = [a, a[:-1], a + b'\x00' if ln < 255 else a, (a[:-1] + bytes([(a[-1] + 1) % 256])) if ln else b'\x00',
                  (bytes([(a[0] + 128) % 256]) + a[1:]) if ln else b'\xff', b'']
        for o in others:
            out.append(build('cmp', a, o, b'', (), {}))
        # in-place statements on a target of this length
        for src in (b'', b'Q', b'QRS', fixed_string(254, 5), fixed_string(255, 9)):
            out.append(build('lset', b'', src, a, (), {}))
            out.append(build('rset', b'', src, a, (), {}))
            for s in args:
                out.append(build('midstmt2', b'', src, a, (s,), {'n0': 'ivar'}))
                for m in sorted({-1, 0, 1, 2, ln, 255, 256}):
                    out.append(build('midstmt3', b'', src, a, (s, m), {'n0': 'ivar', 'n1': 'ivar'}))
        for s in args:
            out.append(build('midself2', b'', b'', a, (s,), {'n0': 'ivar'}))
            for m in (0, 1, 2, 3, 254, 255, 256):
                out.append(build('midself3', b'', b'', a, (s, m), {'n0': 'ivar', 'n1': 'ivar'}))
    # overlap on a short readable string, element target, stored-program form
    for s in range(0, 8):
        out.append(build('midself2', b'', b'', b'ABCDEF', (s,), {}))
        out.append(build('midself3', b'', b'', b'ABCDEF', (s, 3), {}, element=True))
        out.append(build('midstmt2', b'', b'xyz', b'ABCDEF', (s,), {}, program=True))
        out.append(build('midstmt3', b'', b'xyz', b'ABCDEF', (s, 2), {'b': 'lit'}, program=True, element=True))
    for n in NUM_EDGE:
        out.append(build('space', b'', b'', b'', (n,), {'n0': 'ivar'}))
        out.append(build('chr', b'', b'', b'', (n,), {'n0': 'ivar'}))
        out.append(build('string_char', b'\x00z', b'', b'', (n,), {'n0': 'ivar'}))
        for code in NUM_EDGE:
            out.append(build('string_code', b'', b'', b'', (n, code), {'n0': 'ivar', 'n1': 'ivar'}))
    for code in range(256):
        out.append(build('chr', b'', b'', b'', (code,), {}))
        out.append(build('asc', bytes([code]) + b'tail', b'', b'', (), {}))
        out.append(build('string_code', b'', b'', b'', (3, code), {}))
    for hv in HUGE:
        for op in ('left', 'right', 'mid2', 'space', 'chr'):
            out.append(build(op, b'abc', b'', b'', (hv,), {}))
        out.append(build('mid3', b'abc', b'', b'', (1, hv), {}))
        out.append(build('instr3', b'abc', b'c', b'', (hv,), {}))
        out.append(build('string_code', b'', b'', b'', (hv, 65), {}))
        out.append(build('string_code', b'', b'', b'', (3, hv), {}))
        out.append(build('midstmt2', b'', b'x', b'abc', (hv,), {}))
        out.append(build('midstmt3', b'', b'x', b'abc', (1, hv), {}))
    for v in (0.25, 0.75, 1.25, 1.75, 2.25, 254.75, 255.25, 255.75, -0.25, -0.75):
        out.append(build('left', fixed_string(255), b'', b'', (v,), {}))
        out.append(build('mid3', fixed_string(255), b'', b'', (1.25, v), {}))
        out.append(build('space', b'', b'', b'', (v,), {'n0': 'svar'}))
    return out


def rand_string(rng, near=None, maxlen=255):
    r = rng.random()
    if r < 0.12:
        n = rng.choice((0, 1, 2, maxlen - 1, maxlen))
    elif r < 0.55:
        n = rng.randint(0, 12)
    else:
        n = rng.randint(0, maxlen)
    r = rng.random()
    if r < 0.45:
        alpha = b'ab'
    elif r < 0.6:
        alpha = SAFE_LIT
    elif r < 0.7:
        alpha = b'\x00\xff\x7f\x80 '
    else:
        alpha = None
    if alpha is None:
        return bytes(rng.randrange(256) for _ in range(n))
    return bytes(rng.choice(alpha) for _ in range(n))


def rand_num(rng, ln, allow_huge=True, allow_frac=True):
    r = rng.random()
    if r < 0.45:
        return rng.choice([-1, 0, 1, 2, ln - 1, ln, ln + 1, 254, 255, 256])
    if r < 0.75:
        return rng.randint(0, max(1, ln + 2))
    if r < 0.9:
        return rng.randint(-300, 300)
    if r < 0.94:
        return rng.choice([32767, -32768, 257, 1000, -1000])
    if r < 0.97 and allow_huge:
        return rng.choice(HUGE)
    if allow_frac:
        return rng.randint(0, 255) + rng.choice((0.25, 0.75))
    return rng.randint(0, 255)


def rand_case(rng, pressure=False):
    """pressure: operands are expressions made of several temporaries, strings short enough that the
    statement fits a string space of about 1.5 kB (collections then happen INSIDE the functions)."""
    ops = FUNC_OPS + STMT_OPS + ['midself2', 'midself3', 'instr3', 'mid3']
    if pressure:
        ops = ops + ['instr2', 'instr3', 'instr2', 'concat', 'cmp', 'midstmt3', 'lset', 'rset', 'string_char', 'mid3', 'left']
    op = rng.choice(ops)
    maxlen = 80 if pressure else 255
    a = rand_string(rng, maxlen=maxlen)
    r = rng.random()
    if r < 0.35 and a:
        # needle / comparand related to a: substring, prefix, or a with one byte changed
        i = rng.randrange(len(a))
        j = rng.randint(i, min(len(a), i + rng.randint(0, 6)))
        b = a[i:j]
        if rng.random() < 0.3:
            b = a[:rng.randint(0, len(a))]
        elif rng.random() < 0.2:
            k = rng.randrange(len(a))
            b = a[:k] + bytes([a[k] ^ rng.choice((1, 0x80, 0xff))]) + a[k + 1:]
    elif r < 0.45:
        b = a
    else:
        b = rand_string(rng, maxlen=maxlen)
    t = rand_string(rng, maxlen=maxlen)
    forms = {}
    for k in ('n0', 'n1'):
        forms[k] = rng.choice(('ivar', 'ivar', 'lit', 'svar'))
    forms['a'] = rng.choice(('var', 'var', 'var', 'temp', 'lit'))
    forms['b'] = rng.choice(('var', 'var', 'var', 'temp', 'lit'))
    element = rng.random() < 0.12
    program = rng.random() < 0.06
    if pressure:
        forms['a'] = rng.choice(('tcat', 'tcat', 'tcat', 'temp', 'var'))
        forms['b'] = rng.choice(('tcat', 'tcat', 'tcat', 'temp', 'var'))
        program = False
    if op in ('left', 'right', 'mid2', 'space', 'chr', 'instr3'):
        nums = (rand_num(rng, len(a)),)
    elif op == 'mid3':
        nums = (rand_num(rng, len(a)), rand_num(rng, len(a)))
    elif op == 'string_code':
        nums = (rand_num(rng, 5), rng.choice([rng.randint(0, 255), rng.randint(0, 255), rand_num(rng, 5)]))
    elif op == 'string_char':
        nums = (rand_num(rng, 5),)
        if not a:
            a = b'z' + rand_string(rng)[:5]
    elif op in ('midstmt2', 'midself2'):
        nums = (rand_num(rng, len(t)),)
    elif op in ('midstmt3', 'midself3'):
        nums = (rand_num(rng, len(t)), rand_num(rng, len(t)))
    else:
        nums = ()
    if op.startswith('midself'):
        # overlap cases only in direct mode with the target in string space
        program = False
    return build(op, a, b, t, nums, forms, program=program, element=element and op in STMT_OPS)


def run_shard(spec, res):
    kind = spec['kind']
    rng = random.Random('%s:C09:%s:%s' % (spec['seed'], kind, spec.get('part', 0)))
    runner = Runner(res, pressure=(rng if kind == 'pressure' else None))
    try:
        if kind == 'pressure':
            for i in range(spec['n']):
                runner.run(rand_case(rng, pressure=True), sample=(i < 1 and spec.get('part', 0) < 2))
        elif kind == 'directed':
            cases = directed_cases()[spec['part']::spec['parts']]
            for i, c in enumerate(cases):
                runner.run(c, sample=(i in (0, 500)))
            pt = pt_directed()[spec['part']::spec['parts']]
            for i, (lit, variant, stmts) in enumerate(pt):
                run_progtext(runner, lit, variant, stmts, sample=(i == 0))
            res.count('directed_cases', len(cases) + len(pt))
        elif kind == 'random':
            for i in range(spec['n']):
                if rng.random() < 0.04:
                    run_progtext(runner, *pt_random(rng), sample=(i < 60 and spec.get('part', 0) == 0))
                else:
                    runner.run(rand_case(rng), sample=(i < 1 and spec.get('part', 0) < 4))
        else:
            raise ValueError(kind)
    finally:
        runner.close()
