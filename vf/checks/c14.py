"""
C14 RENUM renumbers lines and every reference to them consistently.

Oracle (R-PROG + reference table, vf.gen.c14_refprog): a generated program is a list of lines made
of literal text and reference slots.  For RENUM new,old,inc the model computes the old->new map
(or "impossible").  Observed against it, in real sessions:
  * accepted / rejected as the model says (rejected => listing AND saved image unchanged)
  * listing after RENUM == program rendered with every reference slot mapped (missing targets kept)
  * every missing reference reported as "Undefined line N in M" and nothing else printed
  * saved image after RENUM == saved image of a fresh session in which the expected listing is typed in
  * PEEK walk of the line links visits the new numbers in order
  * behaviour: tag trace of the renumbered program == tag trace of the original (line numbers in
    error messages mapped), under the same step budget, key events and logical-time timer
  * 'trap' mode: the program sets ON ERROR / ON KEY / ON TIMER and STOPs, RENUM is typed, execution
    goes on with GOTO: the handlers (before / inside the renumbered range) must still be reached;
    in a share of the programs the event trap is only DEFINED at the STOP (event never ON, or ON and OFF
    again) and the first line after the STOP switches it ON before the event is delivered
An internal exception (D3: KeyError for a trap line below `old`) is reported under its harness key.
"""
import random
import re

from ..models import c13_rprog as rprog
from ..gen import prog_gen as pg
from ..gen import c14_refprog as rp

META = {
    'property_id': 'C14',
    'technique': 'reference-model monitor (old->new map applied to reference slots) + differential image (RENUM vs typed-in expected listing) + behaviour trace equivalence',
    'level': 'exploration',
    'level_text': (
        'Runtime oracle over generated programs with references of every kind (GOTO, GOSUB, THEN, ELSE, IF..GOTO, ON..GOTO/GOSUB, '
        'RESTORE, RUN, RESUME, RETURN n, ERL=n, ON ERROR GOTO, ON KEY/TIMER/PEN/STRIG/PLAY/COM GOSUB, LIST/DELETE/EDIT) and random RENUM '
        'arguments: acceptance, rewritten listing, reports of missing targets, byte image, link walk and the executed tag trace are '
        'compared with an independent model; traps set before RENUM are provoked after it.'),
    'level_note': (
        'Trusted: harness, R-PROG. Programs may start with a line numbered 0 that is the target of GOTO/GOSUB/THEN/ELSE/ON lists/RESTORE/RUN/'
        'LIST (and references to a missing line 0 are generated); not pinned and therefore not generated: 0 after RESUME / ERL= / RETURN / '
        'ON ERROR GOTO as a line reference (ON ERROR GOTO 0 itself is generated and must stay 0; these contexts never name the first line '
        'either, which RENUM 0 would number 0). RENUM arguments take explicit boundary values in every position (0, 1, 65529, omitted; increment 0 '
        'must be refused; new number 0 is a number, not a default). Not generated: RENUM on an empty program, a start line above every line '
        '(either outcome accepted, program must be unchanged), references whose digits are followed by arithmetic. The line named in an '
        '"Undefined line N in M" report may be the old or the new number of the containing line (all reports of one RENUM consistently). '
        'Behaviour equivalence is only demanded when no missing target coincides with a new line number. Only one kind of event trap (KEY or TIMER) '
        'is enabled per program: with two kinds pending at one statement boundary the interpreter dispatches them in set-iteration order, which differs '
        'between sessions. With an active ON ERROR trap a rejected RENUM is itself trapped (handler runs), so rejection is observed in run mode and '
        'with event-only traps.'),
    'rule': ('case = (program lines with reference slots, RENUM arguments, mode); distinct by the rendered program text + arguments; '
             'non-trivial = the program contains at least 3 reference slots and the RENUM is either rejected or changes at least one number'),
    'design_ref': 'DESIGN.md section 4 C14',
    'assumptions': ['old->new map per the GW-BASIC manual: lines >= old get new, new+inc, ...; impossible if it would not stay above the lines below old or exceeds 65529'],
    'require_counters': {'any': ['renum_accepted', 'renum_rejected', 'rejected_untouched_checked', 'missing_reported_seen',
                                 'trap_error_handler_reached', 'trap_event_handler_reached', 'trap_before_range_seen',
                                 'trap_inside_range_seen', 'trap_defined_while_off_handler_reached_after_renum', 'behaviour_compared', 'image_compared',
                                 'ref_to_line_0', 'ref_missing_line_0', 'ref_on_error_0', 'renum_new_0_accepted', 'renum_new_0_rejected',
                                 'renum_step_0_rejected', 'renum_old_0_explicit',
                                 'ref_goto', 'ref_gosub', 'ref_then', 'ref_then_else', 'ref_on_goto', 'ref_on_gosub', 'ref_restore',
                                 'ref_run', 'ref_resume', 'ref_erl_eq', 'ref_on_error', 'ref_on_key', 'ref_on_timer']},
    'timeout': {'quick': 900, 'thorough': 7200},
}

FKEY = {1: (u'\0\x3b', 'F1'), 2: (u'\0\x3c', 'F2'), 10: (u'\0\x44', 'F10')}


def plan(tier, seed):
    shards = [{'kind': 'directed'}]
    if tier == 'quick':
        for i in range(10):
            shards.append({'kind': 'random', 'part': i, 'n': 50})
    else:
        for i in range(40):
            shards.append({'kind': 'random', 'part': i, 'n': 200})
    return shards


# ----------------------------------------------------------------------------------------------

def _entered(prog, mp=None):
    return [b'%d %s' % ((mp.get(n, n) if mp else n), rp.render(segs, mp)) for n, segs in prog['lines']]


def _behaviour(box, prog, start_cmd, budget, res_count=None):
    """Run with the deterministic stimuli: key events at fixed statement boundaries, logical time per boundary."""
    from .. import harness
    st = box.stepper
    st.schedule.clear()
    h = prog.get('handlers', {})
    if 'key' in h:
        ch, sc = FKEY[h['key'][0]]
        for b in (6, 19, 43, 90):
            st.schedule[b] = [harness.key_event(ch, getattr(harness.scancode, sc), [])]
    clock = box.clock
    st.on_boundary_cb = lambda n, q: clock.advance(0.13)
    try:
        return box.ex(start_cmd, budget)
    finally:
        st.on_boundary_cb = None
        st.schedule.clear()


_IN = re.compile(rb' in (\d+)\xff')


def _map_trace(trace, mp):
    return _IN.sub(lambda m: b' in %d\xff' % mp.get(int(m.group(1)), int(m.group(1))), trace)


def run_case(res, case, inv):
    """case = {'prog': ..., 'args': [new, old, inc], 'mode': 'run'|'trap', 'budget': n}"""
    from .. import harness
    prog, args, mode, budget = case['prog'], case['args'], case['mode'], case.get('budget', 300)
    new, old, inc = args
    text = _entered(prog)
    model = rprog.RProg(dict((n, rp.render(segs)) for n, segs in prog['lines']))
    mp = model.renum_map(10 if new is None else new, 0 if old is None else old, 10 if inc is None else inc)
    moved = [n for n in model.lines if n >= (old or 0)]
    a = [b'' if v is None else b'%d' % v for v in args]
    while a and a[-1] == b'':
        a.pop()
    cmd = b'RENUM ' + b','.join(a)
    nrefs = sum(len(rp.refs_of(segs)) for n, segs in prog['lines'])
    jcase = {'program': text, 'renum': cmd, 'mode': mode, 'budget': budget, 'case': case}

    def viol(key, what):
        res.violation(key, what + ' [%s, %d lines, mode %s]' % (cmd.decode(), len(text), mode), jcase)

    def flush_inv():
        if inv.failures:
            inv.report(res, jcase)
            return True
        return False

    if mode == 'trap' and 'error' in prog['handlers'] and (mp is None or not moved):
        # with an active ON ERROR trap the Illegal function call of a rejected RENUM is itself trapped and runs
        # the handler: rejection is observed in 'run' mode and with event-only traps
        res.count('skipped_rejection_under_active_error_trap')
        return
    try:
        # ---- baseline: the original program -------------------------------------------------------
        with harness.Box(budget=5000) as b0:
            out = b0.enter(text)
            if out:
                viol('setup:entry-output', 'entering the program gave %r' % out[:200])
                return
            out, listed = pg.list_to_file(b0)
            if listed != model.listing():
                viol('setup:listing-not-canonical', 'generated program does not list as entered: %r' % (
                    [(g, e) for g, e in zip(listed or [], model.listing()) if g != e][:1],))
                return
            b0.ex(b'SAVE "IMG0"', 5000)
            img0 = pg.read_file(b0, 'IMG0.BAS')
            pre0 = b''
            if mode == 'trap':
                pre0 = b0.ex(b'RUN', 200)
                trace0 = _behaviour(b0, prog, b'GOTO %d' % prog['cont'], budget)
            else:
                trace0 = _behaviour(b0, prog, b'RUN', budget)
        img2 = None
        if mp is not None:
            # image of the expected listing typed into a fresh session (boxes must not nest: one virtual clock)
            exp = [b'%d %s' % (mp.get(n, n), rp.render(segs, mp)) for n, segs in prog['lines']]
            # (a line that RENUM moves TO number 0 has no blank stored after its number; typed as `0 text` it would keep one)
            typed = [(b'0%s' % rp.render(segs, mp) if (mp.get(n, n) == 0 and n != 0) else l) for l, (n, segs) in zip(exp, prog['lines'])]
            with harness.Box(budget=5000) as b2:
                b2.enter(typed)
                b2.ex(b'SAVE "IMG2"', 5000)
                img2 = pg.read_file(b2, 'IMG2.BAS')
            img2_dev = None
            if mp.get(0, 0) != 0 and 0 in model.lines:
                # recorded deviation (C13 key renum:line-entered-as-0-lists-with-extra-blank): a line typed under number 0 keeps the
                # blank after its number; once renumbered it lists with two blanks. Exactly the literal listing or exactly this is accepted.
                exp_dev = [(b'%d  %s' if n == 0 else b'%d %s') % (mp.get(n, n), rp.render(segs, mp)) for n, segs in prog['lines']]
                with harness.Box(budget=5000) as b2:
                    b2.enter(exp_dev)
                    b2.ex(b'SAVE "IMG2"', 5000)
                    img2_dev = pg.read_file(b2, 'IMG2.BAS')
        # ---- the renumbered program ------------------------------------------------------------------
        with harness.Box(budget=5000) as b1:
            b1.enter(text)
            pre1 = b''
            if mode == 'trap':
                pre1 = b1.ex(b'RUN', 200)
            out = b1.ex(cmd, 5000)
            flush_inv()
            code, _ = harness.err_of(out)
            out2, listed = pg.list_to_file(b1)
            b1.ex(b'SAVE "IMG1"', 5000)
            img1 = pg.read_file(b1, 'IMG1.BAS')
            if code:
                res.count('renum_rejected')
                if new == 0:
                    res.count('renum_new_0_rejected')
                if inc == 0:
                    res.count('renum_step_0_rejected')
                if mp is not None and moved:
                    viol('renum:valid-arguments-rejected', 'model map exists but RENUM gave %r' % out[:100])
                    return
                if listed != model.listing():
                    viol('renum:rejected-but-listing-changed', 'first difference %r' % (
                        [(g, e) for g, e in zip(listed or [], model.listing()) if g != e][:1],))
                    return
                if img1 != img0:
                    viol('renum:rejected-but-image-changed', 'saved image differs after a rejected RENUM')
                    return
                res.count('rejected_untouched_checked')
                eff = {}
            else:
                if mp is None:
                    viol('renum:impossible-renumbering-accepted', 'RENUM accepted, output %r; listing now %r' % (out[:80], (listed or [])[:3]))
                    return
                res.count('renum_accepted')
                if new == 0:
                    res.count('renum_new_0_accepted')
                if old == 0:
                    res.count('renum_old_0_explicit')
                eff = mp
                changed = any(k != v for k, v in mp.items())
                if changed:
                    res.count('renum_changed_numbers')
                # reports of missing targets
                expected_old, expected_new = set(), set()
                for n, segs in prog['lines']:
                    for r in rp.refs_of(segs):
                        if r not in model.lines:
                            expected_old.add((r, n))
                            expected_new.add((r, mp.get(n, n)))
                reported = set()
                rest = []
                for l in out.split(b'\r\n'):
                    m = re.match(rb'^Undefined line (\d+) in (\d+)$', l)
                    if m:
                        reported.add((int(m.group(1)), int(m.group(2))))
                    elif l:
                        rest.append(l)
                if rest:
                    viol('renum:unexpected-output', 'RENUM printed %r' % rest[:2])
                    return
                if expected_old:
                    res.count('missing_reported_seen')
                if reported != expected_old and reported != expected_new:
                    if not reported and expected_old:
                        key = 'renum:missing-target-not-reported'
                    elif reported - expected_old - expected_new and not expected_old:
                        key = 'renum:existing-target-reported-missing'
                    else:
                        key = 'renum:missing-target-reports-differ'
                    viol(key, 'reported %r, missing references are %r (containing line old numbering)' % (
                        sorted(reported)[:4], sorted(expected_old)[:4]))
                    return
                # listing
                exp = [b'%d %s' % (mp.get(n, n), rp.render(segs, mp)) for n, segs in prog['lines']]
                if img2_dev is not None and listed == exp_dev:
                    res.count('line0_blank_deviation_seen')
                    exp, img2 = exp_dev, img2_dev
                if listed != exp and img2_dev is not None and listed is not None and \
                        sum(1 for g, e in zip(listed, exp_dev) if g != e) < sum(1 for g, e in zip(listed, exp) if g != e):
                    exp = exp_dev    # diagnose against the nearer of the two accepted listings
                if listed != exp:
                    d = [(g, e) for g, e in zip((listed or []) + [None] * len(exp), exp + [None] * len(listed or [])) if g != e][:1]
                    gn = [l.split(b' ', 1)[0] for l in (listed or [])]
                    en = [l.split(b' ', 1)[0] for l in exp]
                    if gn != en:
                        key = 'renum:line-numbers-differ-from-model'
                    else:
                        # which kind of reference is wrong? name the statement keyword preceding the first difference
                        key = 'renum:reference-not-rewritten-consistently:' + _ref_kind(d[0][0], d[0][1])
                    viol(key, 'listing after RENUM (got, expected): %r' % d)
                    return
                # image == image of the expected listing typed into a fresh session
                res.count('image_compared')
                if img1 != img2:
                    viol('renum:image-differs-from-typed-in-expected-listing',
                         'saved image after RENUM differs from the image of the expected listing (lengths %d, %d)' % (len(img1), len(img2)))
                    return
                # links
                rows, end, raw = pg.peek_walk(b1, budget=20 * len(exp) + 200)
                probs = pg.check_walk(rows, end, sorted(mp.get(n, n) for n in model.lines))
                res.count('peek_walks')
                if probs:
                    viol('renum:peek-' + probs[0][0], '; '.join(p[1] for p in probs[:3]))
                    return
            if flush_inv():
                return
            # ---- behaviour ----------------------------------------------------------------------------
            collide = eff and (set(prog['missing']) & set(eff.values()))
            if collide:
                res.count('behaviour_skipped_missing_target_collides')
            else:
                if mode == 'trap':
                    trace1 = pre1 + _behaviour(b1, prog, b'GOTO %d' % eff.get(prog['cont'], prog['cont']), budget)
                else:
                    trace1 = _behaviour(b1, prog, b'RUN', budget)
                res.count('behaviour_compared')
                exp_trace = pre0 + _map_trace(trace0, eff)
                if mode == 'trap':
                    h = prog['handlers']
                    lo = old or 0
                    for which in ('error', 'key', 'timer'):
                        if which in h:
                            hl = h[which] if which != 'key' else h[which][1]
                            if not code:
                                res.count('trap_before_range_seen' if hl < lo else 'trap_inside_range_seen')
                    if re.search(rb'e\d+;', trace1):
                        res.count('trap_error_handler_reached')
                    if re.search(rb'k\d+;', trace1):
                        res.count('trap_event_handler_reached')
                        if not code and any(re.search(rb'(KEY\(\d+\)|TIMER) ON:C=C\+1', l) for l in text):
                            res.count('trap_defined_while_off_handler_reached_after_renum')
                if trace1 != exp_trace:
                    # name the mechanism: which kind of tag sequence diverges first
                    i = 0
                    while i < min(len(trace1), len(exp_trace)) and trace1[i] == exp_trace[i]:
                        i += 1
                    key = 'renum:behaviour-differs' + (':active-trap' if mode == 'trap' else '')
                    viol(key, 'trace after RENUM diverges at byte %d: got ..%r expected ..%r' % (
                        i, trace1[max(0, i - 30):i + 40], exp_trace[max(0, i - 30):i + 40]))
                    return
                if len(set(re.findall(rb'[a-z]\d+;', trace1))) >= 3:
                    res.count('behaviour_nontrivial_traces')
            changed = bool(eff) and any(k != v for k, v in eff.items())
            res.case((tuple(text), cmd, mode), nontrivial=(nrefs >= 3 and (bool(code) or changed)))
    except harness.Internal as e:
        res.violation(e.key, str(e) + ' [%s, mode %s]' % (cmd.decode(), mode), jcase)
        res.case((tuple(text), cmd, mode))
    flush_inv()


_KW = re.compile(rb'(GOTO|GOSUB|THEN|ELSE|RESTORE|RUN|RESUME|RETURN|ERL|LIST|DELETE|EDIT)[ =]*[0-9,\- ]*$')


def _ref_kind(got, exp):
    """Keyword governing the first differing position of two listing lines (mechanism name)."""
    if got is None or exp is None:
        return 'line-missing'
    i = 0
    while i < min(len(got), len(exp)) and got[i] == exp[i]:
        i += 1
    m = _KW.search(exp[:i])
    if not m:
        # difference inside a number that started earlier
        j = i
        while j > 0 and exp[j - 1:j].isdigit():
            j -= 1
        m = _KW.search(exp[:j])
    return m.group(1).decode() if m else 'other-text'


# ----------------------------------------------------------------------------------------------
# directed core (seed independent)

def L(n, *segs):
    return [n, list(segs)]


R = rp.R


def directed_cases():
    cases = []
    # D3 family: active trap line below `old`
    for what in ('error', 'key', 'timer'):
        if what == 'error':
            setup = [b'ON ERROR GOTO ', R(20)]
            h = {'error': 20}
            hl = L(20, b'PRINT "e1;";:RESUME NEXT')
        elif what == 'key':
            setup = [b'ON KEY(1) GOSUB ', R(20), b':KEY(1) ON']
            h = {'key': [1, 20]}
            hl = L(20, b'PRINT "k1;";:RETURN')
        else:
            setup = [b'ON TIMER(1) GOSUB ', R(20), b':TIMER ON']
            h = {'timer': 20}
            hl = L(20, b'PRINT "k1;";:RETURN')
        lines = [L(10, b'GOTO ', R(40)), hl, L(40, *setup), L(50, b'STOP'),
                 L(60, b'C=C+1:PRINT "t1;";:ERROR 5' if what == 'error' else b'C=C+1:PRINT "t1;";'),
                 L(70, b'FOR I=1 TO 30:PRINT "t2;";:NEXT'),
                 L(80, b'PRINT "end;":END')]
        prog = {'lines': lines, 'cont': 60, 'missing': [], 'handlers': h}
        for args in ([100, 40, None], [100, 60, 10], [100, 20, None], [None, None, None], [15, 40, None], [100, 10, 1]):
            cases.append({'prog': prog, 'args': args, 'mode': 'trap', 'budget': 300})
    # traps DEFINED while their event is OFF at RENUM time (never switched on / switched on and off again); the line after the STOP
    # switches the event ON, then the event is delivered: the handler must be found at its new number
    for what, define, on in (('key', [b'ON KEY(1) GOSUB ', R(20)], b'KEY(1) ON'),
                             ('key', [b'ON KEY(1) GOSUB ', R(20), b':KEY(1) ON:KEY(1) OFF'], b'KEY(1) ON'),
                             ('timer', [b'ON TIMER(1) GOSUB ', R(20)], b'TIMER ON'),
                             ('timer', [b'ON TIMER(1) GOSUB ', R(20), b':TIMER ON:TIMER OFF'], b'TIMER ON')):
        h = {'key': [1, 20]} if what == 'key' else {'timer': 20}
        lines = [L(10, b'GOTO ', R(40)), L(20, b'PRINT "k1;";:RETURN'), L(40, *define), L(50, b'STOP'),
                 L(60, on + b':C=C+1:PRINT "t1;";'), L(70, b'FOR I=1 TO 30:PRINT "t2;";:NEXT'), L(80, b'PRINT "end;":END')]
        prog = {'lines': lines, 'cont': 60, 'missing': [], 'handlers': h}
        for args in ([None, None, None], [100, 20, None], [100, 40, None], [1000, None, 7], [15, 40, None]):
            cases.append({'prog': prog, 'args': args, 'mode': 'trap', 'budget': 300, 'late': True})
    # RENUM argument forms with explicit boundary values in every position (0 is a value, not "omitted"; increment 0 is illegal)
    lines = [L(20, b'C=C+1:PRINT "t1;";:IF C>3 THEN ', R(50)), L(30, b'PRINT "t2;";:GOSUB ', R(60)), L(40, b'PRINT "t3;";:GOTO ', R(20)),
             L(50, b'PRINT "end;":END'), L(60, b'PRINT "s1;";:RETURN')]
    prog = {'lines': lines, 'cont': None, 'missing': [], 'handlers': {}}
    for args in ([0, None, None], [0, None, 1], [0, 0, None], [0, 0, 0], [0, 30, None], [0, 20, 5], [0, 60, None], [None, 0, None], [None, 0, 1],
                 [None, None, 0], [10, 0, 0], [1, None, None], [1, None, 1], [1, 1, 1], [1, 30, 1], [21, 30, 1], [65529, None, None], [65529, 60, None],
                 [65529, 60, 65529], [None, 65529, None], [None, None, 1], [None, None, 65529], [65525, None, 1], [65526, None, 1], [0, None, 16382],
                 [0, None, 16383], [None, 30, None], [None, 60, None], [None, 20, None]):
        cases.append({'prog': prog, 'args': args, 'mode': 'run', 'budget': 200})
    # line number 0 as a target of every kind that may name it, ON ERROR GOTO 0 next to it (not a reference), and references to a
    # MISSING line 0 (must be kept and reported)
    lines = [
        L(0, b'C=C+1:PRINT "t0;";:IF C>6 THEN ', R(90)),
        L(5, b'ON ERROR GOTO 0:PRINT "t5;";:GOSUB ', R(50)),
        L(10, b'PRINT "t10;";:IF C<3 THEN ', R(0), b' ELSE ', R(20)),
        L(20, b'PRINT "t20;";:RESTORE ', R(0), b':READ A$:PRINT A$;:IF C<5 THEN GOTO ', R(0)),
        L(30, b'PRINT "t30;";:ON C-4 GOTO ', R(0), b',', R(40)),
        L(40, b'PRINT "t40;";:IF C>5 THEN PRINT "y;"; ELSE ', R(0)),
        L(45, b'GOTO ', R(90)),
        L(50, b'PRINT "s50;";:RETURN'),
        L(60, b'DATA "d60;"'),
        L(90, b'PRINT "end;":END'),
        L(95, b'END:GOSUB ', R(0), b':RUN ', R(0), b':ON X GOSUB ', R(0), b',', R(50), b':LIST ', R(0), b'-', R(10)),
    ]
    prog = {'lines': lines, 'cont': None, 'missing': [], 'handlers': {}}
    for args in ([None, None, None], [100, None, 5], [1, None, 1], [500, 10, None], [7, 5, 1], [0, None, 10], [0, None, None], [0, 0, 1]):
        cases.append({'prog': prog, 'args': args, 'mode': 'run', 'budget': 300})
    lines = [
        L(10, b'C=C+1:PRINT "t10;";:ON ERROR GOTO 0:IF C>2 THEN ', R(40)),
        L(20, b'PRINT "t20;";:IF C=9 THEN GOTO ', R(0), b' ELSE IF C=8 THEN ', R(0)),
        L(30, b'PRINT "t30;";:IF C=7 THEN GOSUB ', R(0), b':RESTORE ', R(0)),
        L(35, b'GOTO ', R(10)),
        L(40, b'PRINT "end;":END'),
    ]
    prog = {'lines': lines, 'cont': None, 'missing': [0], 'handlers': {}}
    for args in ([None, None, None], [100, 20, 1], [5, None, 5]):
        cases.append({'prog': prog, 'args': args, 'mode': 'run', 'budget': 300})
    # one line per reference kind, RENUM of the whole program and of a tail
    lines = [
        L(10, b'C=C+1:PRINT "t1;";:GOTO ', R(30)),
        L(20, b'PRINT "t2;";:GOSUB ', R(200), b':GOSUB ', R(210)),
        L(30, b'PRINT "t3;";:IF C=1 THEN ', R(20), b' ELSE ', R(40)),
        L(40, b'PRINT "t4;";:ON C GOTO ', R(50), b',', R(60), b',', R(70)),
        L(50, b'PRINT "t5;";:ON C GOSUB ', R(200), b',', R(210), b':GOTO ', R(60)),
        L(60, b'PRINT "t6;";:RESTORE ', R(310), b':READ A$:PRINT A$;:RESTORE ', R(300), b':READ A$:PRINT A$;'),
        L(70, b'PRINT "t7;";:ON ERROR GOTO ', R(250), b':ERROR 5'),
        L(80, b'PRINT "t8;";:IF C<3 THEN PRINT "y;"; ELSE ', R(100)),
        L(90, b'PRINT "t9;";:IF C GOTO ', R(100)),
        L(100, b'PRINT "t10;";:ON ERROR GOTO 0:X=100:PRINT "100";:REM GOTO 100'),
        L(110, b'PRINT "t11;";:IF C<4 THEN C=C+5:RUN ', R(120)),
        L(120, b'PRINT "t12;";:GOTO ', R(65000)),
        L(130, b'PRINT "end;":END'),
        L(200, b'PRINT "s1;";:RETURN'),
        L(210, b'PRINT "s2;";:RETURN ', R(220)),
        L(220, b'PRINT "s3;";:GOTO ', R(60)),
        L(250, b'PRINT "e1;";ERR;:IF ERL=', R(70), b' THEN PRINT "L;"; ELSE PRINT "N;";'),
        L(260, b'IF ERL=', R(80), b' OR ERL=', R(70), b' THEN RESUME ', R(80)),
        L(270, b'RESUME NEXT'),
        L(300, b'DATA "d1;"'),
        L(310, b'DATA "d2;"'),
        L(400, b'END:LIST ', R(10), b'-', R(30), b':DELETE ', R(200), b'-', R(210), b':EDIT ', R(40)),
        L(410, b'ON PEN GOSUB ', R(200), b':ON STRIG(0) GOSUB ', R(210), b':ON PLAY(3) GOSUB ', R(200), b':ON COM(1) GOSUB ', R(210)),
        L(420, b'ON KEY(5) GOSUB ', R(200), b':ON TIMER(9) GOSUB ', R(210), b':GOSUB ', R(7), b':RESUME ', R(421)),
    ]
    prog = {'lines': lines, 'cont': None, 'missing': [65000, 7, 421], 'handlers': {}}
    for args in ([None, None, None], [1000, None, 1], [5000, 100, 7], [65000, 300, 100], [205, 200, None], [300, 210, 10],
                 [100, 110, None], [64000, None, 100], [1, None, 1], [None, None, 0], [130, 130, None], [65529, 420, None],
                 [65521, 410, 8], [65521, 410, 9]):
        cases.append({'prog': prog, 'args': args, 'mode': 'run', 'budget': 300})
    return cases


def run_shard(spec, res):
    inv = rprog.ProgramInvariant().install()
    try:
        if spec['kind'] == 'directed':
            for c in directed_cases():
                run_case(res, c, inv)
                res.count('directed_cases')
            # fixed-seed generated programs, both modes
            for i in range(30):
                rng = random.Random('C14:directed:%d' % i)
                mode = 'trap' if i % 2 else 'run'
                prog = rp.gen_program(rng, rng.randint(8, 30), mode, lambda k: res.count(k))
                for _ in range(2):
                    run_case(res, {'prog': prog, 'args': rp.gen_renum_args(rng, prog), 'mode': mode, 'budget': 300}, inv)
                    res.count('directed_cases')
            return
        rng = random.Random('%s:C14:%s:%s' % (spec['seed'], spec['kind'], spec.get('part', 0)))
        for i in range(spec['n']):
            mode = 'trap' if rng.random() < 0.4 else 'run'
            nl = rng.choice([rng.randint(5, 15), rng.randint(15, 35), rng.randint(35, 60)])
            prog = rp.gen_program(rng, nl, mode, lambda k: res.count(k))
            nargs = rng.choice([1, 2, 2, 3])
            for j in range(nargs):
                args = rp.gen_renum_args(rng, prog)
                if mode == 'trap' and 'error' in prog['handlers']:
                    # a rejected RENUM would be trapped by the active ON ERROR handler: draw acceptable arguments here
                    model = rprog.RProg(dict((n, b'') for n, segs in prog['lines']))
                    for _ in range(12):
                        new, old, inc = args
                        if model.renum_map(10 if new is None else new, old or 0, 10 if inc is None else inc) is not None \
                                and any(n >= (old or 0) for n in model.lines):
                            break
                        args = rp.gen_renum_args(rng, prog)
                case = {'prog': prog, 'args': args, 'mode': mode, 'budget': rng.choice([150, 300, 600])}
                run_case(res, case, inv)
                if i == 0 and j == 0:
                    res.sample({'program': _entered(prog)[:8], 'renum': case['args'], 'mode': mode})
            res.count('programs')
            res.maxc('max_program_lines', len(prog['lines']))
    finally:
        res.count('inv_checks', inv.checks)
        inv.report(res, None)
        inv.uninstall()
