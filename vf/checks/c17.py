"""
C17 Tokenising and listing are consistent.

Oracles
 (A) keyword tables, exhaustive: every keyword of every dialect (advanced, pcjr, tandy) x {upper, lower,
     8 random capitalisations} x 3 contexts: tokenises like the upper-case spelling, contains exactly the
     table's token, lists back to the upper-case keyword, and the listing re-tokenises identically; the two
     table directions are inverse bijections; the documented GW-BASIC reserved words (independent list)
     are all present.
 (B) number literals of every token class: the token written for an exactly representable literal must be the
     documented encoding of exactly that value in that type (R-NUM), the listed text must denote exactly the
     same value with the same type mark, and re-entering the listing must give the identical token.
 (C) generated well-formed lines with canonical separators (vf.gen.c17_lines): tokenise(list(tokenise(L))) ==
     tokenise(L) on the session's own Tokeniser / Lister; random capitalisation of keywords and names
     tokenises like the upper-case line.
 (D) the BASIC-level path: enter the lines, SAVE, LIST ,"file", NEW, MERGE / LOAD "file", SAVE: both saved
     images must be byte-identical.
"""
import random
import re
from fractions import Fraction

from ..models import rnum
from ..gen import c17_lines as gl
from ..gen import prog_gen as pg

META = {
    'property_id': 'C17',
    'technique': 'round-trip monitor tokenise->list->tokenise (API and BASIC level) + exhaustive keyword-table enumeration + literal tokens against the documented encodings',
    'level': 'exploration',
    'level_text': (
        'Keyword tables are enumerated exhaustively for the three dialects (every keyword x 10 capitalisations x 3 contexts). '
        'Lines generated from a statement grammar with canonical separators and literals of every token class are round-tripped through the '
        'session\'s own tokeniser and lister and through enter / LIST to file / NEW / MERGE / SAVE; literal tokens are compared with the '
        'documented encoding of the exact value (independent R-NUM model).'),
    'level_note': (
        'Trusted: harness, R-NUM. Only canonical spacing is generated (the statement quantifies over canonical separators); the type of a literal is only '
        'asserted where the text pins it (the value 10 must be written as the byte constant 0F 0A, as the reference tokeniser does; the one-byte token 1B, '
        'which no tokeniser writes, is only required to list as 10 and re-enter as an integer constant 10: it is taken to lie outside the quantifier); the type is pinned by (type mark, E/D exponent, or an unambiguous digit count: <= 7 digits single, 8..16 significant digits '
        'without leading zeros double; integers <= 32767 without mark are integer classes). The ? shorthand is only in the directed core.'),
    'rule': ('case = one keyword spelling in context / one literal text / one program line (text); distinct by the text and dialect; '
             'non-trivial = every keyword case; literal cases; lines containing at least one keyword token and one number or string literal'),
    'design_ref': 'DESIGN.md section 4 C17',
    'assumptions': ['token encodings per the GW-BASIC tokenised program format', 'documented GW-BASIC reserved word list'],
    'exhaustive': {'quick': 'all keywords of the advanced, pcjr and tandy tables x {upper, lower, 8 random capitalisations} x 3 contexts; token<->keyword bijection',
                   'thorough': 'all keywords of the advanced, pcjr and tandy tables x {upper, lower, 8 random capitalisations} x 3 contexts; token<->keyword bijection'},
    'require_counters': {'any': ['keywords_enumerated', 'lit_const', 'lit_byte', 'lit_int', 'lit_hex', 'lit_oct', 'lit_single', 'lit_double',
                                 'lit_jump', 'lines_api', 'lines_basic', 'lines_with_comment', 'lines_with_data', 'lines_with_string',
                                 'basic_programs_roundtripped', 'listing_differs_from_source_seen']},
    'timeout': {'quick': 900, 'thorough': 7200},
}

DIALECTS = ['advanced', 'pcjr', 'tandy']

# GW-BASIC 3.23 reserved words, from the User's Guide (independent of pcbasic/basic/base/tokens.py)
DOCUMENTED = (
    'ABS AND ASC ATN AUTO BEEP BLOAD BSAVE CALL CDBL CHAIN CHDIR CHR$ CINT CIRCLE CLEAR CLOSE CLS COLOR COM COMMON CONT COS CSNG '
    'CSRLIN CVD CVI CVS DATA DATE$ DEF DEFDBL DEFINT DEFSNG DEFSTR DELETE DIM DRAW EDIT ELSE END ENVIRON EOF EQV ERASE ERDEV ERL '
    'ERR ERROR EXP EXTERR FIELD FILES FIX FN FOR FRE GET GOSUB GOTO HEX$ IF IMP INKEY$ INP INPUT INSTR INT IOCTL KEY KILL LEFT$ LEN '
    'LET LINE LIST LLIST LOAD LOC LOCATE LOCK LOF LOG LPOS LPRINT LSET MERGE MID$ MKDIR MKD$ MKI$ MKS$ MOD MOTOR NAME NEW NEXT NOT '
    'OCT$ OFF ON OPEN OPTION OR OUT PAINT PALETTE PCOPY PEEK PEN PLAY PMAP POINT POKE POS PRESET PRINT PSET PUT RANDOMIZE READ REM '
    'RENUM RESET RESTORE RESUME RETURN RIGHT$ RMDIR RND RSET RUN SAVE SCREEN SGN SHELL SIN SOUND SPACE$ SPC( SQR STEP STICK STOP STR$ '
    'STRIG STRING$ SWAP SYSTEM TAB( TAN THEN TIME$ TIMER TO TROFF TRON UNLOCK USING USR VAL VARPTR VIEW WAIT WEND WHILE WIDTH WINDOW '
    'WRITE XOR').split()
DOCUMENTED_PCJR_TANDY = ['NOISE', 'TERM']


def plan(tier, seed):
    shards = [{'kind': 'keywords'}, {'kind': 'directed'}]
    if tier == 'quick':
        shards += [{'kind': 'literals', 'part': i, 'n': 10000} for i in range(2)]
        shards += [{'kind': 'lines_api', 'part': i, 'n': 7500} for i in range(4)]
        shards += [{'kind': 'lines_basic', 'part': i, 'n': 5000} for i in range(4)]
    else:
        shards += [{'kind': 'literals', 'part': i, 'n': 50000} for i in range(4)]
        shards += [{'kind': 'lines_api', 'part': i, 'n': 30000} for i in range(20)]
        shards += [{'kind': 'lines_basic', 'part': i, 'n': 15000} for i in range(12)]
    return shards


# ----------------------------------------------------------------------------------------------
# API-level helpers

class Api(object):
    def __init__(self, box):
        from pcbasic.basic.base import codestream
        self.cs = codestream
        self.tok = box.impl.tokeniser
        self.lis = box.impl.lister

    def tokenise(self, line):
        from .. import harness
        st, v = harness.guarded(lambda: self.tok.tokenise_line(line).getvalue())
        return v

    def list(self, tokens):
        from .. import harness

        def f():
            s = self.cs.TokenisedStream()
            s.write(tokens)
            s.seek(1)
            n, text, _ = self.lis.detokenise_line(s)
            return n, bytes(text)
        st, v = harness.guarded(f)
        return v


def token_class(t, i):
    """Class of the token of tokenised line t (after the 5-byte header) that contains offset i."""
    p = 5
    instr = False
    while p < len(t):
        b = t[p]
        if instr:
            ln = 1
            cls = 'string'
            if b == 0x22:
                instr = False
        elif b == 0x22:
            instr, ln, cls = True, 1, 'string'
        elif b in rprog_payload:
            ln = 1 + rprog_payload[b]
            cls = {0x0b: 'octal', 0x0c: 'hex', 0x0d: 'line-pointer', 0x0e: 'line-number', 0x0f: 'byte', 0x1c: 'integer', 0x1d: 'single', 0x1f: 'double'}[b]
        elif 0x11 <= b <= 0x1b:
            ln, cls = 1, 'constant'
        elif b >= 0xfd:
            ln, cls = 2, 'keyword'
        elif b >= 0x80:
            ln, cls = 1, 'keyword'
        elif b == 0x20:
            ln, cls = 1, 'blank'
        else:
            ln, cls = 1, 'text'
        if p <= i < p + ln:
            return cls
        p += ln
    return 'end'


rprog_payload = {0x0b: 2, 0x0c: 2, 0x0d: 2, 0x0e: 2, 0x0f: 1, 0x1c: 2, 0x1d: 4, 0x1f: 8}


def _tokens(t):
    """Split a tokenised line (after the 5-byte header) into (class, bytes) items; REM/DATA/strings are one verbatim item."""
    p, n, out = 5, len(t), []
    while p < n:
        b = t[p]
        if b == 0x22:
            q = t.find(b'"', p + 1)
            q = n if q < 0 else q + 1
            out.append(('verbatim', t[p:q]))
        elif b in rprog_payload:
            q = p + 1 + rprog_payload[b]
            out.append(('number', t[p:q]))
        elif 0x11 <= b <= 0x1b:
            q = p + 1
            out.append(('number', t[p:q]))
        elif b == 0x8f:
            q = n
            out.append(('verbatim', t[p:q]))
        elif b == 0x84:
            q, inq = p + 1, False
            while q < n and (inq or t[q] != 0x3a):
                if t[q] == 0x22:
                    inq = not inq
                q += 1
            out.append(('verbatim', t[p:q]))
        elif b >= 0xfd:
            q = p + 2
            out.append(('keyword', t[p:q]))
        elif b >= 0x80:
            q = p + 1
            out.append(('keyword', t[p:q]))
        elif b == 0x20:
            q = p + 1
            out.append(('blank', t[p:q]))
        elif (48 <= b <= 57) or (65 <= b <= 90) or (97 <= b <= 122) or b == 0x2e:
            q = p + 1
            out.append(('alnum', t[p:q]))
        else:
            q = p + 1
            out.append(('punct', t[p:q]))
        p = q
    return out


def strip_all(t):
    """The tokenised line without its blanks (outside strings, comments, DATA)."""
    return t[:5] + b''.join(b for c, b in _tokens(t) if c != 'blank')


def compact_tokens(t):
    """
    The tokenised line as a compactly typed GW-BASIC program has it: without the blanks that a listing restores
    (next to a keyword token or punctuation).  Kept: blanks between two name/number items (they separate words),
    the blank after WHILE and the blank before ELSE (listing quirks not pinned by the statement).
    """
    items = _tokens(t)
    out = []
    for i, (c, b) in enumerate(items):
        if c == 'blank':
            prev = items[i - 1] if i else ('punct', b'')
            nxt = items[i + 1] if i + 1 < len(items) else ('punct', b'')
            wordy = ('alnum', 'number', 'blank')
            if prev[0] in wordy and nxt[0] in wordy:
                out.append(b)
                continue
            if prev[1] == b'\xe9' and i >= 2 and items[i - 2][1] == b'\xb1':
                out.append(b)
                continue
            if nxt[1] == b':' and i + 2 < len(items) and items[i + 2][1] == b'\xa1':
                out.append(b)
                continue
            if prev[0] == 'verbatim' and prev[1][:1] != b'"':
                out.append(b)
                continue
            continue
        out.append(b)
    return t[:5] + b''.join(out)


def first_diff(a, b):
    i = 0
    while i < min(len(a), len(b)) and a[i] == b[i]:
        i += 1
    return i


def roundtrip(api, res, line, where, dialect, case=None, name=None):
    """tokenise -> list -> tokenise; returns (t1, listed) or None after reporting."""
    from .. import harness
    try:
        t1 = api.tokenise(line)
        n, text = api.list(t1)
        t2 = api.tokenise(text)
    except harness.Internal as e:
        res.violation(e.key, str(e), {'line': line, 'dialect': dialect})
        return None
    if t2 != t1:
        i = first_diff(t1, t2)
        if name:
            key = 'roundtrip:%s:%s' % (where, name)
        else:
            key = 'roundtrip:%s:tokens-differ:%s->%s' % (where, token_class(t1, i), token_class(t2, i))
        res.violation(key, 'line %r tokenises to %r, lists as %r, which tokenises to %r' % (line, t1, text, t2),
                      {'line': line, 'dialect': dialect})
        return None
    return t1, text


# ----------------------------------------------------------------------------------------------
# (A) keyword tables

def run_keywords(spec, res):
    from .. import harness
    from pcbasic.basic.base import tokens as tk
    rng = random.Random('C17:keywords')   # the capitalisations are fixed: this shard is seed independent
    for dialect in DIALECTS:
        table = tk.TokenKeywordDict(dialect)
        to_kw, to_tok = dict(table.to_keyword), dict(table.to_token)
        # bijection
        if len(to_kw) != len(to_tok):
            res.violation('table:not-a-bijection', '%s: %d tokens, %d keywords' % (dialect, len(to_kw), len(to_tok)), {'dialect': dialect})
        for t, k in to_kw.items():
            if to_tok.get(k) != t:
                res.violation('table:token-keyword-token-not-identity', '%s: %r -> %r -> %r' % (dialect, t, k, to_tok.get(k)), {'dialect': dialect})
        for k, t in to_tok.items():
            if to_kw.get(t) != k:
                res.violation('table:keyword-token-keyword-not-identity', '%s: %r -> %r -> %r' % (dialect, k, t, to_kw.get(t)), {'dialect': dialect})
            if k != k.upper():
                res.violation('table:keyword-not-upper-case', '%s: %r' % (dialect, k), {'dialect': dialect})
        res.bulk(2 * len(to_kw), 2 * len(to_kw))
        documented = [d.encode('ascii') for d in DOCUMENTED + (DOCUMENTED_PCJR_TANDY if dialect != 'advanced' else [])]
        for d in documented:
            if d not in to_tok:
                res.violation('table:documented-keyword-missing', '%s: %r is not in the keyword table' % (dialect, d), {'dialect': dialect, 'keyword': d})
        res.bulk(len(documented), len(documented))
        with harness.Box(syntax=dialect) as box:
            api = Api(box)
            if api.tok._keyword_to_token is not table.to_token and dict(api.tok._keyword_to_token) != to_tok:
                res.violation('table:session-tokeniser-uses-other-table', dialect, {'dialect': dialect})
            keywords = sorted(set(to_tok) | set(documented))
            for kw in keywords:
                letters = [i for i in range(len(kw)) if 65 <= kw[i] <= 90]
                variants = [kw, kw.lower()]
                for _ in range(8):
                    variants.append(bytes((ch | 0x20) if (65 <= ch <= 90 and rng.random() < 0.5) else ch for ch in kw))
                token = to_tok.get(kw)
                for ctx, (pre, post) in enumerate([(b'10 ', b''), (b'10 ', b' X'), (b'10 A=1:', b' X')]):
                    ref = None
                    for v in variants:
                        line = pre + v + post
                        try:
                            t = api.tokenise(line)
                        except harness.Internal as e:
                            res.violation(e.key, str(e), {'line': line, 'dialect': dialect})
                            continue
                        if ref is None:
                            ref = t
                            # upper-case spelling: contains its token, lists back as itself, listing re-tokenises identically
                            if token is not None and token not in t[5:]:
                                res.violation('keyword:token-not-produced', '%s: %r tokenises to %r without token %r' % (dialect, line, t, token),
                                              {'line': line, 'dialect': dialect})
                            if token is not None and kw.isalpha() and kw in t[5:] and kw not in (b'REM', b'DATA'):
                                res.violation('keyword:left-as-text', '%s: %r tokenises to %r' % (dialect, line, t), {'line': line, 'dialect': dialect})
                            rt = roundtrip(api, res, line, 'keyword', dialect)
                            if rt is not None and ctx == 0 and rt[1] != line:
                                res.violation('keyword:lists-differently', '%s: %r lists as %r' % (dialect, line, rt[1]), {'line': line, 'dialect': dialect})
                            if rt is not None and ctx > 0 and kw not in rt[1]:
                                res.violation('keyword:lists-differently', '%s: %r lists as %r' % (dialect, line, rt[1]), {'line': line, 'dialect': dialect})
                        elif t != ref:
                            res.violation('keyword:case-sensitive', '%s: %r tokenises to %r but the upper-case spelling to %r' % (dialect, line, t, ref),
                                          {'line': line, 'dialect': dialect})
                    res.bulk(len(variants), len(set(variants)))
                res.count('keywords_enumerated')
            res.count('keywords_%s' % dialect, len(keywords))
            if dialect == 'advanced':
                res.sample({'dialect': dialect, 'keywords': len(keywords), 'example': [b'10 A=1:pRiNt X', api.tokenise(b'10 A=1:pRiNt X')]})


# ----------------------------------------------------------------------------------------------
# (B) literals

def _le16(v):
    return bytes([v & 0xff, (v >> 8) & 0xff])


def gen_literal(rng):
    """-> (class, text bytes, expected token bytes, exact value Fraction)"""
    k = rng.randrange(9)
    if k == 0:
        v = rng.randint(0, 10)
        # the reference tokeniser (GW-BASIC) writes the one-byte constants 11..1A for 0..9 and the byte constant 0F 0A for 10;
        # the token 1B (constant 10) is understood by the lister but written by nothing: see the directed token-built lines
        if v == 10:
            return 'byte', b'10', b'\x0f\x0a', Fraction(10)
        return 'const', b'%d' % v, bytes([0x11 + v]), Fraction(v)
    if k == 1:
        v = rng.choice([11, 12, 99, 100, 254, 255, rng.randint(11, 255)])
        return 'byte', b'%d' % v, bytes([0x0f, v]), Fraction(v)
    if k == 2:
        v = rng.choice([256, 257, 999, 1000, 9999, 10000, 32766, 32767, rng.randint(256, 32767)])
        return 'int', b'%d' % v, b'\x1c' + _le16(v), Fraction(v)
    if k == 3:
        v = rng.choice([0, 1, 9, 10, 15, 16, 255, 256, 0x7fff, 0x8000, 0xfffe, 0xffff, rng.randint(0, 0xffff)])
        t = b'&H%X' % v
        if rng.random() < 0.3:
            t = t.lower()
        return 'hex', t, b'\x0c' + _le16(v), Fraction(v)
    if k == 4:
        v = rng.choice([0, 1, 7, 8, 63, 64, 0o77777, 0o100000, 0o177777, rng.randint(0, 0xffff)])
        t = (b'&O%o' if rng.random() < 0.6 else b'&%o') % v
        if rng.random() < 0.3:
            t = t.lower()
        return 'oct', t, b'\x0b' + _le16(v), Fraction(v)
    if k in (5, 6):
        v = gl.exact_value(rng, 4)
        t, _ = gl.float_text(rng, v, 4)
        if rng.random() < 0.3:
            t = t.lower()
        return 'single', t.encode('ascii'), b'\x1d' + rnum.encode_exact(v, 4), v
    if k == 7:
        v = gl.exact_value(rng, 8)
        t, _ = gl.float_text(rng, v, 8)
        if rng.random() < 0.3:
            t = t.lower()
        return 'double', t.encode('ascii'), b'\x1f' + rnum.encode_exact(v, 8), v
    v = rng.choice([0, 1, 10, 255, 256, 32767, 32768, 65528, 65529, rng.randint(0, 65529)])
    return 'jump', b'%d' % v, b'\x0e' + _le16(v), Fraction(v)


_NUM = re.compile(rb'^(&H[0-9A-F]+|&O[0-7]+|[0-9]*\.?[0-9]*(?:[ED][+-]?[0-9]+)?[!#%]?)$')


def listed_value(text):
    """(value, mark) of a listed number text; mark in 'int','single','double','hex','oct'."""
    if text.startswith(b'&H'):
        return Fraction(int(text[2:], 16)), 'hex'
    if text.startswith(b'&O'):
        return Fraction(int(text[2:], 8)), 'oct'
    v = rnum.parse_decimal(text)
    if text.endswith(b'#') or b'D' in text:
        return v, 'double'
    if text.endswith(b'!') or b'E' in text or b'.' in text:
        return v, 'single'
    return v, 'int'


def run_literals(spec, res):
    from .. import harness
    rng = random.Random('%s:C17:%s:%s' % (spec['seed'], spec['kind'], spec.get('part', 0)))
    boxes = [harness.Box(syntax=d) for d in DIALECTS]
    try:
        apis = [Api(b) for b in boxes]
        for i in range(spec['n']):
            cls, text, exp_tok, value = gen_literal(rng)
            di = i % 3
            api, dialect = apis[di], DIALECTS[di]
            if cls == 'jump':
                pre = rng.choice([b'GOTO ', b'GOSUB ', b'IF A THEN ', b'IF A THEN B=1 ELSE ', b'RESTORE ', b'RESUME ', b'RUN ', b'ON X GOTO 10,',
                                  b'IF ERL=', b'RETURN ', b'ON ERROR GOTO '])
                post = b''
            else:
                pre = rng.choice([b'X=', b'PRINT ', b'X=Y+', b'A(', b'IF X>', b'PRINT A;', b'POKE 1,', b'Z#=-'])
                post = {b'A(': b')=1', b'IF X>': b' THEN STOP'}.get(pre, b'')
            line = b'10 ' + pre + text + post
            case = {'line': line, 'dialect': dialect, 'class': cls}
            res.case((line, dialect))
            res.count('lit_' + cls)
            try:
                t_pre = api.tokenise(b'10 ' + pre)
                t1 = api.tokenise(line)
                t_post = api.tokenise(b'10 Q' + post)[6:] if post else b''
            except harness.Internal as e:
                res.violation(e.key, str(e), case)
                continue
            alts = exp_tok if isinstance(exp_tok, tuple) else (exp_tok,)
            # (an octal constant swallows a blank that follows it; the lister puts it back)
            ok = any(t1 in (t_pre + a + t_post, t_pre + a + t_post.lstrip(b' ')) for a in alts)
            if not ok:
                res.violation('literal:%s:token-is-not-the-encoding-of-the-value' % cls,
                              '%r: tokens %r, expected %r + %r + %r (value %s)' % (line, t1, t_pre, exp_tok, t_post, value), case)
                continue
            rt = roundtrip(api, res, line, 'literal-' + cls, dialect, name='token-changes')
            if rt is None:
                continue
            listed = rt[1]
            lp = api.list(t_pre)[1]
            lq = api.list(b'\0\xc0\xde\x0a\x00Q' + t_post)[1][4:] if post else b''
            ltext = listed[len(lp):len(listed) - len(lq)] if listed.startswith(lp) else b'?'
            if listed != line:
                res.count('listing_differs_from_source_seen')
            try:
                if not _NUM.match(ltext):
                    raise ValueError(ltext)
                lv, mark = listed_value(ltext)
            except (ValueError, ZeroDivisionError):
                res.violation('literal:%s:listed-text-unparsable' % cls, '%r lists as %r' % (line, listed), case)
                continue
            want = {'const': 'int', 'byte': 'int', 'int': 'int', 'jump': 'int', 'hex': 'hex', 'oct': 'oct', 'single': 'single', 'double': 'double'}[cls]
            if lv != value:
                res.violation('literal:%s:listed-value-differs' % cls, '%r lists as %r (value %s, expected %s)' % (line, listed, lv, value), case)
            elif mark != want:
                res.violation('literal:%s:listed-type-mark-differs' % cls, '%r lists as %r (%s, expected %s)' % (line, listed, mark, want), case)
            if i < 3:
                res.sample({'line': line, 'tokens': t1, 'listed': listed, 'class': cls})
    finally:
        for b in boxes:
            b.close()


# ----------------------------------------------------------------------------------------------
# (C) API-level lines

def nontrivial_line(t1):
    kw = any(b >= 0x80 for b in t1[5:])
    lit = any((b in rprog_payload or 0x11 <= b <= 0x1b or b == 0x22) for b in t1[5:])
    return kw and lit


def observe_line_features(res, S):
    kinds = [k for k, b in S]
    code = b''.join(b for k, b in S if k == 'c')
    if b'REM' in code or b"'" in code:
        res.count('lines_with_comment')
    if b'DATA' in code:
        res.count('lines_with_data')
    if any(k == 'v' and b.startswith(b'"') for k, b in S):
        res.count('lines_with_string')


def run_lines_api(spec, res):
    from .. import harness
    rng = random.Random('%s:C17:%s:%s' % (spec['seed'], spec['kind'], spec.get('part', 0)))
    boxes = [harness.Box(syntax=d) for d in DIALECTS]
    try:
        apis = [Api(b) for b in boxes]
        for i in range(spec['n']):
            di = i % 3
            api, dialect = apis[di], DIALECTS[di]
            S = gl.gen_line(rng, dialect)
            num = rng.choice([0, 1, 10, 65529, rng.randint(0, 65529)])
            upper = b'%d ' % num + gl.text_of(S)
            mixed = b'%d ' % num + gl.recase(rng, S)
            observe_line_features(res, S)
            res.count('lines_api')
            rt = roundtrip(api, res, upper, 'api', dialect)
            if rt is None:
                res.case((upper, dialect))
                continue
            t1, listed = rt
            res.case((upper, dialect), nontrivial=nontrivial_line(t1))
            if listed != upper:
                res.count('listing_differs_from_source_seen')
            try:
                tm = api.tokenise(mixed)
            except harness.Internal as e:
                res.violation(e.key, str(e), {'line': mixed, 'dialect': dialect})
                continue
            if tm != t1:
                j = first_diff(tm, t1)
                res.violation('case:line-tokenises-differently:%s' % token_class(t1, j),
                              '%r tokenises to %r, its upper-case spelling %r to %r' % (mixed, tm, upper, t1), {'line': mixed, 'dialect': dialect})
            if mixed != upper:
                res.count('lines_recased')
            # (E) the same statements as a compactly typed program stores them (no optional blanks)
            tc = compact_tokens(t1)
            if tc != t1:
                res.count('lines_compact')
                try:
                    n_, text_c = api.list(tc)
                    t2c = api.tokenise(text_c)
                    text_2 = api.list(t2c)[1]
                except harness.Internal as e:
                    res.violation(e.key, str(e), {'line': upper, 'compact_tokens': tc, 'dialect': dialect})
                    continue
                if strip_all(t2c) != strip_all(tc):
                    j = first_diff(strip_all(tc), strip_all(t2c))
                    res.violation('compact:listing-re-enters-as-other-tokens:%s->%s' % (token_class(strip_all(tc), j), token_class(strip_all(t2c), j)),
                                  'tokens %r list as %r, which tokenises to %r' % (tc, text_c, t2c), {'line': upper, 'compact_tokens': tc, 'dialect': dialect})
                elif text_2 != text_c:
                    res.violation('compact:listing-is-not-a-fixed-point', 'tokens %r list as %r; re-entered this lists as %r' % (tc, text_c, text_2),
                                  {'line': upper, 'compact_tokens': tc, 'dialect': dialect})
            if i < 2:
                res.sample({'line': mixed, 'dialect': dialect, 'tokens': t1, 'listed': listed})
    finally:
        for b in boxes:
            b.close()


# ----------------------------------------------------------------------------------------------
# (D) BASIC-level path

def basic_roundtrip(res, dialect, lines, rng, label=None):
    """lines = [(number, text)]; enter, SAVE, LIST to file, NEW, MERGE/LOAD, SAVE; images must be identical."""
    from .. import harness
    case = {'dialect': dialect, 'lines': [b'%d %s' % (n, t) for n, t in lines]}
    try:
        with harness.Box(syntax=dialect, budget=5000) as box:
            for n, t in lines:
                out = box.ex(b'%d %s' % (n, t), 5000)
                if out:
                    res.violation('basic:entry-output', 'entering %r gave %r' % (b'%d %s' % (n, t), out[:100]), case)
                    return False
            out = box.ex(b'SAVE "P1"', 5000)
            img1 = pg.read_file(box, 'P1.BAS')
            out2, listed = pg.list_to_file(box, b'L.TXT')
            if listed is None or out or out2:
                res.violation('basic:save-or-list-failed', 'SAVE gave %r, LIST gave %r' % (out, out2), case)
                return False
            if any(len(l) > 254 for l in listed):
                res.count('basic_programs_skipped_long_listing')
                return False
            how = rng.choice([b'MERGE', b'LOAD'])
            box.ex(b'NEW', 5000)
            out = box.ex(how + b' "L.TXT"', 5000)
            if out:
                res.violation('basic:%s-of-own-listing-fails' % how.decode().lower(), '%s of the listing gave %r; listing %r..' % (how, out[:100], listed[:2]), case)
                return False
            box.ex(b'SAVE "P2"', 5000)
            img2 = pg.read_file(box, 'P2.BAS')
            if img1 != img2:
                i = first_diff(img1, img2)
                # find the line
                from ..models import c13_rprog as rprog
                l1, _ = rprog.scan_image(img1[1:], 0)
                l2, _ = rprog.scan_image(img2[1:], 0)
                bad = [(a, b) for a, b in zip(l1, l2) if a[2:] != b[2:]][:1]
                key = label or 'roundtrip:basic:image-differs-after-list-and-%s' % how.decode().lower()
                res.violation(key, 'saved images differ at byte %d; first differing line (number, tokens) before %r after %r' % (
                    i, bad[0][0][2:] if bad else None, bad[0][1][2:] if bad else None), case)
                return False
            res.count('basic_programs_roundtripped')
            res.count('basic_via_' + how.decode().lower())
            return True
    except harness.Internal as e:
        res.violation(e.key, str(e), case)
        return False


def run_lines_basic(spec, res):
    rng = random.Random('%s:C17:%s:%s' % (spec['seed'], spec['kind'], spec.get('part', 0)))
    done = 0
    pi = 0
    while done < spec['n']:
        dialect = DIALECTS[pi % 3]
        pi += 1
        k = rng.randint(10, 40)
        nums = sorted(rng.sample(range(0, 65530), k))
        lines = []
        for n in nums:
            S = gl.gen_line(rng, dialect, maxlen=200)
            observe_line_features(res, S)
            lines.append((n, gl.recase(rng, S)))
            res.case((lines[-1][1], dialect))
        res.count('lines_basic', k)
        done += k
        basic_roundtrip(res, dialect, lines, rng)
        if pi == 1:
            res.sample({'dialect': dialect, 'program': [b'%d %s' % l for l in lines[:4]]})


# ----------------------------------------------------------------------------------------------
# directed core

DIRECTED = [
    ('spacing-keyword-name', b'PRINT A:IF A THEN B=1 ELSE C=2'),
    ('else-after-number', b'IF A=1 THEN 100 ELSE 200'),
    ('else-after-string', b'IF A THEN PRINT "x" ELSE PRINT "y"'),
    ('apostrophe-comment', b"A=1 ' comment with \"quote and : colon"),
    ('apostrophe-after-colon', b"A=1:'x"),
    ('rem-with-apostrophe', b"A=1:REM'x"),
    ('apostrophe-first', b"' only a comment"),
    ('while-plus', b'WHILE A<10:A=A+1:WEND'),
    ('fn-usr', b'DEF FNA(X)=X+USR0(1)+USR(2):Y=FNA(3)'),
    ('spc-tab', b'PRINT TAB(5);"x";SPC(3);1'),
    ('data-verbatim', b'DATA 1, abc ,"x:y",&H10,1E5:PRINT 1E5'),
    ('option-base', b'OPTION BASE 1'),
    ('go-to', b'GOTO 10:GOSUB 20'),
    ('on-goto-list', b'ON X GOTO 10,20,30:ON Y GOSUB 65529,0'),
    ('erl', b'IF ERL=100 THEN RESUME 200 ELSE RESUME NEXT'),
    ('file-numbers', b'OPEN "F" FOR OUTPUT AS #1:PRINT #1,A;B:CLOSE #1'),
    ('field-as', b'FIELD #1,2 AS A$,4 AS B$'),
    ('number-classes', b'X=0+10+11+255+256+32767+32768+&HFFFF+&O17+1.5+1.5#+1E+10+1D+10+.5+100000+12345678'),
    ('negative', b'X=-1:Y=-1.5:Z=1-2'),
    ('keyword-in-name', b'TOTAL=FORM+ONE+ANDY+IFX:NOTE=ORB'),
    ('defint-range', b'DEFINT A-Z:DEFSTR S'),
    ('line-draw', b'LINE (1,2)-(3,4),1,BF:LINE -(5,6)'),
    ('put-xor', b'PUT (1,2),A,XOR'),
    ('print-using', b'PRINT USING "##.##";X;Y'),
    ('string-with-high-bytes', b'A$="\x80\x9b\xff\xe9":REM \x81\xfe'),
    ('chain-delete', b'CHAIN MERGE "X",100,ALL,DELETE 10-20'),
    ('line-65529', b'GOTO 65529'),
]

# the ? shorthand of PRINT: the text is not canonical (it lists as PRINT), but the tokenised line is built from a well-formed statement
DIRECTED_QMARK = [
    ('question-mark-print', b'? 5'),
    ('question-mark-print-after-then-keeps-line-number-mode', b'IF A THEN ? 5'),
    ('question-mark-print-after-else-keeps-line-number-mode', b'IF A THEN 10 ELSE ? 5'),
]


def run_directed(spec, res):
    from .. import harness
    rng = random.Random('C17:directed')
    for dialect in DIALECTS:
        with harness.Box(syntax=dialect) as box:
            api = Api(box)
            for name, text in DIRECTED + DIRECTED_QMARK:
                for num in (0, 10, 65529):
                    line = b'%d %s' % (num, text)
                    res.case((line, dialect))
                    roundtrip(api, res, line, 'directed', dialect, name=name)
                    res.count('directed_lines')
            # token-built lines: every integer-constant token as the reference tokeniser writes it must list as text that re-enters as
            # the identical line (10 is 0F 0A); the never-written spelling 1B must list as 10 and keep value and type (an integer constant)
            hdr = b'\x00\xc0\xde\x0a\x00'
            built = [(bytes([0x11 + v]), v) for v in range(10)] + [(b'\x0f' + bytes([v]), v) for v in (10, 11, 100, 255)] + \
                    [(b'\x1c' + _le16(v), v) for v in (256, 1000, 32767)]
            for tok, v in built:
                for pre, post in ((b'X\xe7', b''), (b'\x91 ', b';\x91 A'), (b'\x82 I\xe7\x12 \xcc ', b' \xcf ' + tok)):
                    t1 = hdr + pre + tok + post
                    res.case((t1, dialect))
                    res.count('directed_token_built_lines')
                    try:
                        n, text = api.list(t1)
                        t2 = api.tokenise(text)
                    except harness.Internal as e:
                        res.violation(e.key, str(e), {'tokens': t1, 'dialect': dialect})
                        continue
                    if b'%d' % v not in text:
                        res.violation('roundtrip:token-built:integer-constant-lists-with-other-value', 'tokens %r list as %r' % (t1, text), {'tokens': t1, 'dialect': dialect})
                    elif t2 != t1:
                        res.violation('roundtrip:token-built:integer-constant-%d-re-enters-as-other-token' % (v if v <= 10 else 11),
                                      'tokens %r list as %r, which tokenises to %r' % (t1, text, t2), {'tokens': t1, 'dialect': dialect})
            t1 = hdr + b'X\xe7\x1b:\x91 \x1b'
            res.case((t1, dialect))
            try:
                n, text = api.list(t1)
                t2 = api.tokenise(text)
                if text != b'10 X=10:PRINT 10' or t2 not in (t1, hdr + b'X\xe7\x0f\x0a:\x91 \x0f\x0a'):
                    res.violation('roundtrip:token-built:constant-token-1B-does-not-keep-value-and-type',
                                  'tokens %r list as %r, which tokenises to %r' % (t1, text, t2), {'tokens': t1, 'dialect': dialect})
            except harness.Internal as e:
                res.violation(e.key, str(e), {'tokens': t1, 'dialect': dialect})
        lines = [(10 * (i + 1), t) for i, (name, t) in enumerate(DIRECTED)]
        basic_roundtrip(res, dialect, lines, rng)
        for name, t in DIRECTED_QMARK:
            basic_roundtrip(res, dialect, [(10, t)], rng, label='roundtrip:directed:' + name)


def run_shard(spec, res):
    kind = spec['kind']
    if kind == 'keywords':
        return run_keywords(spec, res)
    if kind == 'directed':
        return run_directed(spec, res)
    if kind == 'literals':
        return run_literals(spec, res)
    if kind == 'lines_api':
        return run_lines_api(spec, res)
    if kind == 'lines_basic':
        return run_lines_basic(spec, res)
    raise ValueError(kind)
