"""
C27 BASIC file access stays inside the mounted drives.

Oracle (M-FS, vf/fsmon.py): a real session with two native mounts (C: = S/a/b/root,
D: = S/a/b/other) and sentinel files and directories beside and above the mount roots
(S, S/a, S/a/b, S/a/b/sibling ...). Every file statement of the property's list is executed
inside an audit-hook window; refuting events are

 (a) an audited open / listdir / scandir / mkdir / rmdir / remove / rename / truncate on a real path
     that lies outside every mount root (and outside the interpreter installation) and that TOOK
     EFFECT (an existing file was opened, an existing directory listed, something created, removed
     or renamed - judged from the state just before the operation and just after the statement);
 (b) the snapshot (names, sizes, sha1) of everything in S outside the two mounts - and of the sixteen
     padding directories TOP/p0/../p15 above S - differs from the snapshot taken when the sandbox was built;
 (c) after the shard, an entry with one of the workload's names has appeared in /, the temp directory,
     the home directory or /verif (a broken confinement can climb above the sandbox or resolve a path
     against the process cwd); such entries are removed again.

Existence probing (stat) and failed attempts (open of a directory -> EISDIR, mkdir of an existing
directory, rmdir of a non-empty one) read, list, create, modify, rename and delete nothing; they are
counted ('outside_attempts_without_effect') and are not violations.
"""
import os
import random
import re
import shutil
import struct
import tempfile

from .. import fsmon

META = {
    'property_id': 'C27',
    'technique': 'file-system sanitizer: audit-hook event log per file statement + frame snapshot of the sentinel tree',
    'level': 'exploration',
    'level_text': (
        'Runtime monitor: every open/listdir/scandir/mkdir/rmdir/remove/rename/truncate the interpreter performs '
        'during a file statement is seen through CPython audit events (cannot be bypassed by early binding) with '
        'its real path; an effective operation outside the mounted trees, or any change of the sentinel tree around '
        'the mounts, refutes the property. Workload: every statement of the list x hostile path strings x CHDIR '
        'histories x mount variants (initial cwd, current drive); a seed-independent directed table plus seeded '
        'random path strings. The same monitor also runs under the double-byte codepages 932/936/949/950 and the '
        'single-byte ones 437/850/866/874/1258/737, with path elements built from the byte sequences of that '
        'codepage whose characters fold (NFKC) or look like . .. ... / \\ : * ? blank (fullwidth forms, two-dot '
        'leader, ellipsis, middle dots, yen/won sign), fullwidth spellings of the sentinel names and double-byte '
        'characters whose trail byte is a backslash (feature key codepage-lookalike). The sandbox hangs sixteen watched padding directories below the temp directory, the '
        'process cwd is an unmounted directory inside it, and after each shard the host root, temp, home and /verif '
        'directories are swept for entries carrying a workload name (third channel: escape:stray-entry-above-sandbox).'),
    'level_note': (
        'Trusted: CPython audit events, os.lstat, the harness. Not observed: stat-class existence probes (not one of '
        'the property\'s verbs). Symbolic links are not part of the statement and none are planted. A path that '
        'leaves one mount through \'..\' and enters the other mount is inside a mounted tree and is not flagged. '
        'Failed attempts on outside paths (EISDIR/EEXIST/ENOTEMPTY/ENOENT) are counted, not flagged: nothing was read, '
        'listed, created, modified, renamed or deleted. Whether a statement succeeds or which error it gives is not '
        'pinned by C27 and is not checked (only escaping host exceptions are reported, under their internal: key).'),
    'rule': ('case = (mount variant, CHDIR history, statement kind, path argument(s)); distinct by that tuple; '
             'non-trivial = the statement was executed in a live session inside an audit window and the sentinel '
             'snapshot was compared afterwards'),
    'design_ref': 'DESIGN.md section 4 C27, section 3 M-FS',
    'assumptions': ['CPython raises audit events for every host file-system call the interpreter can make',
                    'the sandbox lives on a POSIX file system (case-sensitive, \'/\' separator)'],
    'require_counters': {'any': ['fs_events_inside_mounts', 'stmts_ok', 'frame_snapshots_compared',
                                 'stmts_with_dotdot', 'stmts_with_codepage_lookalike', 'stmts_under_codepage_932',
                                 'stmts_under_codepage_936', 'stmts_under_codepage_949', 'stmts_under_codepage_950']},
    'timeout': {'quick': 900, 'thorough': 7200},
}

PAD_LEVELS = 16
PROG_IN = b'10 REM inside\r\n20 A=1\r\n30 END\r\n\x1a'
PROG_OUT = b'10 PRINT "ESCAPED"\r\n20 END\r\n\x1a'
# the same program tokenised (SAVE) and protected (SAVE ,P)
PROG_BIN = b'\xff{\x12\n\x00\x8f inside\x00\x83\x12\x14\x00A\xe7\x12\x00\x89\x12\x1e\x00\x81\x00\x00\x00\x1a'
PROG_PROT = (b'\xfe\xe4\xa9\xbfT\xdc\x12\xc6\x83\x16p\x05\x95\x82$\xfd\xa9\xb2\xb2,\x14\x13\xdd\x9e)\xd6u\x83'
             b'\xed\x9d\x1a')
BIN = b'\xfd' + struct.pack('<HHH', 0xb800, 0, 4) + b'v\x07f\x07' + b'\x1a'

# kind -> (statement text using P$ and Q$, number of path arguments, needs a program in memory,
#          loads/runs a program)
KINDS = {
    'open_i': (b'OPEN P$ FOR INPUT AS 1:LINE INPUT#1,A$', 1, 0, 0),
    'open_o': (b'OPEN P$ FOR OUTPUT AS 1:PRINT#1,"vf"', 1, 0, 0),
    'open_a': (b'OPEN P$ FOR APPEND AS 1:PRINT#1,"vf"', 1, 0, 0),
    'open_r': (b'OPEN P$ FOR RANDOM AS 1 LEN=8:PUT#1,1', 1, 0, 0),
    'open_default': (b'OPEN P$ AS 1:PUT#1,2', 1, 0, 0),
    'open_old_i': (b'OPEN "I",1,P$', 1, 0, 0),
    'open_old_o': (b'OPEN "O",1,P$', 1, 0, 0),
    'open_old_a': (b'OPEN "A",1,P$', 1, 0, 0),
    'open_old_r': (b'OPEN "R",1,P$,8', 1, 0, 0),
    'open_shared': (b'OPEN P$ FOR INPUT ACCESS READ SHARED AS 1', 1, 0, 0),
    'open_lock': (b'OPEN P$ FOR RANDOM ACCESS READ WRITE LOCK READ WRITE AS 1', 1, 0, 0),
    'load': (b'LOAD P$', 1, 0, 1),
    'load_r': (b'LOAD P$,R', 1, 0, 1),
    'save': (b'SAVE P$', 1, 1, 0),
    'save_a': (b'SAVE P$,A', 1, 1, 0),
    'save_p': (b'SAVE P$,P', 1, 1, 1),
    'merge': (b'MERGE P$', 1, 1, 1),
    'chain': (b'CHAIN P$', 1, 1, 1),
    'chain_merge': (b'CHAIN MERGE P$,10', 1, 1, 1),
    'run': (b'RUN P$', 1, 0, 1),
    'run_r': (b'RUN P$,R', 1, 0, 1),
    'bload': (b'DEF SEG=&HB800:BLOAD P$,0', 1, 0, 0),
    'bload_plain': (b'BLOAD P$', 1, 0, 0),
    'bsave': (b'DEF SEG=&HB800:BSAVE P$,0,16', 1, 0, 0),
    'kill': (b'KILL P$', 1, 0, 0),
    'name': (b'NAME P$ AS Q$', 2, 0, 0),
    'files': (b'FILES P$', 1, 0, 0),
    'files_noarg': (b'FILES', 0, 0, 0),
    'mkdir': (b'MKDIR P$', 1, 0, 0),
    'rmdir': (b'RMDIR P$', 1, 0, 0),
    'chdir': (b'CHDIR P$', 1, 0, 0),
}
KIND_NAMES = sorted(KINDS)

MOUNT_VARIANTS = [
    {'cur': 'C:', 'ccwd': '', 'dcwd': ''},
    {'cur': 'C:', 'ccwd': 'SUB1', 'dcwd': ''},
    {'cur': 'C:', 'ccwd': 'SUB1/SUBSUB', 'dcwd': 'OSUB'},
    {'cur': 'D:', 'ccwd': '', 'dcwd': ''},
    {'cur': 'D:', 'ccwd': 'SUB1', 'dcwd': 'OSUB'},
]


# ---------------------------------------------------------------------------------------
# sandbox

def _w(path, data):
    with open(path, 'wb') as f:
        f.write(data)


_PAD = None


def pad_chain():
    """(TOP, TOP/p0/../p15), created on first use; removed by drop_pad_chain()."""
    global _PAD
    if _PAD is None:
        top = fsmon.norm(tempfile.mkdtemp(prefix='vfc27_'))
        pad = os.path.join(top, *['p%d' % i for i in range(PAD_LEVELS)])
        os.makedirs(pad)
        _PAD = (top, pad)
    return _PAD


def drop_pad_chain():
    global _PAD
    if _PAD is not None:
        try:
            os.chdir(os.path.dirname(os.path.dirname(os.path.dirname(os.path.abspath(__file__)))))
        except OSError:
            pass
        shutil.rmtree(_PAD[0], ignore_errors=True)
        _PAD = None


class Sandbox(object):
    """S/a/b/root (C:), S/a/b/other (D:), sentinels around them; a live session; the monitor."""

    serial = 0

    def __init__(self, res, variant):
        from .. import harness
        self.harness = harness
        self.res = res
        self.variant = variant
        self.mon = fsmon.get_monitor()
        # TOP/p0/.../p15/s<n>: sixteen watched padding levels above S (made once per shard), so that even
        # an interpreter whose confinement is broken (sensitivity runs) stays inside the watched,
        # disposable tree
        self.TOP, pad = pad_chain()
        Sandbox.serial += 1
        self.S = os.path.join(pad, 's%d' % Sandbox.serial)
        self.cache = {}
        self.box = None
        self.oldcwd = os.getcwd()
        try:
            self._build()
        except BaseException:
            self.close()
            raise

    def _build(self):
        S = self.S
        j = os.path.join
        ab = j(S, 'a', 'b')
        self.root, self.other = j(ab, 'root'), j(ab, 'other')
        for d in (j(S, 'SDIR0'), j(S, 'a', 'SDIR1'), j(ab, 'SDIR2'), j(ab, 'EMPTYD'), j(ab, 'sibling', 'SUBSIB'),
                  j(self.root, 'SUB1', 'SUBSUB'), j(self.root, 'SUB2'), j(self.other, 'OSUB'), j(S, 'cwd')):
            os.makedirs(d)
        # sentinels: beside and above the mount roots
        _w(j(S, 'SENT0.TXT'), b'sentinel 0\r\n')
        _w(j(S, 'sent0low.txt'), b'sentinel 0 lower\r\n')
        _w(j(S, 'Long Sentinel Name.text'), b'long sentinel\r\n')
        _w(j(S, 'SDIR0', 'INNER0.TXT'), b'inner 0\r\n')
        _w(j(S, 'a', 'SENT1.TXT'), b'sentinel 1\r\n')
        _w(j(S, 'a', 'SENT1.BAS'), PROG_OUT)
        _w(j(S, 'a', 'SDIR1', 'INNER1.TXT'), b'inner 1\r\n')
        _w(j(ab, 'SENT2.TXT'), b'sentinel 2\r\n')
        _w(j(ab, 'SENT2.BAS'), PROG_OUT)
        _w(j(ab, 'SENT2.BIN'), BIN)
        _w(j(ab, 'SENT2'), b'sentinel 2 no extension\r\n')
        _w(j(ab, 'caf\u00e9.txt'), b'non-ascii sentinel\r\n')
        _w(j(ab, 'SDIR2', 'INNER2.TXT'), b'inner 2\r\n')
        _w(j(ab, 'sibling', 'SENT3.TXT'), b'sentinel 3\r\n')
        _w(j(ab, 'sibling', 'SENT3.BAS'), PROG_OUT)
        _w(j(ab, 'sibling', 'SUBSIB', 'INNER3.TXT'), b'inner 3\r\n')
        # inside C:
        _w(j(self.root, 'IN1.TXT'), b'inside 1\r\n')
        _w(j(self.root, 'PROG.BAS'), PROG_IN)
        _w(j(self.root, 'BIN.M'), BIN)
        _w(j(self.root, 'BINPROG.BAS'), PROG_BIN)
        _w(j(self.root, 'PROTPROG.BAS'), PROG_PROT)
        _w(j(self.root, 'lower.txt'), b'inside lower\r\n')
        _w(j(self.root, 'Long Inside Name.text'), b'inside long\r\n')
        _w(j(self.root, 'SUB1', 'F1.TXT'), b'f1\r\n')
        _w(j(self.root, 'SUB1', 'PROG2.BAS'), PROG_IN)
        _w(j(self.root, 'SUB1', 'SUBSUB', 'F2.TXT'), b'f2\r\n')
        # inside D:
        _w(j(self.other, 'OTH.TXT'), b'other\r\n')
        _w(j(self.other, 'OSUB', 'O1.TXT'), b'o1\r\n')
        self.roots = [fsmon.norm(self.root), fsmon.norm(self.other)]
        # the process cwd is a non-mounted directory INSIDE the sandbox, so that an access through
        # a relative host path lands in the watched tree instead of the (allow-listed) /verif
        os.chdir(j(S, 'cwd'))
        v = self.variant
        mounts = {
            'C': self.root + (':' + v['ccwd'].replace('/', os.sep) if v['ccwd'] else ''),
            'D': self.other + (':' + v['dcwd'].replace('/', os.sep) if v['dcwd'] else ''),
            'Z': None,
        }
        kw = {}
        self.cpinfo = cp_info(v.get('cp'))
        if v.get('cp'):
            kw['codepage'] = self.cpinfo['cp']
        self.box = self.harness.Box(root=S, mounts=mounts, current_device=v['cur'], budget=400, wait_budget=60, **kw)
        self.rootrel = set(os.path.relpath(r, self.TOP) for r in self.roots)
        self.allow = fsmon.default_allow()
        self.baseline = self._snap()
        self.history = []

    def _snap(self):
        snap = fsmon.snapshot(self.TOP, exclude=self.roots, cache=self.cache)
        for r in self.rootrel:      # the mount roots themselves count as inside
            snap.pop(r, None)
        return snap

    def close(self):
        try:
            if self.box is not None:
                self.box.close()
        finally:
            try:
                os.chdir(self.oldcwd)
            finally:
                shutil.rmtree(self.S, ignore_errors=True)

    def __enter__(self):
        return self

    def __exit__(self, *a):
        self.close()
        return False

    # -- one monitored statement ---------------------------------------------------------
    def stmt(self, kind, args, directed=False):
        """
        Execute one file statement in an audit window and judge it.
        Returns (still_usable, err_code): still_usable is False when the sandbox must be rebuilt.
        """
        harness, res, box = self.harness, self.res, self.box
        text, nargs, needs_prog, loads = KINDS[kind]
        args = list(args)[:nargs]
        case = {'variant': self.variant, 'history': list(self.history), 'kind': kind, 'args': args}
        usable = True
        code = None
        try:
            if needs_prog:
                box.ex(b'NEW')
                box.ex(b'10 REM vf')
                box.ex(b'20 A=2')
            for nm, a in zip(('P$', 'Q$'), args):
                box.set(nm, a)
        except harness.Internal as e:
            res.violation(e.key, str(e), case)
            return False, None
        out = b''
        internal = None
        with self.mon.window() as evs:
            try:
                out = box.ex(text, 400)
            except harness.Internal as e:
                internal = e
            try:
                box.ex(b'CLOSE')
            except harness.Internal as e:
                internal = internal or e
            events = list(evs)
        if loads:
            try:
                box.ex(b'NEW')
            except harness.Internal as e:
                internal = internal or e
        if kind == 'chdir':
            self.history.append(args[0])
        feature = path_feature(list(self.history) + args, self.cpinfo['bytes'])
        if self.variant.get('cp'):
            res.count('stmts_under_codepage_' + self.variant['cp'])
        if any(lk in a for a in args for lk in self.cpinfo['bytes']):
            res.count('stmts_with_codepage_lookalike')
        res.case(('stmt', repr(sorted(self.variant.items())), tuple(case['history']), kind, tuple(args)))
        res.count('stmts_total')
        if any(b'..' in a for a in args):
            res.count('stmts_with_dotdot')
        if internal is not None:
            res.count('stmts_internal_error')
            res.violation(internal.key, '%s with %r (history %r): %s' % (kind, args, self.history, internal), case)
            usable = False
        else:
            code, _ = harness.err_of(out)
            if code == 0:
                res.count('stmts_ok')
                res.count('ok_' + kind.split('_')[0])
            else:
                res.count('stmts_basic_error')
                res.count('basic_err_%d' % code)
            if b'ESCAPED' in out:
                res.count('outside_program_output_seen')
        # ---- (a) audit events --------------------------------------------------------------
        inside = 0
        outside_effect = []
        for ev in events:
            if ev.verb == 'exec':
                res.count('exec_events')
                continue
            for i, p in enumerate(ev.paths):
                cls = fsmon.classify(p, self.roots, self.allow)
                if cls == 'inside':
                    inside += 1
                    res.count('fs_events_inside_mounts')
                elif cls == 'allowed':
                    res.count('fs_events_installation')
                elif cls == 'nonpath':
                    res.count('fs_events_nonpath')
                else:
                    if ev.verb == 'chdir':
                        res.count('host_chdir_outside')
                    elif fsmon.effect(ev, i):
                        outside_effect.append((ev, i))
                    else:
                        res.count('outside_attempts_without_effect')
        seen = set()
        for ev, i in outside_effect:
            res.count('fs_events_outside_with_effect')
            verb = {'open-read': 'read', 'open-write': 'write'}.get(ev.verb, ev.verb)
            key = 'escape:%s-outside-mount:%s' % (verb, feature)
            if key in seen:
                continue
            seen.add(key)
            rel = os.path.relpath(ev.paths[i], self.S)
            res.violation(
                key,
                '%s with %r (codepage %s, CHDIR history %r, mounts C:=S/a/b/root D:=S/a/b/other, current %s) performed %s on '
                'host path %s [was %s] outside every mount; output %r' % (
                    text.decode('latin-1'), args, self.variant.get('cp') or '437', self.history, self.variant['cur'], ev.event,
                    ('S/' + rel) if not rel.startswith('..') else ev.paths[i], ev.pre[i], out[:120]),
                case)
        # ---- (b) frame snapshot -----------------------------------------------------------
        snap = self._snap()
        res.count('frame_snapshots_compared')
        diff = fsmon.diff_snapshots(self.baseline, snap)
        pad = os.path.relpath(self.S, self.TOP) + os.sep
        diff = [((k[len(pad):] if k.startswith(pad) else '<above S>/' + k), a, b) for k, a, b in diff]
        if diff:
            res.count('frame_changes_seen')
            res.violation(
                'frame:outside-tree-changed:%s' % feature,
                '%s with %r (CHDIR history %r) changed the sentinel tree outside the mounts: %r' % (
                    text.decode('latin-1'), args, self.history, diff[:4]),
                case)
            usable = False
        if outside_effect:
            usable = usable and True
        # ---- behavioural evidence ------------------------------------------------------------
        if code == 0 and inside and not outside_effect and not diff:
            lead = [leading_dotdots(a) for a in args]
            if any(lead) and not self.history and self.variant['cur'] == 'C:' and not self.variant['ccwd']:
                # at the drive root a leading '..' can only have been clamped
                res.count('dotdot_clamps_observed')
        return usable, code


_WS = b' \t\r\n\x0b\x0c'


def leading_dotdots(p):
    """Number of leading plain '..' elements after an optional C: / D: prefix (0 if none)."""
    if len(p) > 1 and p[1:2] == b':':
        p = p[2:]
    n = 0
    for e in p.lstrip(b'\\').split(b'\\'):
        if e == b'..':
            n += 1
        else:
            break
    return n


def path_feature(paths, lookalikes=()):
    """Mechanism class of the path strings involved (first that applies), for the violation key."""
    blob = b'\x01'.join(paths)
    if any(lk in blob for lk in lookalikes):
        return 'codepage-lookalike'
    if re.search(rb'\.\.[ \t\r\n\x0b\x0c]+(\\|/|\x01|$)', blob):
        return 'dotdot-trailing-whitespace'
    if b'..' in blob:
        return 'dotdot'
    if b'\x00' in blob:
        return 'nul'
    if b'/' in blob:
        return 'slash'
    if any(p.startswith(b'\\') or p[1:3] == b':\\' for p in paths):
        return 'absolute'
    if any(b':' in p for p in paths):
        return 'drive'
    if any(c in blob for c in (b'*', b'?')):
        return 'wildcard'
    return 'plain'


# ---------------------------------------------------------------------------------------
# codepages: the byte sequences of a codepage whose characters look like (or fold to) . .. ... / \\ : * ? blank

CODEPAGES_DBCS = ['932', '936', '949', '950']
CODEPAGES_SBCS = ['437', '850', '866', '874', '1258', '737']
# characters that merely LOOK like path syntax (no compatibility decomposition says so)
VISUAL = {u'\u00b7': '.', u'\u2219': '.', u'\u30fb': '.', u'\uff65': '.', u'\u3002': '.', u'\uff61': '.', u'\u2022': '.',
          u'\u02d9': '.', u'\u00a5': '\\', u'\u20a9': '\\', u'\u2216': '\\', u'\u2215': '/', u'\u2044': '/', u'\u2571': '/',
          u'\u2572': '\\', u'\u2236': ':', u'\u02d0': ':', u'\u205a': ':', u'\u2217': '*', u'\u00d7': '*', u'\u00bf': '?',
          u'\u00a8': '..', u'\u2500': '-'}
_CP = {}


def cp_info(name):
    """
    {'cp': codepage dict or None, 'look': {ascii form: [byte sequences]}, 'fw': {ascii byte: bytes of its
    fullwidth form}, 'trail5c': [double-byte characters whose trail byte is a backslash], 'bytes': all of the
    look-alike sequences}; name None = the default codepage 437 (session created without a codepage argument).
    """
    key = name or '437'
    if key in _CP:
        return _CP[key]
    import unicodedata
    from pcbasic.data import read_codepage
    cp = read_codepage(key)
    look, fw, trail = {}, {}, []
    syntax = set(u'./\\:*? ')
    for kb, u in cp.items():
        if not isinstance(kb, bytes) or not u:
            continue
        if len(kb) == 2 and kb[1:] == b'\\' and len(trail) < 12:
            trail.append(kb)
        if len(kb) == 1 and kb[0] < 128:
            continue
        folded = unicodedata.normalize('NFKC', u)
        if u in VISUAL and VISUAL[u] in ('.', '..', '/', '\\', ':', '*', '?'):
            look.setdefault(VISUAL[u], []).append(kb)
        elif folded != u and folded and set(folded) <= syntax:
            look.setdefault(folded, []).append(kb)
        elif folded != u and len(folded) == 1 and 33 <= ord(folded) < 127:
            fw.setdefault(ord(folded), kb)
    # compatibility (NFKC-folding) forms first, merely visual ones after; double-byte before single-byte
    for form, seqs in look.items():
        seqs.sort(key=lambda kb: (cp[kb] in VISUAL, -len(kb), kb))
    allb = sorted(set(b for v in look.values() for b in v))
    _CP[key] = {'cp': cp if name else None, 'look': look, 'fw': fw, 'trail5c': trail, 'bytes': allb, 'name': key}
    return _CP[key]


def cp_dotdots(info):
    """Elements that look like '..' in this codepage (as byte strings)."""
    look = info['look']
    out = list(look.get('..', [])[:3])
    for d in look.get('.', [])[:3]:
        out += [d + d, d + b'.']
    out += look.get('...', [])[:1]
    for sp in look.get(' ', [])[:1]:
        out.append(b'..' + sp)
    for d in look.get('..', [])[:1]:
        out.append(d + b' ')
    return out


def cp_fullwidth(info, name):
    """The name spelled with the codepage's fullwidth forms where it has them."""
    look, fw = info['look'], info['fw']
    out = b''
    for c in bytearray(name):
        if c == 46 and look.get('.'):
            out += look['.'][0]
        else:
            out += fw.get(c, bytes([c]))
    return out


def gen_cp_path(rng, info):
    """A hostile path built from the codepage's own look-alikes."""
    look = info['look']
    dds = cp_dotdots(info) or [b'..']
    seps = [b'\\'] * 6 + look.get('/', []) + look.get('\\', []) + [b'/']
    r = rng.random()
    p = rng.choice([b'', b'', b'', b'C:', b'D:', b'C:\\', b'\\'] + [b'C' + c for c in look.get(':', [])] +
                   [cp_fullwidth(info, b'C') + b':'])
    for k in range(rng.choice([1, 1, 2, 2, 3, 4, 5])):
        if k:
            p += rng.choice(seps)
        r = rng.random()
        if r < 0.45:
            p += rng.choice(dds)
        elif r < 0.55:
            p += rng.choice([b'..', b'..', b'.. ', b'.'])
        elif r < 0.70:
            sl = rng.choice(look.get('/', []) + look.get('\\', []) + [b'/'])
            p += rng.choice([b'SUB1', b'SUB2', b'OSUB']) + (sl + rng.choice(dds + [b'..'])) * rng.choice([1, 2, 2, 3])
        elif r < 0.90:
            nm = rng.choice(SENT_NAMES + IN_NAMES + WILD[:3])
            p += cp_fullwidth(info, nm) if rng.random() < 0.25 else nm
        elif info['trail5c']:
            p += rng.choice(info['trail5c']) + rng.choice([b'', b'..', b'SENT2.TXT'])
        else:
            p += bytes(rng.randrange(128, 256) for _ in range(rng.randint(1, 4)))
    return p[:255]


CP_KINDS = ['open_i', 'open_a', 'open_o', 'open_r', 'load', 'save', 'merge', 'chain', 'run', 'bload', 'bsave', 'kill', 'files',
            'mkdir', 'rmdir', 'chdir']
CP_AFTER = [('files_noarg', []), ('open_i', [b'SENT2.TXT']), ('open_a', [b'SENT2.TXT']), ('open_o', [b'NEWOUT.TXT']),
            ('load', [b'SENT2']), ('save', [b'NEWOUT']), ('kill', [b'SENT2.TXT']), ('name', [b'SENT2.TXT', b'STOLEN.TXT']),
            ('mkdir', [b'NEWOUTD']), ('rmdir', [b'EMPTYD']), ('open_i', [b'IN1.TXT'])]


def directed_cp_cases(cpname):
    """[(variant, history, kind, args)] for one codepage: every look-alike of '..' and of the separators."""
    info = cp_info(None if cpname == '437' else cpname)
    look = info['look']
    variant = dict(MOUNT_VARIANTS[0], cp=(None if cpname == '437' else cpname))
    dds = cp_dotdots(info)
    sls = look.get('/', []) + look.get('\\', [])
    prefixes = []
    sls = sls[:3]
    for dd in dds:
        prefixes += [dd + b'\\', b'C:' + dd + b'\\', b'SUB1\\..\\' + dd + b'\\']
        for sl in sls[:1]:
            prefixes.append(dd + sl)
    for sl in sls:
        prefixes += [b'SUB1' + sl + b'..' + sl + b'..\\', b'SUB1' + sl + b'..' + sl + b'..' + sl, b'..' + sl + b'..' + sl,
                     b'SUB1\\SUBSUB' + sl + b'..' + sl + b'..' + sl + b'..\\']
        for dd in dds[:1]:
            prefixes.append(b'SUB1' + sl + dd + sl + dd + b'\\')
    for c in look.get(':', [])[:2]:
        prefixes += [b'C' + c + b'..\\', b'C' + c + b'\\..\\']
    for t in info['trail5c'][:3]:
        prefixes += [t + b'..\\', b'..' + t[:1] + b'\\..\\']
    cases = []
    for pre in prefixes:
        for k in CP_KINDS:
            cases.append((variant, [], k, [pre + KIND_TARGETS[k][0]]))
        cases.append((variant, [], 'name', [pre + b'SENT2.TXT', b'NEW9.TXT']))
        cases.append((variant, [], 'name', [b'IN1.TXT', pre + b'STOLEN.TXT']))
    # the look-alike as CHDIR target, then plain names
    hists = [[dd] for dd in dds[:6]] + [[b'SUB1' + sl + b'..' + sl + b'..'] for sl in sls[:2]]
    for h in hists:
        for k, a in CP_AFTER:
            cases.append((variant, h, k, a))
    # sentinels spelled in fullwidth forms behind a real (clamped) '..'
    for nm in (b'SENT2.TXT', b'SENT2.BAS', b'EMPTYD'):
        f = cp_fullwidth(info, nm)
        if f != nm:
            for k in ('open_i', 'kill', 'files', 'rmdir', 'load'):
                cases.append((variant, [], k, [b'..\\' + f]))
    return cases


# ---------------------------------------------------------------------------------------
# path strings

SENT_NAMES = [b'SENT0.TXT', b'SENT1.TXT', b'SENT1.BAS', b'SENT2.TXT', b'SENT2.BAS', b'SENT2.BIN', b'SENT2',
              b'SENT3.TXT', b'SENT3.BAS', b'SIBLING', b'SUBSIB', b'SDIR0', b'SDIR1', b'SDIR2', b'EMPTYD',
              b'INNER2.TXT', b'INNER3.TXT', b'A', b'B', b'ROOT', b'OTHER', b'CWD', b'sent0low.txt',
              b'Long Sentinel Name.text', b'caf\x82.txt']
IN_NAMES = [b'SUB1', b'SUBSUB', b'SUB2', b'IN1.TXT', b'PROG.BAS', b'PROG', b'PROG2', b'BIN.M', b'LOWER.TXT', b'BINPROG',
            b'BINPROG.BAS', b'PROTPROG',
            b'lower.txt', b'OSUB', b'OTH.TXT', b'O1.TXT', b'F1.TXT', b'F2.TXT', b'NEW.TXT', b'NEWDIR', b'NEW',
            b'Long Inside Name.text']
DOT_SEGS = [b'..', b'..', b'..', b'..', b'.. ', b'.. ', b'..  ', b'..\t', b'..\r', b'..\n', b'..\x0b', b'..\x0c',
            b' ..', b'. .', b'...', b'....', b'.', b'. ', b'..\xff', b'..\x00', b'.. .', b'..\x1a']
WILD = [b'*.*', b'*', b'?', b'*.TXT', b'SENT?.*', b'????????.???', b'*.', b'.*', b'S*.*']
ODD = [b'LongFileNameWithManyCharacters.extension', b'caf\x82.txt', b'\x00', b'A\x00B', b'', b' ', b'  ',
       b'x' * 70, b'CON', b'NUL', b'AUX', b'PRN', b'\xe9\xe8', b'a+b', b'a,b;c', b'.hidden', b'~', b'$$$']
DRIVES = [b''] * 10 + [b'C:'] * 5 + [b'D:'] * 3 + [b'c:', b'd:', b'A:', b'B:', b'E:', b'Z:', b'@:', b'AB:', b'CD:', b':',
                                                      b'CC:', b'1:', b'C:C:', b'C:D:', b'CAS1:', b'LPT1:', b'XYZ:',
                                                      b' C:', b'C :', b'\x00:']
LEADS = [b''] * 8 + [b'\\'] * 4 + [b'/', b'\\\\', b'..\\', b'.. \\', b'.\\', b'\\..\\']
SEPS = [b'\\'] * 12 + [b'/', b'\\\\', b'\\.\\', b'\\ ']


def gen_seg(rng):
    r = rng.random()
    if r < 0.34:
        s = rng.choice(DOT_SEGS)
    elif r < 0.60:
        s = rng.choice(SENT_NAMES)
    elif r < 0.80:
        s = rng.choice(IN_NAMES)
    elif r < 0.88:
        s = rng.choice(WILD)
    elif r < 0.96:
        s = rng.choice(ODD)
    else:
        s = bytes(rng.randrange(256) for _ in range(rng.randint(1, 12)))
    if rng.random() < 0.15:
        s = s.lower()
    return s


def gen_path(rng, S):
    r = rng.random()
    if r < 0.05:
        # host-absolute spellings of a sentinel
        target = rng.choice(['a/b/SENT2.TXT', 'a/SENT1.TXT', 'SENT0.TXT', 'a/b/sibling/SENT3.TXT', 'a/b', 'a/b/EMPTYD'])
        p = os.fsencode(os.path.join(S, target))
        form = rng.randrange(5)
        if form == 1:
            p = p.replace(b'/', b'\\')
        elif form == 2:
            p = b'C:' + p.replace(b'/', b'\\')
        elif form == 3:
            p = b'\\\\' + p.replace(b'/', b'\\').lstrip(b'\\')
        elif form == 4:
            p = b'..\\' * rng.choice([3, 5, 21, 22, 40]) + p.replace(b'/', b'\\').lstrip(b'\\')
        return p
    if r < 0.07:
        return rng.choice([b'/etc/passwd', b'\\etc\\passwd', b'C:\\etc\\passwd', b'..\\' * 16 + b'etc\\passwd',
                           b'/proc/self/environ', b'\\\\host\\share\\x', b'\\\\?\\C:\\x', b'C:\\..\\..', b'\\.. \\.. '])
    if r < 0.32:
        # well-formed: drive, a run of '..' (sometimes with trailing blanks), then a name that exists somewhere
        p = rng.choice([b'', b'', b'', b'C:', b'D:', b'C:\\', b'D:\\', b'\\', b'c:'])
        for _ in range(rng.choice([0, 1, 1, 2, 2, 3, 4])):
            p += (rng.choice(DOT_SEGS) if rng.random() < 0.25 else b'..') + b'\\'
        if rng.random() < 0.3:
            p += rng.choice([b'SUB1\\', b'SUB1\\SUBSUB\\', b'SUB2\\', b'OSUB\\', b'SIBLING\\', b'SDIR2\\', b'ROOT\\',
                             b'OTHER\\', b'A\\B\\', b'B\\'])
        p += rng.choice(IN_NAMES + SENT_NAMES + WILD[:4])
        return p
    n = rng.choice([1, 1, 1, 2, 2, 2, 3, 3, 4, 5, 6])
    p = rng.choice(DRIVES) + rng.choice(LEADS)
    for k in range(n):
        if k:
            p += rng.choice(SEPS)
        p += gen_seg(rng)
    if rng.random() < 0.05:
        p += rng.choice([b'\\', b'/', b' ', b'.'])
    return p[:255]


def gen_simple_target(rng):
    """A mostly harmless second name for NAME (inside), sometimes hostile."""
    return rng.choice([b'NEW.TXT', b'MOVED.TXT', b'SUB1\\MOVED.TXT', b'NEW2', b'D:MOVED.TXT', b'C:\\SUB2\\M.TXT'])


def gen_chdir(rng, S):
    r = rng.random()
    if r < 0.45:
        return rng.choice([b'SUB1', b'SUB1\\SUBSUB', b'\\SUB1', b'C:SUB1', b'C:\\SUB1\\SUBSUB', b'D:OSUB', b'SUB2',
                           b'\\', b'C:\\', b'D:\\', b'OSUB', b'.'])
    if r < 0.75:
        return rng.choice([b'..', b'..', b'..\\..', b'C:..', b'D:..', b'\\..', b'.. ', b'.. \\.. ', b'..\\SIBLING',
                           b'.. \\SIBLING', b'..\\..\\..', b'C:.. ', b'D:.. '])
    return gen_path(rng, S)


# ---------------------------------------------------------------------------------------
# directed core (seed-independent)

KIND_TARGETS = {
    'open_i': [b'SENT2.TXT'], 'open_shared': [b'SENT2.TXT'], 'open_old_i': [b'SENT2.TXT'],
    'open_o': [b'SENT2.TXT', b'NEWOUT.TXT'], 'open_old_o': [b'NEWOUT.TXT'],
    'open_a': [b'SENT2.TXT', b'NEWOUT.TXT'], 'open_old_a': [b'SENT2.TXT'],
    'open_r': [b'SENT2.TXT', b'NEWOUT.TXT'], 'open_old_r': [b'NEWOUT.TXT'], 'open_default': [b'SENT2.TXT'],
    'open_lock': [b'SENT2.TXT'],
    'load': [b'SENT2', b'SENT2.BAS'], 'load_r': [b'SENT2'], 'run': [b'SENT2', b'SENT2.BAS'], 'run_r': [b'SENT2'],
    'chain': [b'SENT2', b'SENT2.BAS'], 'chain_merge': [b'SENT2'], 'merge': [b'SENT2.BAS', b'SENT2'],
    'save': [b'NEWOUT', b'SENT2.BAS'], 'save_a': [b'NEWOUT'], 'save_p': [b'NEWOUT'],
    'bload': [b'SENT2.BIN'], 'bload_plain': [b'SENT2.BIN'], 'bsave': [b'NEWOUT.BIN', b'SENT2.BIN'],
    'kill': [b'SENT2.TXT', b'*.*'], 'files': [b'*.*', b'SENT2.TXT', b''],
    'mkdir': [b'NEWOUTD'], 'rmdir': [b'EMPTYD'], 'chdir': [b'SDIR2', b''],
}


def directed_prefixes(S):
    absb = os.fsencode(os.path.join(S, 'a', 'b'))
    bs = absb.replace(b'/', b'\\')
    return [
        b'..\\', b'..\\..\\', b'\\..\\', b'C:..\\', b'C:\\..\\', b'c:..\\', b'SUB1\\..\\..\\',
        b'SUB1\\SUBSUB\\..\\..\\..\\', b'.\\..\\', b'..\\.\\', b'..\\\\', b'\\\\..\\',
        b'.. \\', b'..  \\', b'C:.. \\', b'C:\\.. \\', b'\\.. \\', b'SUB1\\.. \\.. \\', b'..\t\\', b'..\r\\',
        b'..\n\\', b' ..\\', b'...\\', b'....\\', b'. .\\', b'..\x00\\', b'..\xff\\',
        b'../', b'..//', b'/../', b'C:../', b'/', absb + b'/', bs + b'\\', b'C:' + bs + b'\\',
        b'\\\\' + bs.lstrip(b'\\') + b'\\', b'..\\' * 40 + bs.lstrip(b'\\') + b'\\',
        b'D:..\\', b'D:.. \\', b'D:\\..\\', b'D:..\\SIBLING\\..\\', b'..\\SIBLING\\..\\', b'.. \\SIBLING\\.. \\',
        b'A:', b'A:\\', b'A:..\\', b'Z:', b'Z:..\\', b'@:', b'@:..\\', b'AB:', b'CD:..\\', b':', b':..\\', b'1:', b'CC:',
        b'C:C:', b'C:D:..\\', b'XYZ:',
    ]


BARE_PATHS = [
    b'..\\SIBLING\\SENT3.TXT', b'.. \\SIBLING\\SENT3.TXT', b'..\\SIBLING\\SENT3.BAS', b'.. \\SIBLING\\SENT3.BAS',
    b'.. \\SIBLING\\SENT3', b'..\\..\\SENT1.TXT', b'.. \\.. \\SENT1.TXT', b'.. \\.. \\SENT1.BAS', b'.. \\.. \\SENT1',
    b'..\\..\\..\\SENT0.TXT', b'.. \\.. \\.. \\SENT0.TXT', b'.. \\.. \\.. \\sent0low.txt', b'.. \\SDIR2\\INNER2.TXT',
    b'.. \\SDIR2', b'.. \\SIBLING\\SUBSIB', b'.. \\caf\x82.txt', b'..', b'.. ', b'..  ', b'.', b'. ', b'...', b'\\',
    b'\\..', b'\\.. ', b'C:', b'C:..', b'C:.. ', b'D:..', b'D:.. ', b'..\\..', b'.. \\.. ', b'SUB1\\..', b'SUB1\\.. ',
    b'SUB2\\..\\..', b'SUB2\\.. \\.. ', b'*.*', b'..\\*.*', b'.. \\*.*', b'.. \\S*.*', b'.. \\????????.???', b'\x00',
    b'..\x00', b'A\x00B', b'', b' ', b'IN1.TXT', b'PROG.BAS', b'PROG', b'BIN.M', b'SUB1', b'SUB2', b'SUB1\\F1.TXT',
    b'SUB1\\PROG2', b'D:OTH.TXT', b'D:\\OSUB\\O1.TXT', b'NEW.TXT', b'NEWDIR', b'..\\IN1.TXT', b'..\\..\\PROG.BAS',
    b'..\\..\\PROG', b'\\..\\BIN.M', b'..\\SUB1', b'..\\SUB2', b'..\\NEW2.TXT', b'..\\NEWDIR2', b'Long Inside Name.text',
    b'lower.txt', b'LOWER.TXT', b'AB:X', b':X', b'AB:..\\X', b'CON', b'NUL', b'x' * 255, b'BINPROG', b'BINPROG.BAS',
    b'PROTPROG', b'PROTPROG.BAS', b'..\\BINPROG',
]


DIRECTED_HISTORIES = [
    [],
    [b'..'],
    [b'..', b'..', b'..'],
    [b'.. '],
    [b'.. ', b'.. '],
    [b'SUB1', b'..\\..'],
    [b'SUB1\\SUBSUB', b'..\\..\\..'],
    [b'SUB1', b'.. \\.. '],
    [b'D:..'],
    [b'D:.. '],
    [b'\\..\\SIBLING'],
    [b'.. \\SIBLING'],
]
AFTER_HISTORY = [('files_noarg', []), ('files', [b'*.*']), ('open_i', [b'SENT2.TXT']), ('open_i', [b'SENT3.TXT']),
                 ('open_o', [b'NEWOUT.TXT']), ('open_a', [b'SENT2.TXT']), ('open_r', [b'SENT2.TXT']),
                 ('load', [b'SENT2']), ('run', [b'SENT3']), ('merge', [b'SENT2.BAS']), ('chain', [b'SENT2']),
                 ('save', [b'NEWOUT']), ('bload', [b'SENT2.BIN']), ('bsave', [b'NEWOUT.BIN']),
                 ('kill', [b'SENT2.TXT']), ('kill', [b'*.*']), ('name', [b'SENT2.TXT', b'STOLEN.TXT']),
                 ('mkdir', [b'NEWOUTD']), ('rmdir', [b'EMPTYD']), ('rmdir', [b'SUBSIB']), ('chdir', [b'SDIR2']),
                 ('files', [b'D:*.*']), ('open_i', [b'D:SENT2.TXT']), ('open_i', [b'IN1.TXT'])]


def directed_cases(S):
    """[(variant index, history, kind, args)]"""
    cases = []
    one = [k for k in KIND_NAMES if KINDS[k][1] == 1]
    for pre in directed_prefixes(S):
        for k in one:
            for t in KIND_TARGETS[k]:
                cases.append((0, [], k, [pre + t]))
        cases.append((0, [], 'name', [pre + b'SENT2.TXT', b'NEW9.TXT']))
        cases.append((0, [], 'name', [b'IN1.TXT', pre + b'STOLEN.TXT']))
        cases.append((0, [], 'name', [pre + b'SENT2.TXT', pre + b'RENAMED.TXT']))
        cases.append((0, [], 'name', [pre + b'EMPTYD', pre + b'RENAMEDD']))
    for p in BARE_PATHS:
        for k in one:
            cases.append((0, [], k, [p]))
        cases.append((0, [], 'name', [p, b'NEW9.TXT']))
        cases.append((0, [], 'name', [b'IN1.TXT', p]))
    for vi in range(len(MOUNT_VARIANTS)):
        for h in DIRECTED_HISTORIES:
            for k, a in AFTER_HISTORY:
                cases.append((vi, h, k, a))
    return cases


# ---------------------------------------------------------------------------------------
# plan / run

DIRECTED_PARTS = 12


def plan(tier, seed):
    shards = [{'kind': 'directed', 'part': i, 'parts': DIRECTED_PARTS} for i in range(DIRECTED_PARTS)]
    for c in CODEPAGES_DBCS:
        shards += [{'kind': 'directed_cp', 'cp': c, 'part': i, 'parts': 2} for i in range(2)]
    shards += [{'kind': 'directed_cp', 'cp': c, 'part': 0, 'parts': 1} for c in CODEPAGES_SBCS]
    if tier == 'quick':
        for i in range(16):
            shards.append({'kind': 'random', 'part': i, 'n': 1600})
    else:
        for i in range(64):
            shards.append({'kind': 'random', 'part': i, 'n': 12000})
    return shards


def run_shard(spec, res):
    kind = spec['kind']
    rng = random.Random('%s:C27:%s:%s' % (spec['seed'], kind, spec.get('part', 0)))
    watch = StrayWatch()
    try:
        if kind == 'directed':
            return _directed(spec, res)
        if kind == 'directed_cp':
            return _directed_cp(spec, res)
        if kind == 'random':
            return _random(spec, rng, res)
        raise ValueError(kind)
    finally:
        drop_pad_chain()
        watch.sweep(res)


# third channel (and cleanup): entries with one of the workload's names that appeared in the host root,
# the temp directory, the home directory or /verif while the shard ran - i.e. above the whole sandbox
_DOS_RE = re.compile(r"^[A-Z0-9 !#$%&'()@^_`{}~-]{1,8}(\.[A-Z0-9 !#$%&'()@^_`{}~-]{0,3})?$")


def _known_names():
    out = set()
    pool = list(SENT_NAMES) + list(IN_NAMES) + [t for ts in KIND_TARGETS.values() for t in ts]
    pool += [b'NEW9.TXT', b'STOLEN.TXT', b'RENAMED.TXT', b'RENAMEDD', b'MOVED.TXT', b'NEW2', b'M.TXT', b'NEWOUT.TXT',
             b'NEWOUTD', b'NEW2.TXT', b'NEWDIR2', b'FREE.NAM']
    for n in pool:
        try:
            u = n.decode('ascii').upper()
        except UnicodeDecodeError:
            continue
        if not u or '*' in u or '?' in u:
            continue
        trunk, _, ext = u.partition('.')
        for v in (u, trunk[:8] + ('.' + ext[:3] if ext else ''), trunk[:8] + '.BAS', trunk[:8]):
            out.add(v)
    return out


class StrayWatch(object):

    def __init__(self):
        here = os.path.dirname(os.path.dirname(os.path.dirname(os.path.abspath(__file__))))
        self.dirs = []
        for d in (os.sep, tempfile.gettempdir(), os.path.expanduser('~'), here):
            d = fsmon.norm(d)
            if d not in self.dirs:
                self.dirs.append(d)
        self.before = {}
        for d in self.dirs:
            try:
                self.before[d] = set(os.listdir(d))
            except OSError:
                self.before[d] = None
        self.known = _known_names()

    def sweep(self, res):
        for d in self.dirs:
            if self.before[d] is None:
                continue
            try:
                now = set(os.listdir(d))
            except OSError:
                continue
            for n in sorted(now - self.before[d]):
                if not (n in self.known or (d == os.sep and _DOS_RE.match(n))):
                    continue
                p = os.path.join(d, n)
                res.count('stray_entries_above_sandbox')
                res.violation('escape:stray-entry-above-sandbox',
                              'an entry %r appeared in %s while the shard ran (workload name; removed again)' % (n, d),
                              {'dir': d, 'name': n})
                try:
                    if os.path.isdir(p) and not os.path.islink(p):
                        os.rmdir(p)
                    else:
                        os.remove(p)
                except OSError:
                    pass


def _directed(spec, res):
    # the table is built against a placeholder S; host-absolute spellings are re-targeted per sandbox
    cases = directed_cases('/S')
    mine = cases[spec['part']::spec['parts']]
    sb = None
    cur = None
    n_in_sb = 0
    sampled = 0
    try:
        for vi, hist, kind, args in mine:
            # statements that may empty or rearrange the mount get a sandbox of their own afterwards
            if sb is None or cur != (vi, tuple(hist)) or n_in_sb >= 12:
                if sb is not None:
                    sb.close()
                    sb = None
                sb = Sandbox(res, MOUNT_VARIANTS[vi])
                cur = (vi, tuple(hist))
                n_in_sb = 0
                ok = True
                for h in hist:
                    ok, _ = sb.stmt('chdir', [h])
                    if not ok:
                        break
                if not ok:
                    sb.close()
                    sb = None
                    continue
            real_args = [a.replace(b'/S/', os.fsencode(sb.S) + b'/').replace(
                b'\\S\\', os.fsencode(sb.S).replace(b'/', b'\\') + b'\\') for a in args]
            ok, code = sb.stmt(kind, real_args, directed=True)
            n_in_sb += 1
            if sampled < 3 and code == 0:
                sampled += 1
                res.sample({'kind': 'directed', 'variant': MOUNT_VARIANTS[vi], 'history': hist,
                            'statement': KINDS[kind][0], 'args': real_args, 'error': code})
            if not ok or kind in ('kill', 'rmdir', 'name', 'chdir') or KINDS[kind][3]:
                sb.close()
                sb = None
    finally:
        if sb is not None:
            sb.close()


def _directed_cp(spec, res):
    cases = directed_cp_cases(spec['cp'])
    n = (len(cases) + spec.get('parts', 1) - 1) // spec.get('parts', 1)
    cases = cases[spec.get('part', 0) * n:(spec.get('part', 0) + 1) * n]       # contiguous: sandboxes are reused
    sb = None
    cur = None
    n_in_sb = 0
    sampled = 0
    try:
        for variant, hist, kind, args in cases:
            if sb is None or cur != tuple(hist) or n_in_sb >= 60:
                if sb is not None:
                    sb.close()
                sb = Sandbox(res, variant)
                cur = tuple(hist)
                n_in_sb = 0
                ok = True
                for h in hist:
                    ok, _ = sb.stmt('chdir', [h])
                    if not ok:
                        break
                if not ok:
                    sb.close()
                    sb = None
                    continue
            ok, code = sb.stmt(kind, args, directed=True)
            n_in_sb += 1
            if sampled < 2:
                sampled += 1
                res.sample({'kind': 'directed_cp', 'codepage': spec['cp'], 'history': hist, 'statement': KINDS[kind][0],
                            'args': args, 'error': code})
            if not ok or (code == 0 and (kind in ('kill', 'rmdir', 'name', 'chdir') or KINDS[kind][3])) or (hist and kind != 'files_noarg'):
                sb.close()
                sb = None
    finally:
        if sb is not None:
            sb.close()


def _random(spec, rng, res):
    n = spec['n']
    done = 0
    sampled = 0
    weights = {'files': 3, 'kill': 2, 'name': 2, 'open_i': 3, 'open_o': 2, 'chdir': 2, 'mkdir': 2, 'rmdir': 2}
    bag = []
    for k in KIND_NAMES:
        bag += [k] * weights.get(k, 1)
    while done < n:
        variant = rng.choice(MOUNT_VARIANTS)
        cpr = rng.random()
        if cpr < 0.25:
            variant = dict(variant, cp=rng.choice(CODEPAGES_DBCS))
        elif cpr < 0.33:
            variant = dict(variant, cp=rng.choice(CODEPAGES_SBCS[1:]))
        with Sandbox(res, variant) as sb:
            ok = True
            info = sb.cpinfo
            use_cp = 0.55 if variant.get('cp') else 0.04

            def mk_path(rng_, S_):
                return gen_cp_path(rng_, info) if rng_.random() < use_cp else gen_path(rng_, S_)

            def mk_chdir(rng_, S_):
                return gen_cp_path(rng_, info) if rng_.random() < use_cp * 0.6 else gen_chdir(rng_, S_)
            for _ in range(rng.choice([0, 0, 0, 1, 1, 2, 3])):
                ok, _c = sb.stmt('chdir', [mk_chdir(rng, sb.S)])
                done += 1
                if not ok:
                    break
            if not ok:
                continue
            for _ in range(rng.randint(8, 18)):
                kind = rng.choice(bag)
                nargs = KINDS[kind][1]
                args = []
                if nargs >= 1:
                    args.append(mk_chdir(rng, sb.S) if kind == 'chdir' else mk_path(rng, sb.S))
                if nargs == 2:
                    args.append(mk_path(rng, sb.S) if rng.random() < 0.6 else gen_simple_target(rng))
                    if rng.random() < 0.3:
                        args[0] = rng.choice([b'IN1.TXT', b'SUB1\\F1.TXT', b'lower.txt', b'SUB2', b'D:OTH.TXT'])
                ok, code = sb.stmt(kind, args)
                done += 1
                if sampled < 2 and code == 0 and args and b'..' in args[0]:
                    sampled += 1
                    res.sample({'kind': 'random', 'variant': variant, 'history': list(sb.history),
                                'statement': KINDS[kind][0], 'args': args, 'error': code})
                if not ok or done >= n:
                    break


def replay(data, res):
    """Re-run the concrete witnesses of a replay file (history + statement, fresh sandbox each)."""
    watch = StrayWatch()
    try:
        for w in data.get('witnesses', []):
            case = w['case']
            if not isinstance(case, dict) or 'kind' not in case:
                continue
            with Sandbox(res, case['variant']) as sb:
                ok = True
                for h in case['history']:
                    ok, _ = sb.stmt('chdir', [h])
                    if not ok:
                        break
                if ok:
                    sb.stmt(case['kind'], case['args'])
    finally:
        drop_pad_chain()
        watch.sweep(res)
