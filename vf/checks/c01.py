"""
C01 No BASIC input ever produces an internal interpreter error.

Monitor: exception boundary (M-EXC) around Session.execute / evaluate / interact / load paths and
pcbasic.main(); anything but a normal return / Exit / Reset escaping is an internal error, keyed
by (exception class, innermost pcbasic module:function).
Workloads: signature table x boundary arguments x contexts, direct-mode sequences, the recorded
GW-BASIC corpus (as is and mutated), token soup files, default-configuration sessions and the
command-line entry point.
"""
import io
import os
import random
import shutil
import subprocess
import sys
import tempfile

from .. import harness
from ..gen import stmts

META = {
    'property_id': 'C01',
    'technique': 'exception-boundary sanitizer (M-EXC) around the public API under grammar/boundary fuzzing, corpus mutation and token soup',
    'level': 'exploration',
    'level_text': (
        'Every call into Session.execute/evaluate/interact, program loads and pcbasic.main() is wrapped by an exception '
        'boundary; any host exception escaping is a violation keyed by (exception class, innermost pcbasic frame). '
        'Workloads: every statement/function template with boundary arguments in direct mode, in programs, under ON ERROR, '
        'inside handlers and in text/CGA/EGA/Tandy/PCjr screen modes; sequences sharing state; 667 corpus programs as is '
        'and mutated; random and bit-flipped program files in all three formats; default Session() and CLI configurations.'),
    'level_note': ('Decides only the inputs generated; SHELL with a configured shell, real serial/parallel ports, real audio '
                   'and GUI interfaces are out of reach. Hangs are bounded by a logical step budget and a per-case timer '
                   '(counted as timeouts, not violations). set_variable with a Python value of the wrong type is API misuse, '
                   'not generated.'),
    'rule': ('case = one statement / sequence / program / file in a fresh sandboxed session; distinct by its exact text; '
             'non-trivial = the interpreter accepted and executed it (any outcome: result, BASIC error, Break, Exit)'),
    'assumptions': ['an escaping BASICError/Break from execute() is also internal (they must be turned into messages)'],
    'require_counters': {'any': ['basic_errors_seen', 'ok_seen', 'programs_run']},
    'timeout': {'quick': 900, 'thorough': 4 * 3600},
}

CORPUS = os.path.join(harness.REPO, 'tests', 'basic')

CONTEXTS = [
    # (name, session kwargs, setup lines)
    ('text', {}, []),
    ('cga1', {}, [b'SCREEN 1']),
    ('cga2', {}, [b'SCREEN 2']),
    ('ega9', {'video': 'ega'}, [b'SCREEN 9']),
    ('ega7p', {'video': 'ega'}, [b'SCREEN 7,,1,0']),
    ('vga', {'video': 'vga'}, [b'SCREEN 9']),
    ('tandy5', {'video': 'tandy', 'syntax': 'tandy'}, [b'SCREEN 5']),
    ('tandy6', {'video': 'tandy', 'syntax': 'tandy'}, [b'SCREEN 6']),
    ('pcjr4', {'video': 'pcjr', 'syntax': 'pcjr'}, [b'SCREEN 4']),
    ('herc', {'video': 'hercules'}, [b'SCREEN 3']),
    ('mda', {'video': 'mda', 'monitor': 'mono'}, []),
    ('w40', {}, [b'WIDTH 40']),
    ('files', {}, [b'OPEN "DATA.TXT" FOR INPUT AS 1', b'OPEN "OUT.TXT" FOR OUTPUT AS 2', b'OPEN "RND.DAT" FOR RANDOM AS 3 LEN=16',
                   b'FIELD #3, 8 AS F$, 8 AS G$']),
    ('vars', {}, [b'DIM Q(10),Q%(10),A$(5)', b'A$="hello":X=3:I%=7:D#=1.5', b'DEF SEG=0']),
    ('double', {'double': True}, []),
    ('gwbasic', {'syntax': 'gwbasic'}, []),
    ('view', {}, [b'SCREEN 1', b'VIEW (10,10)-(100,100)', b'WINDOW (-1,-1)-(1,1)']),
    ('traps', {}, [b'KEY(1) ON:TIMER ON:PEN ON:STRIG ON', b'VIEW PRINT 5 TO 10']),
    # a relative viewport far from the origin and no WINDOW: viewport coordinates inside the screen size map beyond it
    ('viewfar', {}, [b'SCREEN 1', b'VIEW (100,100)-(200,150)']),
    ('viewfar9', {'video': 'ega'}, [b'SCREEN 9,,1,1', b'VIEW (500,300)-(630,340),1,2']),
]

PROG = [b'10 REM program', b'20 DATA 1,2,"three",4.5', b'30 X=X+1', b'100 REM target', b'110 RETURN', b'65529 END']


def _populate(mount):
    with open(os.path.join(mount, 'DATA.TXT'), 'wb') as f:
        f.write(b'1,2,"abc"\r\nline two\r\n3.5\r\n\x1a')
    with open(os.path.join(mount, 'PROG.BAS'), 'wb') as f:
        f.write(b'10 PRINT "prog"\r\n20 X=1\r\n30 END\r\n\x1a')
    # the same kind of program in tokenised and in protected format
    with open(os.path.join(mount, 'PROGB.BAS'), 'wb') as f:
        f.write(b'\xff\x7f\x12\n\x00\x91 "prog":X\xe7\x12\x00\x89\x12\x14\x00\x89 \x0e\x1e\x00\x00\x8f\x12\x1e\x00\x81\x00\x00\x00\x1a')
    with open(os.path.join(mount, 'PROGP.BAS'), 'wb') as f:
        f.write(b'\xfe\xd0\xa9\xbfT\xe2\x12\xbd\x81\x13b\x02\xd4\xc8/0\xb3\xb2\x1a\x01\x1a\x13\xdd\x8c\x198\x1a\x83\x96o\xb1\xdet\xc7\x92\xcc\x1a')
    with open(os.path.join(mount, 'RND.DAT'), 'wb') as f:
        f.write(bytes(range(64)))
    os.makedirs(os.path.join(mount, 'SUB'), exist_ok=True)


def plan(tier, seed):
    q = tier == 'quick'
    shards = [{'kind': 'directed'}]
    nctx = len(CONTEXTS)
    for i in range(nctx):
        shards.append({'kind': 'sig', 'ctx': i, 'reps': 2 if q else 30, 'part': i})
    for i in range(8 if q else 48):
        shards.append({'kind': 'seq', 'n': 260 if q else 4000, 'part': i})
    for i in range(4 if q else 24):
        shards.append({'kind': 'nest', 'n': 160 if q else 2500, 'part': i})
    for i in range(8 if q else 32):
        shards.append({'kind': 'corpus', 'part': i, 'parts': 8 if q else 32, 'mutants': 0 if q else 20,
                       'limit': 38 if q else None})
    for i in range(4 if q else 16):
        shards.append({'kind': 'soup', 'n': 100 if q else 500, 'part': i})
    for i in range(4 if q else 16):
        shards.append({'kind': 'interact', 'n': 60 if q else 800, 'part': i})
    for i in range(1 if q else 8):
        shards.append({'kind': 'default', 'n': 150 if q else 400, 'part': i})
    shards.append({'kind': 'cli', 'n': 12 if q else 120})
    return shards


def _exec(box, res, line, case, budget=3000):
    """Execute one direct line under the exception boundary. Returns output or None."""
    try:
        with harness.time_limit(25):
            out = box.ex(line, budget=budget)
    except harness.Internal as e:
        res.violation(e.key, '%s  on %r\n%s' % (e, line[:200], e.tb[-1500:]), case)
        res.count('internal_errors_seen')
        return None
    except harness.CaseTimeout:
        res.count('case_timeouts')
        return None
    code, _ = harness.err_of(out)
    if code > 0 or code == -1:
        res.count('basic_errors_seen')
    elif code == -2:
        res.count('breaks_seen')
    elif out.startswith(b'<exit>'):
        res.count('exits_seen')
    else:
        res.count('ok_seen')
    return out


def _new_box(kwargs, budget=3000):
    box = harness.Box(budget=budget, wait_budget=60, **kwargs)
    _populate(box.mount)
    return box


def run_shard(spec, res):
    kind = spec['kind']
    rng = random.Random('%s:C01:%s:%s' % (spec['seed'], kind, spec.get('part', 0)))
    return globals()['_' + kind](spec, rng, res)


# ---- directed core (named in the property + every repaired escape) ---------------------------------

DIRECTED = [
    ({}, [b'10 ON ERROR GOTO 10', b'20 PRINT 1', b'RUN', b'RENUM 100,20']),
    ({}, [b'10 ON KEY(1) GOSUB 10', b'20 PRINT 1', b'RUN', b'RENUM 100,20']),
    ({}, [b'TIME$="-1"', b'TIME$="1:-2"', b'TIME$="1:2:-3"', b'DATE$="-1-1-80"', b'DATE$="1--1-80"']),
    ({}, [b'ENVIRON "VFX="+CHR$(0)', b'ENVIRON "VF"+CHR$(0)+"X=1"', b'PRINT ENVIRON$("VF"+CHR$(0))']),
    ({}, [b'SCREEN 1', b'DEF SEG=0', b'PRINT PEEK(1126)']),
    ({}, [b'KILL "AB:X"', b'FILES ":X"', b'CHDIR ":"', b'NAME "AB:X" AS "Y"', b'OPEN "ABC:X" FOR INPUT AS 1']),
    ({}, [b'SCREEN 1:VIEW (10,10)-(100,100):SCREEN 1,,0,0', b'SCREEN 1:DRAW "C300 R5"', b'DRAW "C-1 R5"']),
    ({}, [b'PRINT 1 IMP "a"', b'PRINT "a" IMP 1']),
    ({}, [b'PRINT "zzz"+CHR$(999)', b'FOR I=1 TO 400:B$=SPACE$(200):NEXT']),
    ({}, [b'CLEAR ,5440', b'A$=SPACE$(90)+SPACE$(90)']),
    ({}, [b'10 CLEAR ,6000', b'20 DEF FNA$(X$)=X$+STRING$(100,"a")+X$', b'30 X$="keep"+"me":Y$=STRING$(200,"y")',
          b'40 FOR I=1 TO 60:Z$=FNA$("q"+STR$(I)):NEXT', b'RUN']),
    ({}, [b'A$=STRING$(50,"x"): B$=LEFT$(A$+"y",0): PRINT FRE(""): B%=INSTR(A$+"y","q"): PRINT FRE("")']),
    ({'peek_values': None}, [b'PRINT PEEK(0)', b'DEF SEG=0:PRINT PEEK(1047)']),
    ({}, [b'SCREEN 1: VIEW (100,100)-(200,150): PRINT POINT(300,10);POINT(10,199);POINT(319,199)',
          b'PSET(300,10):PRESET(319,199):LINE (250,0)-(319,199),1,BF:CIRCLE(300,150),40:PAINT(310,10):DRAW "M310,190"',
          b'DIM G%(2000):GET (0,0)-(100,50),G%:PUT (219,149),G%', b'PUT (300,10),G%']),
]


def _directed(spec, rng, res):
    for kwargs, lines in DIRECTED:
        with _new_box(kwargs) as box:
            for l in lines:
                _exec(box, res, l, {'directed': lines, 'at': l})
        res.case(('directed', tuple(lines)))
    res.sample({'kind': 'directed', 'example': DIRECTED[0][1]})


# ---- signature table -----------------------------------------------------------------------------------

def _sig(spec, rng, res):
    name, kwargs, setup = CONTEXTS[spec['ctx']]
    templates = [(t, False) for t in stmts.STATEMENTS] + [(t, True) for t in stmts.FUNCTIONS]
    seen_kw = set()
    box = None
    n_in_box = 0
    try:
        for rep in range(spec['reps']):
            for t, is_fn in templates:
                body = stmts.fill(t, rng)
                if is_fn:
                    body = rng.choice([b'PRINT ', b'Y=', b'A$=', b'PRINT LEN(', b'IF ']) + body
                    if body.startswith(b'PRINT LEN('):
                        body += b')'
                    elif body.startswith(b'IF '):
                        body += b' THEN PRINT 1'
                mode = rng.choice(['direct', 'direct', 'direct', 'program', 'trapped', 'handler', 'colon'])
                if box is None or n_in_box > 40:
                    if box is not None:
                        box.close()
                    box = _new_box(kwargs)
                    n_in_box = 0
                    for l in PROG + setup:
                        _exec(box, res, l, {'ctx': name, 'setup': l})
                n_in_box += 1
                case = {'ctx': name, 'mode': mode, 'stmt': body}
                if mode == 'direct':
                    lines = [body]
                elif mode == 'colon':
                    lines = [b'X=1:' + body + b':PRINT 2']
                elif mode == 'program':
                    lines = [b'50 ' + body, b'RUN 50']
                elif mode == 'trapped':
                    lines = [b'40 ON ERROR GOTO 200', b'50 ' + body, b'60 END', b'200 PRINT ERR;ERL:RESUME NEXT', b'RUN 40']
                else:
                    lines = [b'40 ON ERROR GOTO 200', b'50 ERROR 5', b'60 END', b'200 ' + body, b'210 RESUME NEXT', b'RUN 40']
                out = None
                for l in lines:
                    out = _exec(box, res, l, case)
                    if out is None:
                        break
                if out is None or out.startswith(b'<exit>') or box.impl is None:
                    box.close()
                    box = None
                else:
                    # remove the scratch lines again
                    for ln in (b'40', b'50', b'60', b'200', b'210'):
                        if mode in ('program', 'trapped', 'handler'):
                            _exec(box, res, ln, case)
                res.case((name, mode, body))
                seen_kw.add(stmts.keyword_of(t))
                if rep == 0 and len(res.samples) < 2:
                    res.sample({'ctx': name, 'mode': mode, 'lines': lines, 'output': out})
    finally:
        if box is not None:
            box.close()
    res.maxc('max_keywords_reached', len(seen_kw))


# ---- sequences sharing state ------------------------------------------------------------------------------

def _seq(spec, rng, res):
    templates = stmts.STATEMENTS + [b'PRINT ' + f for f in stmts.FUNCTIONS]
    for i in range(spec['n']):
        name, kwargs, setup = rng.choice(CONTEXTS)
        lines = [stmts.fill(rng.choice(templates), rng) for _ in range(rng.randint(2, 6))]
        if rng.random() < 0.3:
            lines = [b':'.join(lines)]
        if rng.random() < 0.3:
            lines = [b'%d %s' % (10 * (k + 1), l) for k, l in enumerate(lines)] + [b'RUN']
        with _new_box(kwargs) as box:
            for l in setup + lines:
                out = _exec(box, res, l, {'ctx': name, 'seq': lines, 'at': l})
                if out is None or out.startswith(b'<exit>'):
                    break
        res.case((name, tuple(lines)))
        if i < 2:
            res.sample({'ctx': name, 'sequence': lines})


# ---- statements inside control structures ---------------------------------------------------------------------

# statements that reset or unwind interpreter state, drawn with extra weight inside the skeletons
_STATEFUL = [
    b'CLEAR', b'CLEAR ,#', b'CLEAR ,,#', b'NEW', b'RUN', b'RUN &', b'END', b'STOP', b'CONT', b'RETURN', b'RETURN &', b'NEXT', b'NEXT I',
    b'NEXT J,I', b'WEND', b'RESUME', b'RESUME NEXT', b'RESUME &', b'RESUME 0', b'ERASE Q', b'DIM Q(#)', b'OPTION BASE 1', b'RESTORE',
    b'RESTORE &', b'ON ERROR GOTO 0', b'ON ERROR GOTO &', b'ERROR #', b'DELETE &', b'DELETE &-&', b'RENUM', b'RENUM #,#,#',
    b'CHAIN "PROG.BAS"', b'CHAIN MERGE "PROG.BAS",&,ALL', b'MERGE "PROG.BAS"', b'LOAD "PROGB",R', b'LOAD "PROG.BAS"', b'COMMON A,B$',
    b'DEF FNA(X)=X+I', b'DEFINT I-J', b'I=#', b'J=0', b'X=X+1', b'GOTO &', b'GOSUB &', b'ON # GOTO &,&', b'ON # GOSUB &,&',
    b'SCREEN #', b'WIDTH #', b'KEY(1) ON', b'ON KEY(1) GOSUB &', b'TIMER ON', b'ON TIMER(1) GOSUB &', b'FOR I=1 TO 2', b'WHILE 0',
    b'WHILE X<9', b'IF I THEN NEXT', b'IF 1 THEN WEND ELSE NEXT', b'EDIT &', b'AUTO', b'LIST', b'TRON', b'SYSTEM', b'SWAP I,J',
    b'POKE VARPTR(I),#', b'LSET A$=$', b'MID$(A$,#,#)=$', b'PRINT FNA(I)', b'READ I', b'READ A$,I', b'INPUT #1,I', b'FIELD #3,4 AS A$',
]

# skeletons: lists of lines, {} = a slot for one or two statements; numbered lines form a program that is then RUN
_SKELETONS = [
    [b'FOR I=1 TO 3: {}: NEXT'],
    [b'FOR I=1 TO 2: FOR J=1 TO 2: {}: NEXT J,I'],
    [b'FOR I%=1 TO 2: {}: NEXT: {}'],
    [b'X=0: WHILE X<2: X=X+1: {}: WEND'],
    [b'IF 1 THEN {}: {} ELSE {}'],
    [b'IF 0 THEN {} ELSE {}: {}'],
    [b'FOR I=1 TO 2: IF I=2 THEN {} ELSE {}', b'NEXT'],
    [b'10 FOR I=1 TO 3', b'20 {}', b'30 NEXT', b'40 {}', b'RUN'],
    [b'10 X=0: WHILE X<3: X=X+1', b'20 {}', b'30 WEND', b'RUN'],
    [b'10 GOSUB 100: {}: END', b'100 {}: RETURN', b'RUN'],
    [b'10 GOSUB 100', b'20 END', b'100 FOR I=1 TO 2: {}: NEXT: RETURN', b'RUN'],
    [b'10 ON ERROR GOTO 100: ERROR 5: {}: END', b'100 {}: RESUME NEXT', b'RUN'],
    [b'10 ON ERROR GOTO 100', b'20 {}', b'30 {}', b'40 END', b'100 {}: RESUME NEXT', b'RUN'],
    [b'10 ON ERROR GOTO 100: FOR I=1 TO 2: ERROR 6: NEXT: END', b'100 {}', b'110 RESUME NEXT', b'RUN', b'{}'],
    [b'10 DEF FNA(X)=X+1: {}: PRINT FNA(1)', b'RUN'],
    [b'10 DIM Q(5): FOR I=1 TO 2: Q(I)=I: {}: PRINT Q(1): NEXT', b'RUN'],
    [b'10 DATA 1,2,x,"y",5', b'20 FOR I=1 TO 3: READ A: {}: NEXT', b'RUN'],
    [b'10 ON KEY(1) GOSUB 100: KEY(1) ON: FOR I=1 TO 3: {}: NEXT: END', b'100 {}: RETURN', b'RUN'],
    [b'10 FOR I=1 TO 2: GOSUB 100: NEXT: END', b'100 WHILE X<2: X=X+1: {}: WEND: RETURN', b'RUN', b'{}', b'CONT'],
    [b'10 {}', b'20 STOP', b'30 {}', b'RUN', b'{}', b'CONT'],
]


def _nest(spec, rng, res):
    """Random statements (state-resetting ones with extra weight) inside loops, subroutines, handlers and IF branches."""
    templates = stmts.STATEMENTS + [b'PRINT ' + f for f in stmts.FUNCTIONS]

    def slot():
        parts = []
        for _ in range(rng.choice((1, 1, 2))):
            t = rng.choice(_STATEFUL) if rng.random() < 0.6 else rng.choice(templates)
            parts.append(stmts.fill(t, rng))
        return b': '.join(parts)

    for i in range(spec['n']):
        name, kwargs, setup = rng.choice(CONTEXTS)
        skel = rng.choice(_SKELETONS)
        lines = []
        for l in skel:
            while b'{}' in l:
                l = l.replace(b'{}', slot(), 1)
            lines.append(l)
        with _new_box(kwargs) as box:
            for l in setup + lines:
                out = _exec(box, res, l, {'ctx': name, 'seq': lines, 'at': l})
                if out is None or out.startswith(b'<exit>'):
                    break
        res.case((name, tuple(lines)))
        res.count('statements_inside_control_structures')
        if i < 2:
            res.sample({'ctx': name, 'nested': lines})


# ---- corpus -----------------------------------------------------------------------------------------------

def _corpus_dirs():
    out = []
    for suite in sorted(os.listdir(CORPUS)):
        p = os.path.join(CORPUS, suite)
        if not os.path.isdir(p) or suite.startswith('_'):
            continue
        for t in sorted(os.listdir(p)):
            d = os.path.join(p, t)
            if os.path.isdir(d) and any(n.upper().endswith('.BAS') for n in os.listdir(d)):
                out.append((suite, t, d))
    return out


def _mutate(text, rng):
    """Token-level mutation of an ASCII program."""
    lines = text.split(b'\r\n') if b'\r\n' in text else text.split(b'\n')
    lines = [l for l in lines if l.strip(b'\x1a\r\n ')]
    if not lines:
        return text
    for _ in range(rng.randint(1, 4)):
        k = rng.randrange(len(lines))
        l = lines[k]
        op = rng.random()
        if op < 0.3:
            # replace a number by a boundary value
            import re
            nums = list(re.finditer(rb'(?<![A-Za-z0-9.])\d+(\.\d+)?', l))
            if len(nums) > 1:
                m = rng.choice(nums[1:])
                l = l[:m.start()] + rng.choice(stmts.INTS) + l[m.end():]
        elif op < 0.45:
            for a, b in ((b'+', b'\\'), (b'*', b'^'), (b',', b';'), (b'(', b''), (b')', b''), (b'=', b'<>'), (b'"', b'')):
                if a in l and rng.random() < 0.4:
                    pos = [i for i in range(len(l)) if l[i:i + 1] == a]
                    p = rng.choice(pos)
                    l = l[:p] + b + l[p + 1:]
                    break
        elif op < 0.6:
            parts = l.split(b',')
            if len(parts) > 1:
                j = rng.randrange(len(parts))
                if rng.random() < 0.5:
                    del parts[j]
                else:
                    parts.insert(j, parts[j])
                l = b','.join(parts)
        elif op < 0.7:
            del lines[k]
            if not lines:
                lines = [b'10 END']
            continue
        elif op < 0.8:
            other = rng.choice(lines)
            l = l + b':' + other.split(b' ', 1)[-1]
        elif op < 0.9:
            l = l.replace(b' ', b'', rng.randint(1, 3))
        else:
            p = rng.randrange(len(l) + 1)
            l = l[:p] + bytes([rng.randrange(256)]) + l[p:]
        lines[k] = l
    return b'\r\n'.join(lines) + b'\r\n'


def _run_corpus_case(res, suite, test, d, text, tag, rng):
    kwargs = {}
    if suite == 'tandy':
        kwargs = {'video': 'tandy', 'syntax': 'tandy'}
    elif suite == 'pcjr':
        kwargs = {'video': 'pcjr', 'syntax': 'pcjr'}
    box = harness.Box(budget=1500, wait_budget=20, **kwargs)
    try:
        # copy the test's input files into the mount
        for n in os.listdir(d):
            src = os.path.join(d, n)
            if os.path.isfile(src) and n not in ('PCBASIC.INI',) and os.path.getsize(src) < 200000:
                shutil.copy(src, os.path.join(box.mount, n))
        with open(os.path.join(box.mount, 'TEST.BAS'), 'wb') as f:
            f.write(text)
        box.keys('a\r1\r\r"x",2\r\r\r')
        case = {'suite': suite, 'test': test, 'variant': tag}
        if tag != 'asis':
            case['program'] = text[:3000]
        out = _exec(box, res, b'LOAD "TEST.BAS"', case, budget=1500)
        if out is not None and not out.startswith(b'<exit>'):
            out = _exec(box, res, b'RUN', case, budget=1500)
            res.count('programs_run')
        if out is not None and not out.startswith(b'<exit>') and rng.random() < 0.5:
            _exec(box, res, rng.choice([b'LIST', b'SAVE "O1",A', b'SAVE "O2"', b'RENUM', b'CONT', b'PRINT FRE(0)']), case)
    finally:
        box.close()


def _corpus(spec, rng, res):
    dirs = _corpus_dirs()
    mine = dirs[spec['part']::spec['parts']]
    if spec.get('limit'):
        # quick: a seed-dependent slice of the corpus
        rng.shuffle(mine)
        mine = mine[:spec['limit']]
    for suite, test, d in mine:
        bas = [n for n in os.listdir(d) if n.upper() == 'TEST.BAS']
        if not bas:
            continue
        with open(os.path.join(d, bas[0]), 'rb') as f:
            text = f.read()
        _run_corpus_case(res, suite, test, d, text, 'asis', rng)
        res.case((suite, test, 'asis'))
        if len(res.samples) < 1:
            res.sample({'corpus_test': '%s/%s' % (suite, test), 'bytes': len(text)})
        is_ascii = text[:1] not in (b'\xff', b'\xfe', b'\xfc')
        for m in range(spec['mutants'] + (1 if spec.get('limit') else 0)):
            if is_ascii:
                mt = _mutate(text, rng)
            else:
                mt = _flip(text, rng)
            _run_corpus_case(res, suite, test, d, mt, 'mut%d' % m, rng)
            res.case((suite, test, mt))
            res.count('mutants_run')


# ---- token soup ----------------------------------------------------------------------------------------------

def _flip(data, rng):
    b = bytearray(data)
    if not b:
        return bytes(b)
    for _ in range(rng.randint(1, 6)):
        op = rng.random()
        p = rng.randrange(len(b))
        if op < 0.5:
            b[p] ^= 1 << rng.randrange(8)
        elif op < 0.7:
            b[p] = rng.choice([0, 0x0e, 0x0f, 0x1c, 0x1d, 0x1f, 0xff, 0xfe, 0xfd, 0x3a, 0x22, 0x8f, 0x84])
        elif op < 0.85:
            del b[p:p + rng.randint(1, 8)]
        else:
            b[p:p] = bytes(rng.randrange(256) for _ in range(rng.randint(1, 5)))
        if not b:
            break
    if rng.random() < 0.3:
        b = b[:rng.randrange(len(b) + 1)]
    return bytes(b)


def _soup(spec, rng, res):
    # a few tokenised/protected seeds made by the interpreter itself
    seeds = []
    with harness.Box() as box:
        box.enter([b'10 FOR I=1 TO 3:PRINT I;"x";1.5;2#;&HFF;&O7:NEXT', b'20 GOTO 40:GOSUB 10:ON X GOTO 10,20',
                   b'30 DATA 1,"a":REM x', b"40 IF A THEN 50 ELSE PRINT 1 ' c", b'50 A$="q"+CHR$(34):DEF FNA(X)=X',
                   b'60 PRINT USING "##";1:END'])
        box.ex(b'SAVE "T.BAS"')
        box.ex(b'SAVE "P.BAS",P')
        box.ex(b'SAVE "A.BAS",A')
        for n in ('T.BAS', 'P.BAS', 'A.BAS'):
            with open(box.path(n), 'rb') as f:
                seeds.append(f.read())
    for i in range(spec['n']):
        r = rng.random()
        if r < 0.25:
            data = bytes(rng.randrange(256) for _ in range(rng.randint(0, 300)))
            magic = rng.choice([b'\xff', b'\xfe', b'', b'\xfc', b'\xfd'])
            data = magic + data
        elif r < 0.6:
            data = _flip(seeds[0], rng)
        elif r < 0.8:
            data = _flip(seeds[1], rng)
        else:
            data = _flip(seeds[2], rng)
        with harness.Box(budget=600, wait_budget=20) as box:
            with open(box.path('S.BAS'), 'wb') as f:
                f.write(data)
            case = {'file': data}
            cmds = [b'LOAD "S.BAS"'] + rng.sample(
                [b'LIST', b'RUN', b'SAVE "O.BAS"', b'SAVE "O2.BAS",A', b'SAVE "O3.BAS",P', b'RENUM', b'MERGE "S.BAS"',
                 b'DELETE 10-30', b'EDIT 10', b'LLIST', b'LIST ,"L.TXT"', b'CHAIN "S.BAS"', b'RUN "S.BAS"', b'15 REM x',
                 b'BLOAD "S.BAS"', b'OPEN "S.BAS" FOR INPUT AS 1:LINE INPUT#1,A$:INPUT#1,X:CLOSE'], 4)
            for c in cmds:
                out = _exec(box, res, c, case, budget=600)
                if out is None or out.startswith(b'<exit>'):
                    break
        res.case(('soup', data))
        if i < 1:
            res.sample({'soup_file_hex': data[:80].hex(), 'commands': cmds})
    res.count('soup_files', spec['n'])


# ---- typed input through interact(): the console editor, INPUT, function keys ------------------------------

_SPECIAL = [0x47, 0x48, 0x49, 0x4b, 0x4d, 0x4f, 0x50, 0x51, 0x52, 0x53] + list(range(0x3b, 0x45)) + [0x57, 0x58]


def _typed_session(rng, templates):
    """A list of key events: typed lines mixed with editing keys, control characters and function keys."""
    sc = harness.scancode
    events = []

    def typ(text):
        for ch in text:
            events.append(harness.key_event(ch, None, []))

    for _ in range(rng.randint(2, 6)):
        r = rng.random()
        if r < 0.45:
            line = stmts.fill(rng.choice(templates), rng).decode('latin-1')
            if rng.random() < 0.4:
                line = '%d %s' % (rng.choice([10, 20, 30, 100, 65529]), line)
            typ(line)
        elif r < 0.6:
            typ(rng.choice(['INPUT A$,B', 'LINE INPUT L$', 'INPUT "p";X', 'A$=INKEY$:PRINT A$', 'A$=INPUT$(2):PRINT A$',
                            'AUTO', 'EDIT 10', 'LIST', 'KEY ON', 'FILES', 'NEW', 'RUN', 'CONT', 'AUTO 10,5']))
        elif r < 0.7:
            typ(''.join(chr(rng.choice([1, 2, 3, 5, 6, 7, 8, 9, 10, 11, 12, 14, 18, 20, 23, 27, 28, 29, 30, 31, 127, 0, 255]))
                        for _ in range(rng.randint(1, 6))))
        elif r < 0.8:
            typ('X' * rng.choice([80, 200, 254, 255, 256, 300]))
        # editing keys in the line
        for _ in range(rng.randint(0, 8)):
            scan = rng.choice(_SPECIAL)
            mods = rng.choice([[], [], [sc.CTRL], [sc.ALT], [sc.LSHIFT]])
            events.append(harness.key_event(u'\0' + chr(scan), scan, mods))
            # release the key (matters for F12, the emulator's modifier key)
            events.append(harness.signals.Event(harness.signals.KEYB_UP, (scan,)))
            if rng.random() < 0.3:
                typ(rng.choice(['x', '1', '"', ':', ' ', '?']))
        if rng.random() < 0.15:
            events.append(harness.key_event(u'', sc.BREAK, [sc.CTRL]))
        events.append(harness.key_event(u'\r', sc.RETURN, []))
    return events


def _interact(spec, rng, res):
    templates = [t for t in stmts.STATEMENTS if not t.startswith((b'SYSTEM', b'SHELL', b'TERM'))] + \
                [b'PRINT ' + f for f in stmts.FUNCTIONS]
    for i in range(spec['n']):
        name, kwargs, setup = rng.choice(CONTEXTS)
        events = _typed_session(rng, templates)
        box = _new_box(kwargs, budget=3000)
        try:
            for l in PROG + setup:
                _exec(box, res, l, {'ctx': name, 'setup': l})
            box.stepper.reset(3000)
            box.stepper.exit_on_wait = True
            box.stepper.wait_budget = 30
            pending = list(events)
            kbuf = box.impl.keyboard.buf

            def feed(queues, pending=pending, kbuf=kbuf):
                # type the next few keys whenever the 15-key buffer has room (a fast typist)
                if pending and kbuf.length < 4:
                    for _ in range(min(8, len(pending))):
                        queues.inputs.put(pending.pop(0))
                    return True
                return bool(pending)

            box.stepper.on_wait_cb = feed
            typed = ''.join(e.params[0] for e in events if e.event_type == harness.signals.KEYB_DOWN)
            case = {'ctx': name, 'typed': typed[:1500]}
            try:
                with harness.time_limit(15):
                    # Break raised by the step budget is handled inside interact(); the loop ends with Exit
                    harness.guarded(box.s.interact)
                res.count('interactive_sessions')
            except harness.Internal as e:
                res.violation(e.key, '%s in interact() after typing %r\n%s' % (e, typed[:300], e.tb[-1500:]), case)
                res.count('internal_errors_seen')
            except harness.CaseTimeout:
                res.count('case_timeouts')
            res.case(('interact', name, typed))
            if i < 1:
                res.sample({'kind': 'interact', 'ctx': name, 'typed': typed[:300]})
        finally:
            box.close()


# ---- default configuration (Session() with no arguments) in a subprocess ----------------------------------

_DEFAULT_DRIVER = r'''
import sys, json, traceback
sys.path.insert(0, %(repo)r)
from pcbasic.basic import Session
from pcbasic.basic.base import error
lines = json.load(open(%(cases)r))
out = []
s = Session()
for l in lines:
    l = bytes.fromhex(l)
    try:
        s.execute(l)
        out.append(None)
    except (error.Exit, error.Reset):
        out.append('exit')
        s = Session()
    except BaseException as e:
        where = '?'
        for fs in traceback.extract_tb(e.__traceback__):
            fn = fs.filename.replace('\\', '/')
            if '/pcbasic/' in fn:
                where = '%%s:%%s' %% (fn.split('/pcbasic/', 1)[1], fs.name)
        out.append('internal:%%s@%%s' %% (type(e).__name__, where))
        try:
            s.close()
        except BaseException:
            pass
        s = Session()
try:
    s.close()
except BaseException:
    pass
json.dump(out, open(%(result)r, 'w'))
'''

# statements that would block on the real stdin / run away without the step controller
_DEFAULT_SKIP = (b'INPUT', b'LINE INPUT', b'WHILE', b'FOR ', b'AUTO', b'EDIT', b'SHELL', b'TERM', b'PLAY', b'SOUND', b'WAIT',
                 b'RUN', b'CHAIN', b'GOTO', b'GOSUB', b'CONT', b'IF', b'ON ', b'LOAD', b'MERGE', b'BEEP', b'NOISE', b'LLIST',
                 b'LPRINT', b'LCOPY', b'RESUME', b'RETURN', b'NEXT', b'WEND', b'FILES', b'INKEY', b'LIST')


def _default(spec, rng, res):
    import json
    templates = [t for t in stmts.STATEMENTS if not t.startswith(_DEFAULT_SKIP)] + [b'PRINT ' + f for f in stmts.FUNCTIONS
                                                                                  if not f.startswith((b'INPUT$', b'INKEY', b'USR'))]
    lines = [b'PRINT PEEK(0)', b'DEF SEG=0:PRINT PEEK(1047);PEEK(1126)', b'PRINT PEEK(1050)', b'X=VARPTR(A):PRINT PEEK(X)']
    lines += [stmts.fill(rng.choice(templates), rng) for _ in range(spec['n'])]
    d = tempfile.mkdtemp(prefix='vfdef_')
    try:
        cases, result = os.path.join(d, 'cases.json'), os.path.join(d, 'result.json')
        with open(cases, 'w') as f:
            json.dump([l.hex() for l in lines], f)
        drv = os.path.join(d, 'drv.py')
        with open(drv, 'w') as f:
            f.write(_DEFAULT_DRIVER % {'repo': harness.REPO, 'cases': cases, 'result': result})
        work = os.path.join(d, 'cwd')
        os.makedirs(work)
        try:
            # stdin is a pipe at end-of-file (a statement that prompts, e.g. a bare RANDOMIZE, sees its input closed);
            # /dev/null would not do: FIONREAD fails on it, the input thread dies and the prompt waits forever
            p = subprocess.run([sys.executable, '-B', drv], cwd=work, input=b'', stdout=subprocess.PIPE,
                               stderr=subprocess.STDOUT, timeout=600)
        except subprocess.TimeoutExpired:
            res.inconclusive('default-configuration driver timed out')
            return
        if not os.path.exists(result):
            res.inconclusive('default-configuration driver died: %s' % p.stdout[-600:].decode('latin-1'))
            return
        with open(result) as f:
            outcome = json.load(f)
        for l, o in zip(lines, outcome):
            res.case(('default', l))
            if o is None:
                res.count('ok_seen')
            elif o == 'exit':
                res.count('exits_seen')
            else:
                res.violation(o, 'Session() default configuration: %s on %r' % (o, l), {'config': 'Session()', 'stmt': l})
        res.sample({'kind': 'default Session()', 'first_statements': lines[:5]})
        res.count('default_config_statements', len(lines))
    finally:
        shutil.rmtree(d, ignore_errors=True)


# ---- command line -----------------------------------------------------------------------------------------------

def _cli(spec, rng, res):
    """pcbasic.main() with non-interactive command lines, in a subprocess (it owns stdio and may sys.exit)."""
    d = tempfile.mkdtemp(prefix='vfcli_')
    try:
        with open(os.path.join(d, 'A.BAS'), 'wb') as f:
            f.write(b'10 PRINT "hi"\r\n20 X=1/0\r\n30 PRINT PEEK(0)\r\n40 SYSTEM\r\n')
        with open(os.path.join(d, 'BAD.BAS'), 'wb') as f:
            f.write(b'\xff' + bytes(rng.randrange(256) for _ in range(60)))
        cmdlines = [
            ['--interface=none', '-e', 'PRINT 1/0', '-q'],
            ['--interface=none', '-e', 'PRINT PEEK(0):?PEEK(1126)', '-q'],
            ['--interface=none', '--run=A.BAS', '-q'],
            ['--interface=none', '--load=A.BAS', '-e', 'LIST', '-q'],
            ['--convert=B', 'A.BAS', 'B.BAS'],
            ['--convert=P', 'A.BAS', 'P.BAS'],
            ['--convert=A', 'BAD.BAS', 'C.BAS'],
            ['--interface=none', '--run=BAD.BAS', '-q'],
            ['--interface=none', '--run=NOSUCH.BAS', '-q'],
            ['--interface=none', '-e', 'FILES', '-q'],
            ['--interface=none', '--video=ega', '-e', 'SCREEN 9:PSET(1,1):?POINT(1,1)', '-q'],
            ['--interface=none', '--syntax=tandy', '--video=tandy', '-e', 'SCREEN 5:?PEEK(0)', '-q'],
        ]
        extra = []
        templates = [t for t in stmts.STATEMENTS if not t.startswith(_DEFAULT_SKIP)]
        for i in range(max(0, spec['n'] - len(cmdlines))):
            st = b':'.join(stmts.fill(rng.choice(templates), rng) for _ in range(3))
            try:
                extra.append(['--interface=none', '-e', st.decode('ascii'), '-q'])
            except UnicodeDecodeError:
                pass
        for args in cmdlines + extra:
            code = ('import sys; sys.path.insert(0, %r); sys.argv=["pcbasic"]+%r\n'
                    'import pcbasic\n'
                    'pcbasic.main(*sys.argv[1:])\n') % (harness.REPO, args)
            try:
                p = subprocess.run([sys.executable, '-B', '-c', code], cwd=d, stdin=subprocess.DEVNULL,
                                   stdout=subprocess.PIPE, stderr=subprocess.PIPE, timeout=120)
            except subprocess.TimeoutExpired:
                res.count('case_timeouts')
                continue
            res.case(('cli', tuple(args)))
            res.count('cli_runs')
            err = p.stderr.decode('latin-1')
            if 'Traceback (most recent call last)' in err:
                # innermost pcbasic frame and exception type
                where, exc = '?', '?'
                for ln in err.splitlines():
                    if '/pcbasic/' in ln and 'File "' in ln:
                        fn = ln.split('File "')[1].split('"')[0].replace('\\', '/')
                        fnc = ln.rsplit(' in ', 1)[-1].strip()
                        where = '%s:%s' % (fn.split('/pcbasic/', 1)[1], fnc)
                    elif ln and not ln.startswith(' ') and ':' in ln and ln.split(':')[0].replace('.', '').isidentifier():
                        exc = ln.split(':')[0].split('.')[-1]
                res.violation('internal:%s@%s' % (exc, where), 'command line %r:\n%s' % (args, err[-1500:]),
                              {'config': 'cli', 'args': args})
        res.sample({'kind': 'cli', 'args': cmdlines[0]})
    finally:
        shutil.rmtree(d, ignore_errors=True)
